import KanidmModel.Generated.PamOps
/-
C43 — model of the PAM module's decisions (unix_integration/pam_sparkle_common/src/core.rs):

* `sm_authenticate_connected` — `connected`: the request / reply loop against the resolver daemon;
* `sm_authenticate_fallback`  — `fallback`: daemon unreachable, local passwd + shadow;
* `sm_authenticate`           — `smAuthenticate`: dispatch on `Source::{Daemon, Fallback}`;
* `acct_mgmt`                 — `acctMgmt`;
* `CryptPw::from_str` / `check_pw` (unix_integration/common/src/unix_passwd.rs) — `parseCrypt`, `checkPw`.

The daemon is a *script*: the list of events its side of the socket produces, one per
`call_and_wait`: a decoded `ClientResponse` (`reply`) or a failed call (`fail`: disconnect,
timeout, undecodable frame).  An exhausted script is a daemon that has gone away: the call fails.
The `PamHandler` is a script too: fixed answers for `service_info`, `account_id`, `authtok` and a
list of answers consumed, in call order, by `message`, `message_device_grant` and the `prompt_*`
methods (exhausted ⇒ `Err(PAM_CONV_ERR)`).  Strings (account names, credentials, pins) are `Nat`
atoms — the code only compares them for equality; shadow password fields are `List Char`
(prefix tests); instants are seconds since the epoch (`Int`).  Hash verification itself
(`sha_crypt`, `yescrypt`) is the parameter `verify`.

The reply → action table, the codes of every early return, the expiry comparison, the `CryptPw`
prefix table and the `acct_mgmt` table are not written here: they come from
`Generated/PamOps.lean`, i.e. from the source as it is now.
-/
namespace Kanidm.Pam
open Kanidm.Gen.Pam

/-- `ModuleOptions` (`debug` only prints). -/
structure Opts where
  useFirstPass : Bool
  ignoreUnknownUser : Bool
deriving DecidableEq, Repr

/-- `PamResult<Option<String>>` / `PamResult<()>` (then the payload is ignored). -/
inductive PRes where
  | ok (v : Option Nat)
  | err (c : PamCode)
deriving DecidableEq, Repr

/-- A scripted `PamHandler`. -/
structure Handler where
  /-- `service_info()`: `none` = `Ok(info)`. -/
  serviceInfo : Option PamCode
  /-- `account_id()`: `ok (some a)`; `ok none` does not occur (`PamResult<String>`) and is read as account 0. -/
  accountId : PRes
  authtok : PRes
  prompts : List PRes
deriving DecidableEq, Repr

/-- What the real `PamHandle` guarantees (checked by the translator on pam/module.rs and
pam/conv.rs): an `Err` never carries `PAM_SUCCESS`. -/
def PRes.Sane : PRes → Prop
  | .ok _ => True
  | .err c => c ≠ .success

def Handler.Sane (h : Handler) : Prop :=
  h.serviceInfo ≠ some .success ∧ h.accountId.Sane ∧ h.authtok.Sane ∧ ∀ p ∈ h.prompts, p.Sane

/-- A decoded `ClientResponse`. -/
inductive Reply where
  | step (k : StepKind) (sid : Nat)
  | pamStatus (o : Option Bool)
  | other (k : OtherKind)
deriving DecidableEq, Repr

/-- One `call_and_wait`. -/
inductive DEvent where
  | reply (r : Reply)
  | fail
deriving DecidableEq, Repr

/-- A `ClientRequest` sent to the daemon. -/
inductive Req where
  | init (acct : Nat)
  | step (q : ReqKind) (cred : Option Nat) (sid : Nat)
  | accountAllowed (acct : Nat)
deriving DecidableEq, Repr

/-- Handler methods, for the call trace. -/
inductive Call where
  | serviceInfo | accountId | authtok
  | message | deviceGrant | promptPassword | promptMfa | promptPin
deriving DecidableEq, Repr

structure Out where
  code : PamCode
  /-- requests sent, in order -/
  sent : List Req
  /-- handler methods called, in order -/
  calls : List Call
  /-- daemon events consumed (a prefix of the script) -/
  consumed : List DEvent
deriving DecidableEq, Repr

/-- The code an exhausted handler script answers with (`PAM_CONV_ERR`). -/
def exhaustedCode : PamCode := .convErr

/-- Next answer of the interactive part of the handler. -/
def nextPrompt : List PRes → PRes × List PRes
  | [] => (.err exhaustedCode, [])
  | p :: ps => (p, ps)

/-- The `loop { pin; confirm; if pin == confirm break; message }` of the `SetupPin` arm.
Result: the pin or the code returned, the calls made, the remaining answers. -/
def setupPinLoop : List PRes → (PamCode ⊕ Nat) × List Call × List PRes
  | [] => (.inl exhaustedCode, [.promptPin], [])
  | .err e :: ps => (.inl e, [.promptPin], ps)
  | .ok none :: ps => (.inl noneCode, [.promptPin], ps)
  | .ok (some _) :: [] => (.inl exhaustedCode, [.promptPin, .promptPin], [])
  | .ok (some _) :: .err e :: ps => (.inl e, [.promptPin, .promptPin], ps)
  | .ok (some _) :: .ok none :: ps => (.inl noneCode, [.promptPin, .promptPin], ps)
  | .ok (some pin) :: .ok (some confirm) :: ps =>
    if pin = confirm then (.inr pin, [.promptPin, .promptPin], ps)
    else
      match ps with
      | [] => (.inl exhaustedCode, [.promptPin, .promptPin, .message], [])
      | .err e :: ps' => (.inl e, [.promptPin, .promptPin, .message], ps')
      | .ok _ :: ps' =>
        let (r, cs, rest) := setupPinLoop ps'
        (r, [.promptPin, .promptPin, .message] ++ cs, rest)

/-- Result of the handler interaction of one "continue" arm: the credential (if the request
carries one) or the code returned; calls made; remaining stacked authtok; remaining answers. -/
abbrev IRes := (PamCode ⊕ Option Nat) × List Call × Option Nat × List PRes

/-- A prompt that must produce a value (`Ok(Some(v))`, `Ok(None) => return ..`, `Err(e) => return e`). -/
def askOne (c : Call) (stacked : Option Nat) (ps : List PRes) : IRes :=
  match nextPrompt ps with
  | (.ok (some v), rest) => (.inr (some v), [c], stacked, rest)
  | (.ok none, rest) => (.inl noneCode, [c], stacked, rest)
  | (.err e, rest) => (.inl e, [c], stacked, rest)

/-- A message shown to the user (`if let Err(err) = .. { return err }`). -/
def showMsg (c : Call) (stacked : Option Nat) (ps : List PRes) : IRes :=
  match nextPrompt ps with
  | (.ok _, rest) => (.inr none, [c], stacked, rest)
  | (.err e, rest) => (.inl e, [c], stacked, rest)

/-- A credential: `std::mem::swap(&mut authtok, &mut stacked_authtok)` — the stacked token is
used at most once — else a prompt. -/
def askCred (c : Call) (useStacked : Bool) (stacked : Option Nat) (ps : List PRes) : IRes :=
  if useStacked then
    match stacked with
    | some v => (.inr (some v), [], none, ps)
    | none => askOne c none ps
  else askOne c stacked ps

/-- `SetupPin`: message, then the pin loop. -/
def askSetupPin (stacked : Option Nat) (ps : List PRes) : IRes :=
  match nextPrompt ps with
  | (.err e, rest) => (.inl e, [.message], stacked, rest)
  | (.ok _, rest) =>
    match setupPinLoop rest with
    | (.inl c, cs, rest') => (.inl c, .message :: cs, stacked, rest')
    | (.inr pin, cs, rest') => (.inr (some pin), .message :: cs, stacked, rest')

/-- The handler interaction of one "continue" arm. -/
def interact (i : Interact) (useStacked : Bool) (stacked : Option Nat) (ps : List PRes) : IRes :=
  match i with
  | .none => (.inr none, [], stacked, ps)
  | .message => showMsg .message stacked ps
  | .deviceGrant => showMsg .deviceGrant stacked ps
  | .password => askCred .promptPassword useStacked stacked ps
  | .mfaCode => askCred .promptMfa useStacked stacked ps
  | .pin => askCred .promptPin useStacked stacked ps
  | .setupPin => askSetupPin stacked ps

/-- The `loop` of `sm_authenticate_connected`: `req` is the request about to be sent. -/
def connLoop (opts : Opts) : List DEvent → Option Nat → List PRes → Req → Out
  | [], _, _, req => { code := callErrCode, sent := [req], calls := [], consumed := [] }
  | .fail :: _, _, _, req => { code := callErrCode, sent := [req], calls := [], consumed := [.fail] }
  | .reply r :: rest, stacked, ps, req =>
    let ev := DEvent.reply r
    match r with
    | .pamStatus _ => { code := otherCode .pamStatus, sent := [req], calls := [], consumed := [ev] }
    | .other k => { code := otherCode k, sent := [req], calls := [], consumed := [ev] }
    | .step k sid =>
      match stepAction k with
      | .ret c => { code := c, sent := [req], calls := [], consumed := [ev] }
      | .retIf a b =>
        { code := if opts.ignoreUnknownUser then a else b, sent := [req], calls := [], consumed := [ev] }
      | .cont i useStacked q =>
        match interact i useStacked stacked ps with
        | (.inl c, cs, _, _) => { code := c, sent := [req], calls := cs, consumed := [ev] }
        | (.inr cred, cs, stacked', ps') =>
          let o := connLoop opts rest stacked' ps' (.step q cred sid)
          { code := o.code, sent := req :: o.sent, calls := cs ++ o.calls, consumed := ev :: o.consumed }

/-- Account atom of `account_id()`. -/
def acctOf : Option Nat → Nat
  | some a => a
  | none => 0

/-- `sm_authenticate_connected`. -/
def connected (opts : Opts) (h : Handler) (script : List DEvent) : Out :=
  match h.serviceInfo with
  | some e => { code := e, sent := [], calls := [.serviceInfo], consumed := [] }
  | none =>
    match h.accountId with
    | .err e => { code := e, sent := [], calls := [.serviceInfo, .accountId], consumed := [] }
    | .ok acct =>
      let pre : List Call := [.serviceInfo, .accountId]
      if opts.useFirstPass then
        match h.authtok with
        | .err e => { code := e, sent := [], calls := pre ++ [.authtok], consumed := [] }
        | .ok tok =>
          let o := connLoop opts script tok h.prompts (.init (acctOf acct))
          { o with calls := pre ++ [.authtok] ++ o.calls }
      else
        let o := connLoop opts script none h.prompts (.init (acctOf acct))
        { o with calls := pre ++ o.calls }

/-! ## Local shadow fallback -/

/-- `CryptPw::from_str`: first matching prefix of the generated table, else the default kind. -/
def parseCryptWith : List (List Char × HashKind) → List Char → HashKind
  | [], _ => noPrefixKind
  | (p, k) :: rest, s => if p.isPrefixOf s then k else parseCryptWith rest s

def parseCrypt (s : List Char) : HashKind := parseCryptWith prefixTable s

/-- `crypt.rsplit('$').next()`: the text after the last `$` (everything if there is none). -/
def digestOf (s : List Char) : List Char :=
  (s.reverse.takeWhile (· != '$')).reverse

/-- `b == b'.' || b == b'/' || b.is_ascii_alphanumeric()` -/
def digestChar (c : Char) : Bool := c == '.' || c == '/' || c.isAlphanum

/-- `sha_crypt_digest_is_canonical(crypt, len, last_chars)`; no guard for kinds without a shape. -/
def digestCanonical (shape : Option (Nat × List Char)) (s : List Char) : Bool :=
  match shape with
  | none => true
  | some (len, lastChars) =>
    let d := digestOf s
    d.length == len && d.all digestChar &&
      (match d.getLast? with
        | some c => lastChars.contains c
        | none => false)

/-- `CryptPw::check_pw`; `verify k hash cred` is the scheme's own verification, reached only
behind the digest-shape guard. -/
def checkPw (verify : HashKind → List Char → Nat → Bool) (s : List Char) (cred : Nat) : Bool :=
  let k := parseCrypt s
  if kindVerifies k then digestCanonical (digestShape k) s && verify k s cred else false

/-- `EtcShadow`: name, password field, `epoch_expire_seconds`. -/
structure Shadow where
  name : Nat
  pw : List Char
  expire : Option Int
deriving DecidableEq, Repr

/-- `users.into_iter().find(..)` and `shadow.into_iter().find(..)`, both required. -/
def lookup (users : List Nat) (shadow : List Shadow) (acct : Nat) : Option Shadow :=
  if users.contains acct then shadow.find? (·.name == acct) else none

def isExpired (now : Int) (s : Shadow) : Bool :=
  match s.expire with
  | some e => expiredWhen now e
  | none => false

/-- An outcome that involved no daemon. -/
def Out.noDaemon (c : PamCode) (cs : List Call) : Out := { code := c, sent := [], calls := cs, consumed := [] }

/-- One password prompt: the credential or the code returned instead. -/
def askPw (h : Handler) (cs : List Call) : (PamCode ⊕ Nat) × List Call :=
  match nextPrompt h.prompts with
  | (.ok (some cred), _) => (.inr cred, cs ++ [.promptPassword])
  | (.ok none, _) => (.inl noneCode, cs ++ [.promptPassword])
  | (.err e, _) => (.inl e, cs ++ [.promptPassword])

/-- The credential `sm_authenticate_fallback` judges (stacked authtok under `use_first_pass`,
else one password prompt), or the code it returns instead; with the handler calls made. -/
def fallbackCred (opts : Opts) (h : Handler) : (PamCode ⊕ Nat) × List Call :=
  if opts.useFirstPass then
    match h.authtok with
    | .err e => (.inl e, [.authtok])
    | .ok (some cred) => (.inr cred, [.authtok])
    | .ok none => askPw h [.authtok]
  else askPw h []

/-- `sm_authenticate_fallback`. -/
def fallback (verify : HashKind → List Char → Nat → Bool) (opts : Opts) (h : Handler) (now : Int)
    (users : List Nat) (shadow : List Shadow) : Out :=
  match h.accountId with
  | .err e => .noDaemon e [.accountId]
  | .ok acct =>
    match lookup users shadow (acctOf acct) with
    | none => .noDaemon (if opts.ignoreUnknownUser then unknownIfIgnore else unknownOtherwise) [.accountId]
    | some s =>
      if isExpired now s then .noDaemon expiredCode [.accountId]
      else
        match fallbackCred opts h with
        | (.inl c, cs) => .noDaemon c (.accountId :: cs)
        | (.inr cred, cs) =>
          .noDaemon (if checkPw verify s.pw cred then pwOkCode else pwBadCode) (.accountId :: cs)

/-- `RequestOptions::connect_to_daemon`: a client exists (`Source::Daemon`, with its script) or
not (`Source::Fallback`, with the local files). -/
inductive Source where
  | daemon (script : List DEvent)
  | fallback (users : List Nat) (shadow : List Shadow)
deriving Repr

/-- `sm_authenticate`. -/
def smAuthenticate (verify : HashKind → List Char → Nat → Bool) (opts : Opts) (h : Handler) (now : Int) :
    Source → Out
  | .daemon script => connected opts h script
  | .fallback users shadow => fallback verify opts h now users shadow

/-- `acct_mgmt`. -/
def acctMgmt (opts : Opts) (h : Handler) (now : Int) (src : Source) : Out :=
  match h.serviceInfo with
  | some e => { code := e, sent := [], calls := [.serviceInfo], consumed := [] }
  | none =>
    match h.accountId with
    | .err e => { code := e, sent := [], calls := [.serviceInfo, .accountId], consumed := [] }
    | .ok acct =>
      let cs : List Call := [.serviceInfo, .accountId]
      let a := acctOf acct
      match src with
      | .daemon script =>
        let req := Req.accountAllowed a
        match script with
        | [] => { code := acctCallErrCode, sent := [req], calls := cs, consumed := [] }
        | .fail :: _ => { code := acctCallErrCode, sent := [req], calls := cs, consumed := [.fail] }
        | .reply r :: _ =>
          let code :=
            match r with
            | .pamStatus o =>
              match acctStatus o with
              | .ret c => c
              | .retIf x y => if opts.ignoreUnknownUser then x else y
            | _ => acctOtherCode
          { code := code, sent := [req], calls := cs, consumed := [.reply r] }
      | .fallback users shadow =>
        match lookup users shadow a with
        | none =>
          { code := if opts.ignoreUnknownUser then unknownIfIgnore else unknownOtherwise,
            sent := [], calls := cs, consumed := [] }
        | some s =>
          { code := if isExpired now s then expiredCode else acctFallbackOk,
            sent := [], calls := cs, consumed := [] }

end Kanidm.Pam
