import KanidmModel.OAuth2.Types
/-!
C38 — `IdmServerProxyReadTransaction::check_oauth2_authorisation`,
`process_requested_scopes_for_identity`, `check_is_loopback` / `host_is_local`,
`IdmServerProxyWriteTransaction::check_oauth2_authorise_permit` and the part of
`Oauth2ResourceServersWriteTransaction::reload` that builds a client's redirect sets and type
(`server/lib/src/idm/oauth2.rs`), transcribed arm by arm in source order.  Every comparison,
boolean combination, per-type table and constant comes from `Generated/OAuth2AuthzOps.lean`.

Not modelled (trusted): JWE encryption / decryption of the code and the consent token (a token
reaches `permit` only as issued), `url` parsing (the request URL arrives as atom + `scheme() ==
"https"` + `host()`), the scope regex (a predicate parameter), `tracing` output.
-/
namespace Kanidm.OAuth2
open Kanidm.Gen.OAuth2Authz

/-! ## Request -/

inductive ResponseType where
  | code | token | idToken
  deriving DecidableEq, Repr

inductive ResponseMode where
  | query | fragment | formPost | invalid
  deriving DecidableEq, Repr

/-- `enum Prompt`; `Invalid(String)` keeps no payload (only its presence is tested). -/
inductive Prompt where
  | none | login | consent | selectAccount | invalid
  deriving DecidableEq, Repr

/-- `url::Host`. -/
inductive Host where
  | ipv4 (a b c d : Nat)
  | ipv6 (segments : List Nat)
  | domain (name : List Char)
  deriving DecidableEq, Repr

/-- The request's `redirect_uri: Url` as the decision reads it. -/
structure Uri where
  atom : Nat
  https : Bool
  host : Option Host
  deriving DecidableEq, Repr

/-- `PkceRequest`. -/
structure Pkce where
  challenge : Nat
  isS256 : Bool
  deriving DecidableEq, Repr

/-- `AuthorisationRequest` (+ `AuthorisationRequestContext::resumed` is passed separately). -/
structure Request where
  responseType : ResponseType
  responseMode : Option ResponseMode
  clientId : List Char
  state : Option Nat
  pkce : Option Pkce
  redirectUri : Uri
  scope : List Nat
  nonce : Option Nat
  maxAge : Option Int
  prompt : List Prompt
  deriving DecidableEq, Repr

/-! ## Outcome -/

/-- The `Oauth2Error`s `check_oauth2_authorisation` returns. -/
inductive Err where
  | unsupportedResponseType | invalidRequest | invalidClientId | invalidOrigin
  | loginRequired | accessDenied | invalidScope | interactionRequired
  deriving DecidableEq, Repr

/-- `Result<AuthoriseResponse, Oauth2Error>`; the encrypted payloads are shown decrypted. -/
inductive Outcome where
  | err (e : Err)
  | authenticationRequired
  | reauthenticationRequired
  | consentRequested (token : ConsentToken) (piiScopes : List Nat)
  | permitted (code : ExchangeCode) (state : Option Nat) (mode : SupportedResponseMode)
  deriving DecidableEq, Repr

/-! ## Enum codes of the regenerated tables -/

def ResponseType.idx : ResponseType → Nat
  | .code => 0 | .token => 1 | .idToken => 2

def ResponseMode.idx : ResponseMode → Nat
  | .query => 0 | .fragment => 1 | .formPost => 2 | .invalid => 3

def ResponseMode.ofIdx : Nat → Option ResponseMode
  | 0 => some .query | 1 => some .fragment | 2 => some .formPost | 3 => some .invalid | _ => none

def SupportedResponseMode.ofIdx : Nat → Option SupportedResponseMode
  | 0 => some .query | 1 => some .fragment | _ => none

/-- `AuthorisationRequest::get_response_mode` (table regenerated from `proto/src/oauth2.rs`). -/
def getResponseMode (m : Option ResponseMode) (t : ResponseType) : Option ResponseMode :=
  match getResponseModeTable.lookup (m.map ResponseMode.idx, t.idx) with
  | some (some r) => ResponseMode.ofIdx r
  | _ => none

/-- `match response_mode { Query => Query, Fragment => Fragment, FormPost => Query, Invalid => return Err }`. -/
def supportedMode (m : ResponseMode) : Option SupportedResponseMode :=
  match supportedModeTable.lookup m.idx with
  | some (some r) => SupportedResponseMode.ofIdx r
  | _ => none

/-! ## Stage 1: request shape (before the client is looked up) -/

/-- Lines 2271–2325: response type, response mode, prompt list. -/
def shapeStage (req : Request) : Except Err SupportedResponseMode :=
  if req.responseType.idx ≠ requiredResponseType then .error .unsupportedResponseType else
  match getResponseMode req.responseMode req.responseType with
  | none => .error .invalidRequest
  | some rm =>
  match supportedMode rm with
  | none => .error .invalidRequest
  | some mode =>
  if promptTooMany req.prompt.length then .error .invalidRequest else
  if req.prompt.any (fun p => p == .invalid) then .error .invalidRequest else
  if promptNoneConflict (req.prompt.contains .none) req.prompt.length then .error .invalidRequest else
  .ok mode

/-! ## Stage 2: redirect URI -/

/-- `host_is_local`: `Ipv4Addr::is_loopback` (127.0.0.0/8), `Ipv6Addr::is_loopback` (::1),
`Domain(d) => d == "localhost"`. -/
def hostIsLocal : Host → Bool
  | .ipv4 a _ _ _ => a == 127
  | .ipv6 segs => segs == [0, 0, 0, 0, 0, 0, 0, 1]
  | .domain name => name == localhostName

/-- `check_is_loopback`: `redirect_uri.host().is_some_and(host_is_local)`. -/
def checkIsLoopback (u : Uri) : Bool :=
  match u.host with
  | some h => hostIsLocal h
  | none => false

/-- Lines 2355–2416; `.ok loopback_uri_matched` when the redirect conditions hold. -/
def redirectStage (c : Client) (u : Uri) : Except Err Bool :=
  let isLoopback := checkIsLoopback u
  let typeAllows := c.allowLocalhostRedirect
  let loopbackMatched := loopbackUriMatched isLoopback typeAllows
  let strictMatched := c.redirectUris.contains u.atom
  let opaqueMatched := c.opaqueOrigins.contains u.atom
  let secure := redirectOriginIsSecure opaqueMatched isLoopback u.https
  if !(validMatchCondition loopbackMatched strictMatched opaqueMatched) then .error .invalidOrigin else
  if insecureOriginRejected c.originSecureRequired secure then .error .invalidOrigin else
  .ok loopbackMatched

/-! ## Stage 3: PKCE -/

/-- Lines 2420–2436; `.ok code_challenge`. -/
def pkceStage (c : Client) (p : Option Pkce) : Except Err (Option Nat) :=
  match p with
  | some pk => if pkceMethodRejected pk.isS256 then .error .invalidRequest else .ok (some pk.challenge)
  | none => if c.requirePkce then .error .invalidRequest else .ok none

/-! ## Stage 4: identity freshness -/

/-- `prompt=login` ⇒ `Some(0)`, else `max_age.map(|m| m.clamp(0, OAUTH2_OIDC_MAX_AGE_CLAMP))`. -/
def effectiveMaxAge (req : Request) : Option Int :=
  if req.prompt.contains .login then some 0
  else req.maxAge.map (fun m => min (max m maxAgeClampLow) maxAgeClampHigh)

/-- `OffsetDateTime::truncate_to_second` on nanoseconds (floor). -/
def truncateToSecond (t : Int) : Int := (t / (nsPerSec : Int)) * (nsPerSec : Int)

/-- `session_recently_validated` (lines 2489–2505). -/
def sessionRecentlyValidated (maxAge : Int) (authTime : Option Int) (ct : Nat) : Bool :=
  if maxAgeForcesReauth maxAge then false
  else
    let deadline : Int := (ct : Int) - maxAge * (nsPerSec : Int)
    match authTime with
    | some t => recentlyValidated (truncateToSecond t) (truncateToSecond deadline)
    | none => false

/-- Lines 2488–2519: must the user re-authenticate? -/
def reauthRequired (req : Request) (i : Ident) (resumed : Bool) (ct : Nat) : Bool :=
  match effectiveMaxAge req with
  | none => false
  | some m =>
    if resumed then false
    else if sessionRecentlyValidated m i.lastVerifiedAt ct then false
    else true

/-! ## Stage 5: scopes -/

/-- `process_requested_scopes_for_identity` with `Some(req_scopes)`; `.ok (req_scopes, granted_scopes)`. -/
def processRequestedScopes (scopeOk : Nat → Bool) (c : Client) (i : Ident) (req : List Nat) :
    Except Err (List Nat × List Nat) :=
  if req.isEmpty then .error .invalidRequest else
  if !(req.all scopeOk) then .error .invalidScope else
  let available := heldScopes c.scopeMaps i
  if scopesDenied (req.all (fun s => available.contains s)) then .error .accessDenied else
  .ok (req, heldScopes c.supScopeMaps i ++ req)

/-! ## Stage 6: consent or code -/

def scopeOpenid : Nat := 0
def scopeEmail : Nat := 1
def scopeSshPublickeys : Nat := 2
def scopeEmailVerified : Nat := 3

/-- `pii_scopes` (lines 2638–2649). -/
def piiScopes (openidRequested : Bool) (granted : List Nat) : List Nat :=
  (if openidRequested && granted.contains scopeEmail then [scopeEmail, scopeEmailVerified] else [])
  ++ (if granted.contains scopeSshPublickeys then [scopeSshPublickeys] else [])

/-- `consent_previously_granted` (lines 2539–2546). -/
def previouslyGranted (c : Client) (i : Ident) (granted : List Nat) : Bool :=
  match i.consentScopes c.uuid with
  | some cs => setEq granted cs
  | none => false

/-- Lines 2537–2696. -/
def finishStage (c : Client) (i : Ident) (req : Request) (mode : SupportedResponseMode)
    (loopbackMatched : Bool) (challenge : Option Nat) (reqScopes granted : List Nat) (ct : Nat) : Outcome :=
  let openidRequested := reqScopes.contains scopeOpenid
  if !(consentRequired (previouslyGranted c i granted) c.isBasic loopbackMatched c.enableConsentPrompt) then
    .permitted
      { accountUuid := i.uuid, sessionId := i.sessionId, expiry := asSecs ct + codeExpirySecs,
        codeChallenge := challenge, redirectUri := req.redirectUri.atom, scopes := granted,
        nonce := req.nonce, authTime := i.lastVerifiedAt }
      req.state mode
  else if req.prompt.contains .none then .err .interactionRequired
  else
    .consentRequested
      { clientId := req.clientId, sessionId := i.sessionId, expiry := asSecs ct + consentExpirySecs,
        identId := i.originId, state := req.state, codeChallenge := challenge,
        redirectUri := req.redirectUri.atom, scopes := granted, nonce := req.nonce,
        responseMode := mode }
      (piiScopes openidRequested granted)

/-! ## The decision -/

/-- `check_oauth2_authorisation(maybe_ident, auth_req, auth_req_ctx{resumed}, ct)` against the loaded
clients `reg`; `scopeOk` is `OAUTHSCOPE_RE.is_match`; `ct` in nanoseconds. -/
def authorise (scopeOk : Nat → Bool) (reg : Registry) (ident : Option Ident) (req : Request)
    (resumed : Bool) (ct : Nat) : Outcome :=
  match shapeStage req with
  | .error e => .err e
  | .ok mode =>
  match rsSetGet reg req.clientId with
  | none => .err .invalidClientId
  | some c =>
  match redirectStage c req.redirectUri with
  | .error e => .err e
  | .ok loopbackMatched =>
  match pkceStage c req.pkce with
  | .error e => .err e
  | .ok challenge =>
  match ident with
  | none => if req.prompt.contains .none then .err .loginRequired else .authenticationRequired
  | some i =>
  if reauthRequired req i resumed ct then .reauthenticationRequired else
  if isAnonymous i.uuid uuidAnonymous then .err .accessDenied else
  match processRequestedScopes scopeOk c i req.scope with
  | .error e => .err e
  | .ok (reqScopes, granted) =>
    finishStage c i req mode loopbackMatched challenge reqScopes granted ct

/-! ## Permit -/

/-- The `OperationError`s of `check_oauth2_authorise_permit` after decryption. -/
inductive PermitErr where
  | invalidSessionState | cryptographyError | invalidRequestState
  deriving DecidableEq, Repr

/-- `AuthorisePermitSuccess` + the code's content + the consent recorded on the account
(`oauth2_consent_scope_map` := `(o2rs.uuid, consent_req.scopes)`, replacing the old value). -/
structure Permit where
  code : ExchangeCode
  redirectUri : Nat
  state : Option Nat
  responseMode : SupportedResponseMode
  consentClient : Nat
  consentScopes : List Nat
  deriving DecidableEq, Repr

/-- `check_oauth2_authorise_permit(ident, consent_token, ct)` for a token that decrypts to `tok`. -/
def permit (reg : Registry) (tok : ConsentToken) (i : Ident) (ct : Nat) : Except PermitErr Permit :=
  if tok.identId ≠ i.originId then .error .invalidSessionState else
  if tok.sessionId ≠ i.sessionId then .error .invalidSessionState else
  if consentTokenExpired tok.expiry (asSecs ct) then .error .cryptographyError else
  match rsSetGet reg tok.clientId with
  | none => .error .invalidRequestState
  | some c =>
    .ok
      { code :=
          { accountUuid := i.uuid, sessionId := i.sessionId, expiry := asSecs ct + permitCodeExpirySecs,
            codeChallenge := tok.codeChallenge, redirectUri := tok.redirectUri, scopes := tok.scopes,
            nonce := tok.nonce, authTime := i.lastVerifiedAt }
        redirectUri := tok.redirectUri, state := tok.state, responseMode := tok.responseMode
        consentClient := c.uuid, consentScopes := tok.scopes }

/-- The account after `permit`: `Removed(consent map for client)` then `Present(client, scopes)`. -/
def Ident.recordConsent (i : Ident) (p : Permit) : Ident :=
  { i with consent := (p.consentClient, p.consentScopes) :: i.consent.filter (fun e => e.1 ≠ p.consentClient) }

/-! ## Client configuration (`reload`) -/

/-- The scheme classes `reload` distinguishes. -/
inductive Scheme where
  | https | http | other
  deriving DecidableEq, Repr

/-- A configured URL: its atom *after* `set_fragment(None)` and its scheme class. -/
structure ConfUrl where
  atom : Nat
  scheme : Scheme
  deriving DecidableEq, Repr

/-- Which of the two type classes the entry has, with its optional flags as stored. -/
inductive ConfType where
  | basic (disablePkce consentPromptEnable : Option Bool)
  | pub (allowLocalhostRedirect : Option Bool)
  deriving DecidableEq, Repr

/-- An `oauth2_resource_server` entry as `reload` reads it. -/
structure ClientConf where
  uuid : Nat
  ctype : ConfType
  landing : ConfUrl
  extra : List ConfUrl
  scopeMaps : List (Nat × List Nat)
  supScopeMaps : List (Nat × List Nat)
  deriving DecidableEq, Repr

def ClientConf.urls (cf : ClientConf) : List ConfUrl := cf.landing :: cf.extra

/-- `reload`, lines 722–760 (type) and 775–820 (redirect sets). -/
def Client.ofConf (cf : ClientConf) : Client :=
  { uuid := cf.uuid
    ctype :=
      match cf.ctype with
      | .basic d p => .basic (enablePkceOfFlag d) (enableConsentPromptOfFlag p)
      | .pub l => .pub (allowLocalhostRedirectOfFlag l)
    redirectUris := (cf.urls.filter (fun u => u.scheme == .https || u.scheme == .http)).map (·.atom)
    opaqueOrigins := (cf.urls.filter (fun u => !(u.scheme == .https || u.scheme == .http))).map (·.atom)
    originSecureRequired := cf.urls.any (fun u => u.scheme == .https)
    scopeMaps := cf.scopeMaps
    supScopeMaps := cf.supScopeMaps }

end Kanidm.OAuth2
