import KanidmModel.OAuth2.Types
import KanidmModel.SessionPlugin
import KanidmModel.Generated.OAuth2TokenOps
/-!
C39 — OAuth2 tokens are redeemable only as issued.  Transcribed from `server/lib/src/idm/oauth2.rs`:

* `get_client_auth`, `check_oauth2_token_exchange` (client authentication, grant dispatch) and the
  commit rule of its only caller `QueryServerWriteV1::handle_oauth2_token_exchange`
* `check_oauth2_token_exchange_authorization_code`, `check_oauth2_token_refresh`,
  `check_oauth2_token_client_credentials`, `generate_access_token_response`
* `check_oauth2_token_introspect` (`_jwt` / `_jwe`), `oauth2_openid_userinfo`, `oauth2_token_revoke`

on top of C36's model of one account entry (`SessionPlugin.lean`: the session value sets, the
session-consistency plugin that runs inside every write, `withinWindow`) and C38's client type (`OAuth2/Types.lean`: `Client`, `requirePkce`, `isBasic`,
`ExchangeCode`).  Every comparison, error kind, constant and the order of the checks come from
`Generated/OAuth2TokenOps.lean`.

Cryptography is modelled by construction (`H_jwe`): a token is a record tagged with the uuid of
the client whose key object encrypted (JWE: code, refresh, client-access) or signed (JWS: access)
it; decryption / verification under client `c` succeeds iff the tag is `c`'s uuid; everything that
is not a token the server issued is `garbage`.  SHA-256 is a parameter `hash`.  Fresh OAuth2
session ids (`Uuid::new_v4`) are a counter.  Times are nanoseconds (`ct`) or whole seconds
(`iat`, `exp`), as in the code.  Scope sets are lists read through membership.
-/
namespace Kanidm.OAuth2.Token
open Kanidm.OAuth2 Kanidm.Gen.OAuth2Token
open Kanidm.SessionPlugin (Entry Mod withinWindow)
open Kanidm.SessionMerge (lookup)

/-! ## Tokens -/

/-- `Oauth2TokenType::Refresh` (nbf = iat; `auth_time` is carried through untouched). -/
structure RefreshTok where
  scopes : List Nat
  parent : Option Nat
  sid : Nat
  exp : Nat
  acct : Nat
  iat : Nat
  nonce : Option Nat
  deriving DecidableEq, Repr

/-- `OAuth2RFC9068Token` as far as it is read back: `sub`, `exp`, `iat`, `scope`, `session_id`,
`parent_session_id`. -/
structure AccessTok where
  scopes : List Nat
  parent : Option Nat
  sid : Nat
  exp : Nat
  acct : Nat
  iat : Nat
  deriving DecidableEq, Repr

/-- `Oauth2TokenType::ClientAccess`. -/
structure ClientAccessTok where
  scopes : List Nat
  sid : Nat
  acct : Nat
  exp : Nat
  iat : Nat
  deriving DecidableEq, Repr

/-- A string presented to an endpoint. `key` = uuid of the client whose key object made it. -/
inductive Tok where
  /-- JWE of a `TokenExchangeCode` -/
  | code (key : Nat) (c : ExchangeCode)
  /-- JWE of `Oauth2TokenType::Refresh` -/
  | refresh (key : Nat) (r : RefreshTok)
  /-- JWE of `Oauth2TokenType::ClientAccess` -/
  | clientAccess (key : Nat) (a : ClientAccessTok)
  /-- JWS (`at+jwt`) -/
  | access (key : Nat) (a : AccessTok)
  /-- anything else: not compact-serialised, unknown kid, tampered -/
  | garbage
  deriving DecidableEq, Repr

/-! ## State -/

/-- `Oauth2RS`: C38's part plus what the token endpoint reads. -/
structure TClient where
  base : Client
  /-- `OauthRSType::Basic { authz_secret }` (unused for a public client) -/
  secret : Nat
  /-- `refresh_token_expiry` (seconds) -/
  refreshExpiry : Nat
  /-- `client_scopes` / `client_sup_scopes` -/
  clientScopes : List Nat
  clientSupScopes : List Nat
  deriving DecidableEq, Repr

structure World where
  /-- `private_rs_set`: lower-cased name ↦ client -/
  reg : List (List Char × TClient)
  /-- the account entries (persons, and the clients' own entries for client credentials) -/
  accts : List (Nat × Entry)
  /-- next `Uuid::new_v4()` -/
  nextSid : Nat
  /-- change-id counter of the write transactions -/
  cid : Nat
  deriving Repr

/-- `rs_set_get`. -/
def World.client (w : World) (id : List Char) : Option TClient := w.reg.lookup (id.map Char.toLower)

/-- `rs_from_kid`: the kid map sends each client's key ids to that client. -/
def World.clientByKey (w : World) (key : Nat) : Option TClient :=
  (w.reg.find? (fun p => p.2.base.uuid == key)).map (·.2)

/-- `internal_search_uuid`. -/
def World.acct (w : World) (a : Nat) : Option Entry := lookup w.accts a

def setAcct (l : List (Nat × Entry)) (a : Nat) (e : Entry) : List (Nat × Entry) :=
  l.map (fun p => if p.1 = a then (a, e) else p)

/-- One write transaction on account `a` at `ct`: `f` on the plain attributes, modlist `m`,
then the session plugin (`SessionPlugin.step`). `none` = no such entry (`NoMatchingEntries`). -/
def World.update (w : World) (a : Nat) (f : Entry → Entry) (m : Mod) (ct : Nat) : Option World :=
  match w.acct a with
  | none => none
  | some e =>
    some { w with accts := setAcct w.accts a (Kanidm.SessionPlugin.step (f e) (.write m ct w.cid)),
                  cid := w.cid + 1 }

def World.write (w : World) (a : Nat) (m : Mod) (ct : Nat) : Option World := w.update a id m ct

/-! ## `check_oauth2_account_uuid_valid` (idm/server.rs) -/

/-- The closure `session_state_live`: not revoked and not past its expiry. -/
def stateLive (s : Kanidm.Gen.SessionOrd.SState) (ct : Nat) : Bool :=
  match s with
  | .revokedAt _ => liveRevoked
  | .expiresAt exp => liveExpires exp ct
  | .neverExpires => liveNever

/-- `check_oauth2_account_uuid_valid(uuid, session_id, parent_session_id, iat, ct)` on the entry
found for `uuid`: `true` = `Ok(Some(entry))`, `false` = `Ok(None)`. -/
def acctValid (e : Entry) (sid : Nat) (parent : Option Nat) (iat ct : Nat) : Bool :=
  if validOutsideWindow (withinWindow e ct) then false
  else
    let grace := validGrace ct iat
    match lookup e.o2s sid with
    | some o =>
      if validO2Dead (stateLive o.state ct) then false
      else
        match parent with
        | some p =>
          match e.uats.bind (fun m => lookup m p) with
          | some u => validParentOk (stateLive u.state ct)
          | none => validParentMissing (e.apis.contains p) grace
        | none => true
    | none => validO2Missing grace

/-! ## The token endpoint -/

/-- `AccessTokenResponse`, decoded. -/
structure Resp where
  sid : Nat
  acct : Nat
  parent : Option Nat
  scopes : List Nat
  iat : Nat
  aexp : Nat
  rexp : Option Nat
  idToken : Bool
  access : Tok
  refresh : Option Tok
  deriving DecidableEq, Repr

/-- `OAUTH2_SCOPE_OPENID` (the harness maps it to atom 0). -/
def scopeOpenid : Nat := 0

/-- `generate_access_token_response`. -/
def generate (w : World) (c : TClient) (ct : Nat) (scopes : List Nat) (parent : Option Nat)
    (sid acct : Nat) (nonce : Option Nat) : World × Except OErr Resp :=
  let iat := asSecs ct
  match w.write acct (.grant sid parent (some (sessionExpiry ct c.refreshExpiry)) ct) ct with
  | none => (w, .error generateAccountErr)
  | some w' =>
    let aexp := accessExp ct
    let rexp := refreshExp iat c.refreshExpiry
    (w', .ok
      { sid := sid, acct := acct, parent := parent, scopes := scopes, iat := iat, aexp := aexp,
        rexp := some rexp, idToken := scopes.contains scopeOpenid,
        access := .access c.base.uuid ⟨scopes, parent, sid, aexp, acct, iat⟩,
        refresh := some (.refresh c.base.uuid ⟨scopes, parent, sid, rexp, acct, iat, nonce⟩) })

/-- The PKCE `if let … else if … else if` chain of the code exchange. -/
def pkceCheck (hash : Nat → Nat) (c : TClient) (cd : ExchangeCode) (verifier : Option Nat) : Option OErr :=
  match cd.codeChallenge with
  | some ch =>
    match verifier with
    | none => some pkceVerifierMissingErr
    | some v => if pkceVerifyFails (pkceVerify ch (hash v)) then some pkceVerifyErr else none
  | none =>
    if pkceRequiredButAbsent c.base.requirePkce then some pkceRequiredErr
    else if pkceStrayVerifier verifier.isSome then some pkceStrayErr
    else none

/-- `parent_session_revoked` of the code exchange: the authorising login session is on the
account and revoked, or past its expiry. -/
def codeParentDeadOn (e : Entry) (sid ct : Nat) : Bool :=
  match e.uats.bind (fun m => lookup m sid) with
  | some s =>
    match s.state with
    | .revokedAt _ => codeParentDeadRevoked
    | .expiresAt exp => codeParentDeadExpires exp ct
    | .neverExpires => codeParentDeadNever
  | none => codeParentAbsent

/-- `check_oauth2_token_exchange_authorization_code`. -/
def exchangeCode (hash : Nat → Nat) (w : World) (c : TClient) (t : Tok) (redirect : Nat)
    (verifier : Option Nat) (ct : Nat) : World × Except OErr Resp :=
  match t with
  | .access _ _ => (w, .error codeParseErr)
  | .garbage => (w, .error codeParseErr)
  | .refresh key _ => (w, .error (if key = c.base.uuid then codeDeserialiseErr else codeDecryptErr))
  | .clientAccess key _ => (w, .error (if key = c.base.uuid then codeDeserialiseErr else codeDecryptErr))
  | .code key cd =>
    if key ≠ c.base.uuid then (w, .error codeDecryptErr)
    else if codeExpired cd.expiry (asSecs ct) then (w, .error codeExpiredErr)
    else
      match pkceCheck hash c cd verifier with
      | some e => (w, .error e)
      | none =>
        if redirectDiffers redirect cd.redirectUri then (w, .error redirectErr)
        else
          match w.acct cd.accountUuid with
          | none => (w, .error codeAccountErr)
          | some e =>
            if codeOutsideWindow (withinWindow e ct) then (w, .error codeWindowErr)
            else if codeParentDeadOn e cd.sessionId ct then (w, .error codeParentErr)
            else
              match generate w c ct cd.scopes (some cd.sessionId) w.nextSid cd.accountUuid cd.nonce with
              | (w', .ok r) => ({ w' with nextSid := w'.nextSid + 1 }, .ok r)
              | (w', .error e) => (w', .error e)

/-- `check_oauth2_token_refresh`. -/
def exchangeRefresh (w : World) (c : TClient) (t : Tok) (req : Option (List Nat)) (ct : Nat) :
    World × Except OErr Resp :=
  match t with
  | .access _ _ => (w, .error refreshParseErr)
  | .garbage => (w, .error refreshParseErr)
  | .code key _ => (w, .error (if key = c.base.uuid then refreshDeserialiseErr else refreshDecryptErr))
  | .clientAccess key _ => (w, .error (if key = c.base.uuid then refreshWrongKindErr else refreshDecryptErr))
  | .refresh key r =>
    if key ≠ c.base.uuid then (w, .error refreshDecryptErr)
    else if refreshExpired r.exp (asSecs ct) then (w, .error refreshExpiredErr)
    else
      match w.acct r.acct with
      | none => (w, .error refreshInvalidErr)
      | some e =>
        if !acctValid e r.sid r.parent r.iat ct then (w, .error refreshInvalidErr)
        else
          match lookup e.o2s r.sid with
          | none => (w, .error refreshNoSessionErr)
          | some s =>
            if refreshReuse r.iat (asSecs s.issued) then
              match w.write r.acct (.revokeO2 r.sid) ct with
              | some w' => (w', .error refreshReuseErr)
              | none => (w, .error .serverError)
            else
              match req with
              | some rs =>
                if refreshScopesOk (rs.all (fun x => r.scopes.contains x)) then
                  generate w c ct rs r.parent r.sid r.acct r.nonce
                else (w, .error refreshScopeErr)
              | none => generate w c ct r.scopes r.parent r.sid r.acct r.nonce

/-- `check_oauth2_token_client_credentials` (scope syntax is C38's `validate_scopes`; requests
reach here with well-formed scopes). -/
def exchangeCC (w : World) (c : TClient) (authValid : Bool) (req : Option (List Nat)) (ct : Nat) :
    World × Except OErr Resp :=
  if !ccAuthOk authValid then (w, .error ccUnauthenticatedErr)
  else
    let rs := req.getD []
    let avail := rs.filter (fun x => c.clientScopes.contains x)
    if ccScopesDenied avail.length rs.length then (w, .error ccScopesErr)
    else
      let granted := avail ++ c.clientSupScopes
      let iat := asSecs ct
      let sid := w.nextSid
      match w.write c.base.uuid (.grant sid none (some (ccSessionExpiry ct)) ct) ct with
      | none => (w, .error .serverError)
      | some w' =>
        ({ w' with nextSid := w'.nextSid + 1 }, .ok
          { sid := sid, acct := c.base.uuid, parent := none, scopes := granted, iat := iat,
            aexp := ccExp iat, rexp := none, idToken := false,
            access := .clientAccess c.base.uuid ⟨granted, sid, c.base.uuid, ccExp iat, iat⟩,
            refresh := none })

/-- `GrantTypeReq` (token exchange for service accounts and the device flow are not modelled). -/
inductive Grant where
  | code (t : Tok) (redirect : Nat) (verifier : Option Nat)
  | refresh (t : Tok) (scopes : Option (List Nat))
  | cc (scopes : Option (List Nat))
  deriving DecidableEq, Repr

/-- `get_client_auth` + lookup + the secret check: the client and `client_authentication_valid`.
`auth` = the client id and secret the request carries (basic header or body). -/
def authenticate (w : World) (auth : Option (List Char × Option Nat)) : Except OErr (TClient × Bool) :=
  match auth with
  | none => .error authMissingErr
  | some (id, sec) =>
    match w.client id with
    | none => .error authUnknownClientErr
    | some c =>
      if c.base.isBasic then
        match sec with
        | some s => if authSecretOk (s == c.secret) then .ok (c, true) else .error authSecretWrongErr
        | none => .error authSecretMissingErr
      else .ok (c, authPublicValid)

/-- The grant dispatch of `check_oauth2_token_exchange`, before the caller's commit rule. -/
def dispatch (hash : Nat → Nat) (w : World) (c : TClient) (valid : Bool) (g : Grant) (ct : Nat) :
    World × Except OErr Resp :=
  match g with
  | .code t u v => exchangeCode hash w c t u v ct
  | .refresh t s => exchangeRefresh w c t s ct
  | .cc s => exchangeCC w c valid s ct

/-- `handle_oauth2_token_exchange`: `check_oauth2_token_exchange` in a write transaction that is
committed on `Ok(_)` and on `Err(InvalidGrant)` and dropped otherwise. -/
def tokenEndpoint (hash : Nat → Nat) (w : World) (auth : Option (List Char × Option Nat)) (g : Grant)
    (ct : Nat) : World × Except OErr Resp :=
  match authenticate w auth with
  | .error e => (w, .error e)
  | .ok (c, valid) =>
    match dispatch hash w c valid g ct with
    | (w', .ok r) => (if commitOnOk then w' else w, .ok r)
    | (w', .error e) => (if commitOnErr e then w' else w, .error e)

/-! ## Introspection, userinfo, revocation -/

inductive Intro where
  | inactive
  | active (sid acct : Nat) (scopes : List Nat) (iat exp : Nat) (client : Nat)
  deriving DecidableEq, Repr

/-- `check_oauth2_token_introspect`. -/
def introspect (w : World) (t : Tok) (ct : Nat) : Except OErr Intro :=
  match t with
  | .garbage => .error introspectNotATokenErr
  | .access key a =>
    match w.clientByKey key with
    | none => .error introspectUnknownKidErr
    | some c =>
      if introspectJwtExpired a.exp (asSecs ct) then .ok .inactive
      else
        match w.acct a.acct with
        | none => .ok .inactive
        | some e =>
          if acctValid e a.sid a.parent a.iat ct then .ok (.active a.sid a.acct a.scopes a.iat a.exp c.base.uuid)
          else .ok .inactive
  | .clientAccess key a =>
    match w.clientByKey key with
    | none => .error introspectUnknownKidErr
    | some c =>
      if introspectJweExpired a.exp (asSecs ct) then .ok .inactive
      else
        match w.acct a.acct with
        | none => .ok .inactive
        | some e =>
          if acctValid e a.sid none a.iat ct then .ok (.active a.sid a.acct a.scopes a.iat a.exp c.base.uuid)
          else .ok .inactive
  | .refresh key _ =>
    match w.clientByKey key with
    | none => .error introspectUnknownKidErr
    | some _ => .ok .inactive
  | .code key _ =>
    match w.clientByKey key with
    | none => .error introspectUnknownKidErr
    | some _ => .error introspectDeserialiseErr

/-- `oauth2_openid_userinfo` (the caller parses the bearer as a JWS: JWE tokens never get here);
`ok (iat, exp)`. -/
def userinfo (w : World) (clientId : List Char) (t : Tok) (ct : Nat) : Except OErr (Nat × Nat) :=
  match w.client clientId with
  | none => .error userinfoUnknownClientErr
  | some c =>
    match t with
    | .access key a =>
      if key ≠ c.base.uuid then .error userinfoVerifyErr
      else if userinfoExpired a.exp (asSecs ct) then .error userinfoExpiredErr
      else
        match w.acct a.acct with
        | none => .error userinfoInvalidErr
        | some e => if acctValid e a.sid a.parent a.iat ct then .ok (a.iat, a.exp) else .error userinfoInvalidErr
    | _ => .error userinfoVerifyErr

/-- The tail of `oauth2_token_revoke`. -/
def revokeCore (w : World) (sid exp acct ct : Nat) : World × Except OErr Unit :=
  if revokeExpired exp (asSecs ct) then (w, .ok ())
  else
    match w.write acct (.revokeO2 sid) ct with
    | some w' => (w', .ok ())
    | none => (w, .error .serverError)

/-- `oauth2_token_revoke` (committed on `Ok`). -/
def revoke (w : World) (t : Tok) (ct : Nat) : World × Except OErr Unit :=
  match t with
  | .garbage => (w, .error revokeNotATokenErr)
  | .access key a =>
    match w.clientByKey key with
    | none => (w, .error revokeUnknownKidErr)
    | some _ => revokeCore w a.sid a.exp a.acct ct
  | .refresh key r =>
    match w.clientByKey key with
    | none => (w, .error revokeUnknownKidErr)
    | some _ => revokeCore w r.sid r.exp r.acct ct
  | .clientAccess key a =>
    match w.clientByKey key with
    | none => (w, .error revokeUnknownKidErr)
    | some _ => revokeCore w a.sid a.exp a.acct ct
  | .code key _ =>
    match w.clientByKey key with
    | none => (w, .error revokeUnknownKidErr)
    | some _ => (w, .error revokeDeserialiseErr)

/-! ## Histories -/

/-- One event. Directory writes are C36's `Mod`s (login-session revocation = `.revoke s`, any
other write = `.touch`) plus the two validity attributes. -/
inductive Op where
  | token (auth : Option (List Char × Option Nat)) (g : Grant) (ct : Nat)
  | revoke (t : Tok) (ct : Nat)
  | dir (acct : Nat) (m : Mod) (ct : Nat)
  | setExpire (acct : Nat) (t : Option Nat) (ct : Nat)
  | setValidFrom (acct : Nat) (t : Option Nat) (ct : Nat)
  deriving Repr

def step (hash : Nat → Nat) (w : World) : Op → World
  | .token auth g ct => (tokenEndpoint hash w auth g ct).1
  | .revoke t ct => (revoke w t ct).1
  | .dir a m ct => (w.write a m ct).getD w
  | .setExpire a t ct => (w.update a (fun e => { e with expire := t }) .touch ct).getD w
  | .setValidFrom a t ct => (w.update a (fun e => { e with validFrom := t }) .touch ct).getD w

/-- A history, oldest event first (introspection and userinfo are reads: they are not events). -/
def run (hash : Nat → Nat) (w : World) (ops : List Op) : World := ops.foldl (step hash) w

end Kanidm.OAuth2.Token
