import KanidmModel.Generated.OAuth2AuthzOps
/-!
Shared OAuth2 state types (C38 authorisation, C39 token exchange): the loaded client
(`Oauth2RS`, `server/lib/src/idm/oauth2.rs`), the registry (`Oauth2RSInner::private_rs_set` +
`rs_set_get`), the identity as far as OAuth2 reads it, and the two server-issued encrypted records
(`ConsentToken`, `TokenExchangeCode`).

Atoms are naturals: scopes, group / account / client / session uuids, URLs (one atom per distinct
serialised `Url`: `Url`'s `Eq`/`Hash` compare the serialisation), PKCE challenges, `state` and
`nonce` strings.  Sets (`BTreeSet`, `HashSet`) are lists read through membership.
-/
namespace Kanidm.OAuth2
open Kanidm.Gen.OAuth2Authz

/-- `enum OauthRSType` (the basic secret is not part of the authorisation decision). -/
inductive ClientType where
  | basic (enablePkce enableConsentPrompt : Bool)
  | pub (allowLocalhostRedirect : Bool)
  deriving DecidableEq, Repr

/-- The fields of `struct Oauth2RS` that authorisation and exchange read. -/
structure Client where
  uuid : Nat
  ctype : ClientType
  redirectUris : List Nat
  opaqueOrigins : List Nat
  originSecureRequired : Bool
  scopeMaps : List (Nat × List Nat)
  supScopeMaps : List (Nat × List Nat)
  deriving DecidableEq, Repr

/-- `OauthRSType::allow_localhost_redirect`. -/
def Client.allowLocalhostRedirect (c : Client) : Bool :=
  match c.ctype with
  | .basic p q => allowLocalhostRedirectBasic p q
  | .pub l => allowLocalhostRedirectPublic l

/-- `Oauth2RS::require_pkce`. -/
def Client.requirePkce (c : Client) : Bool :=
  match c.ctype with
  | .basic p q => requirePkceBasic p q
  | .pub l => requirePkcePublic l

/-- `Oauth2RS::enable_consent_prompt`. -/
def Client.enableConsentPrompt (c : Client) : Bool :=
  match c.ctype with
  | .basic p q => enableConsentPromptBasic p q
  | .pub l => enableConsentPromptPublic l

/-- `Oauth2RS::is_basic`. -/
def Client.isBasic (c : Client) : Bool :=
  match c.ctype with
  | .basic p q => isBasicBasic p q
  | .pub l => isBasicPublic l

/-- `private_rs_set`: client name (an iname: stored lower-case) ↦ client. -/
abbrev Registry := List (List Char × Client)

/-- `Oauth2RSInner::rs_set_get`: `private_rs_set.get(client_id.to_lowercase())`
(ASCII lowering; see the trusted base of C38 for non-ASCII ids). -/
def rsSetGet (reg : Registry) (clientId : List Char) : Option Client :=
  reg.lookup (clientId.map Char.toLower)

/-- `SupportedResponseMode`. -/
inductive SupportedResponseMode where
  | query | fragment
  deriving DecidableEq, Repr

/-- Which `IdentType` an `Identity` has. -/
inductive IdentKind where
  | internal | synch | user
  deriving DecidableEq, Repr

/-- `Identity`, as far as OAuth2 reads it. `memberOf` / `consent` are the user entry's `memberof`
and `oauth2_consent_scope_map` attributes (ignored unless `kind = user`, as in
`Identity::is_memberof` / `get_oauth2_consent_scopes`). Times in nanoseconds since the epoch. -/
structure Ident where
  kind : IdentKind
  uuid : Nat
  sessionId : Nat
  lastVerifiedAt : Option Int
  memberOf : List Nat
  consent : List (Nat × List Nat)
  deriving DecidableEq, Repr

/-- `Identity::is_memberof`. -/
def Ident.isMemberOf (i : Ident) (g : Nat) : Bool :=
  match i.kind with
  | .user => i.memberOf.contains g
  | _ => false

/-- `Identity::get_oauth2_consent_scopes`. -/
def Ident.consentScopes (i : Ident) (rs : Nat) : Option (List Nat) :=
  match i.kind with
  | .user => i.consent.lookup rs
  | _ => none

/-- `Identity::get_event_origin_id` (`IdentityId::{Internal,Synch,User}(uuid)`). -/
def Ident.originId (i : Ident) : IdentKind × Nat := (i.kind, i.uuid)

/-- `UUID_ANONYMOUS` (the harness maps it to atom 0). -/
def uuidAnonymous : Nat := 0

/-- `struct TokenExchangeCode`: what an authorisation code carries (encrypted to the client's key). -/
structure ExchangeCode where
  accountUuid : Nat
  sessionId : Nat
  expiry : Nat
  codeChallenge : Option Nat
  redirectUri : Nat
  scopes : List Nat
  nonce : Option Nat
  authTime : Option Int
  deriving DecidableEq, Repr

/-- `struct ConsentToken` (encrypted to the server's consent key). -/
structure ConsentToken where
  clientId : List Char
  sessionId : Nat
  expiry : Nat
  identId : IdentKind × Nat
  state : Option Nat
  codeChallenge : Option Nat
  redirectUri : Nat
  scopes : List Nat
  nonce : Option Nat
  responseMode : SupportedResponseMode
  deriving DecidableEq, Repr

/-- The scopes a user holds through one of the client's maps:
`maps.iter().filter_map(|(u, m)| ident.is_memberof(*u).then_some(m.iter())).flatten()`. -/
def heldScopes (maps : List (Nat × List Nat)) (i : Ident) : List Nat :=
  (maps.filter (fun gm => i.isMemberOf gm.1)).flatMap (fun gm => gm.2)

/-- `BTreeSet` equality on lists read as sets. -/
def setEq (a b : List Nat) : Bool :=
  a.all (fun x => b.contains x) && b.all (fun x => a.contains x)

/-- Nanoseconds per second. -/
def nsPerSec : Nat := 1000000000

/-- `Duration::as_secs` of an instant given in nanoseconds. -/
def asSecs (ct : Nat) : Nat := ct / nsPerSec

end Kanidm.OAuth2
