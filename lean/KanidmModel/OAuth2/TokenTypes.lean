/-
C39 — types shared by the generated operators (`Generated/OAuth2TokenOps.lean`) and the hand
model (`OAuth2/Token.lean`).  Import-free.
-/
namespace Kanidm.OAuth2.Token

/-- The variants of `enum Oauth2Error` (idm/oauth2.rs) the token endpoints return
(`ServerError(_)` without its payload). -/
inductive OErr where
  | authenticationRequired
  | invalidClientId
  | invalidOrigin
  | invalidRequest
  | invalidGrant
  | unauthorizedClient
  | accessDenied
  | unsupportedResponseType
  | invalidScope
  | serverError
  | temporarilyUnavailable
  | invalidToken
  | insufficientScope
  | unsupportedTokenType
  | slowDown
  | authorizationPending
  | expiredToken
  | invalidTarget
  | loginRequired
  | interactionRequired
deriving DecidableEq, Repr, Inhabited

/-- The checks of `check_oauth2_token_exchange_authorization_code`, named; the translator emits
them in source order. -/
inductive CodeCheck where
  | parse | decrypt | expiry | pkce | redirect | account | window | parentSession
deriving DecidableEq, Repr, Inhabited

/-- The checks of `check_oauth2_token_refresh`. -/
inductive RefreshCheck where
  | parse | decrypt | kind | expiry | valid | sessionPresent | reuse | scopes
deriving DecidableEq, Repr, Inhabited

end Kanidm.OAuth2.Token
