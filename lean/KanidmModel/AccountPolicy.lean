import KanidmModel.Generated.AccountPolicyOps
/-!
# Model of `server/lib/src/idm/accountpolicy.rs` (C35)

`From<&EntrySealedCommitted> for Option<AccountPolicy>` (the defaults), and
`ResolvedAccountPolicy::fold_from` transcribed field by field: the closure body is `step`, the
NIST post-step is `finish`.  The initial accumulator, the defaults, every comparison operator and
the post-step condition come from `Generated/AccountPolicyOps.lean` (regenerated from the source
on every run).  `u32`/`u64` values are `Nat` (no arithmetic is done on them); `CredentialType` is
its discriminant (derived `Ord` = discriminant order, checked by the translator).

The attestation CA list (`webauthn_attestation_ca::AttestationCaList`, a `BTreeMap` from CA key
id to either "blanket allow" or a set of device AAGUIDs) and its `intersection` are transcribed
from webauthn-attestation-ca 0.6.1 (`AttestationCaList::intersection`,
`AttestationCa::intersection`, `can_retain`); device descriptions are not modelled.
-/
namespace Kanidm.AccountPolicy
open Kanidm.Gen.AccountPolicy

/-- `AttestationCa` without the certificate: `blanket_allow`, or the allowed AAGUIDs. -/
inductive CaEntry
  | blanket
  | devices (aaguids : List Nat)
  deriving DecidableEq, Repr

/-- `AttestationCaList.cas`: key id ↦ CA, in key order. -/
abbrev CaList := List (Nat × CaEntry)

def caFind : CaList → Nat → Option CaEntry
  | [], _ => none
  | (k', e) :: t, k => if k' = k then some e else caFind t k

/-- `AttestationCa::intersection(&mut self, other)` -/
def entryInter (s o : CaEntry) : CaEntry :=
  match o with
  | .blanket => s
  | .devices od =>
    match s with
    | .blanket => .devices od
    | .devices sd => .devices (sd.filter fun g => od.contains g)

/-- `AttestationCa::can_retain` -/
def canRetain : CaEntry → Bool
  | .blanket => true
  | .devices d => !d.isEmpty

/-- `AttestationCaList::intersection(&mut self, other)`: `self.cas.retain(..)` -/
def caInter (s o : CaList) : CaList :=
  s.filterMap fun ke =>
    match caFind o ke.1 with
    | some oe =>
      let e := entryInter ke.2 oe
      if canRetain e then some (ke.1, e) else none
    | none => none

/-- `struct AccountPolicy` -/
structure AccountPolicy where
  privilegeExpiry : Nat
  authsessionExpiry : Nat
  pwMinLength : Nat
  credentialPolicy : Nat
  caList : Option CaList
  limitFilterTest : Option Nat
  limitResults : Option Nat
  allowFallback : Option Bool
  deriving DecidableEq, Repr

/-- The attributes of an `account_policy` group entry (`none` = attribute absent). -/
structure RawPolicy where
  privilegeExpiry : Option Nat
  authsessionExpiry : Option Nat
  pwMinLength : Option Nat
  credentialPolicy : Option Nat
  caList : Option CaList
  limitFilterTest : Option Nat
  limitResults : Option Nat
  allowFallback : Option Bool
  deriving DecidableEq, Repr

/-- `From<&EntrySealedCommitted> for Option<AccountPolicy>` for an entry of class `account_policy`. -/
def fromEntry (r : RawPolicy) : AccountPolicy :=
  { privilegeExpiry := r.privilegeExpiry.getD defaultPrivilegeExpiry
    authsessionExpiry := r.authsessionExpiry.getD defaultAuthsessionExpiry
    pwMinLength := r.pwMinLength.getD defaultPwMinLength
    credentialPolicy := r.credentialPolicy.getD defaultCredentialPolicy
    caList := r.caList
    limitFilterTest := r.limitFilterTest
    limitResults := r.limitResults
    allowFallback := r.allowFallback }

/-- `struct ResolvedAccountPolicy` -/
structure Resolved where
  privilegeExpiry : Nat
  authsessionExpiry : Nat
  pwMinLength : Nat
  pwMaxLength : Nat
  credentialPolicy : Nat
  caList : Option CaList
  limitFilterTest : Option Nat
  limitResults : Option Nat
  allowFallback : Option Bool
  deriving DecidableEq, Repr

/-- "Start with our maximums" -/
def init : Resolved :=
  { privilegeExpiry := initPrivilegeExpiry
    authsessionExpiry := initAuthsessionExpiry
    pwMinLength := initPwMinLength
    pwMaxLength := initPwMaxLength
    credentialPolicy := initCredentialPolicy
    caList := none
    limitFilterTest := none
    limitResults := none
    allowFallback := none }

/-- The two `limit_search_*` blocks. -/
def limStep (takes : Nat → Nat → Bool) (acc pol : Option Nat) : Option Nat :=
  match pol with
  | some pl =>
    match acc with
    | some al => if takes pl al then some pl else some al
    | none => some pl
  | none => acc

/-- The `webauthn_att_ca_list` block. -/
def caStep (acc pol : Option CaList) : Option CaList :=
  match pol with
  | some pl =>
    match acc with
    | some al => some (caInter al pl)
    | none => some pl
  | none => acc

/-- The `allow_primary_cred_fallback` block. -/
def fbStep (acc pol : Option Bool) : Option Bool :=
  match pol with
  | some b =>
    match acc with
    | some ab => some (b && ab)
    | none => some b
  | none => acc

/-- The body of `iter.for_each(|acc_pol| { … })`. -/
def step (a : Resolved) (p : AccountPolicy) : Resolved :=
  { privilegeExpiry :=
      if privTakes p.privilegeExpiry a.privilegeExpiry then p.privilegeExpiry else a.privilegeExpiry
    authsessionExpiry :=
      if sessTakes p.authsessionExpiry a.authsessionExpiry then p.authsessionExpiry else a.authsessionExpiry
    pwMinLength := if pwMinTakes p.pwMinLength a.pwMinLength then p.pwMinLength else a.pwMinLength
    pwMaxLength := a.pwMaxLength
    credentialPolicy :=
      if credTakes p.credentialPolicy a.credentialPolicy then p.credentialPolicy else a.credentialPolicy
    limitResults := limStep limResultsTakes a.limitResults p.limitResults
    limitFilterTest := limStep limFilterTakes a.limitFilterTest p.limitFilterTest
    caList := caStep a.caList p.caList
    allowFallback := fbStep a.allowFallback p.allowFallback }

/-- "Per NIST, if a password can be used as a single factor authenticator …" -/
def finish (a : Resolved) : Resolved :=
  if nistApplies a.credentialPolicy a.pwMinLength then { a with pwMinLength := pwSfaMin } else a

/-- `ResolvedAccountPolicy::fold_from` -/
def foldFrom (l : List AccountPolicy) : Resolved := finish (l.foldl step init)

/-! ## What a CA list trusts (the meaning the property speaks about) -/

def entryTrusts : CaEntry → Nat → Bool
  | .blanket, _ => true
  | .devices d, g => d.contains g

/-- Whether the list trusts device `g` attested by CA `k`. -/
def caTrusts (l : CaList) (k g : Nat) : Bool :=
  match caFind l k with
  | some e => entryTrusts e g
  | none => false

/-- `None` = no attestation requirement. -/
def caOptTrusts : Option CaList → Nat → Nat → Bool
  | none, _, _ => true
  | some l, k, g => caTrusts l k g

end Kanidm.AccountPolicy
