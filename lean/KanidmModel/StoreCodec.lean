import KanidmModel.Generated.StoreCodecTables
/-!
C12 — model of kanidm's storage / replication encodings of values and entries.

What is transcribed (Rust → here):

* every variant→variant conversion `match` between an in-memory enum and its stored form
  (`Kdf ↔ DbPasswordV1`, `CredentialType ↔ DbCred`, session scope/state/auth-type, key
  usage/status, …, and the valueset dispatch `ValueSetX::to_db_valueset_v2` /
  `valueset::from_db_valueset_v2`) — the tables themselves are *generated from the source* on
  every run (`Kanidm.Gen.StoreCodec.*`); `TagPair.encode/decode` is how a `match` reads them;
* record conversions with field flow (`Password::to_dbpasswordv1`, `TryFrom<DbPasswordV1> for
  Password`, intent-token state): `RecPair.encode/decode` copy slot `flow[i]` of the source
  into slot `i` of the destination, exactly as the arm's constructor expression does;
* `Password::verify` as a function of the `Kdf` variant and its fields only (`verify`);
* `Entry::to_dbentry` / `Entry::from_dbentry` (`toDbEntry`, `fromDbEntry`): attribute map
  mapped valueset by valueset, empty stored sets skipped on load, the uuid attribute required;
* `ReplEntryV1::new` / `rehydrate` and `ReplIncrementalEntryV1::new` / `rehydrate` (`replNew`,
  `replRehydrate`): only attributes of the change state that are replicated (and, incremental,
  inside the requested range) are sent; an empty set is sent as "no value".

Payloads (strings, numbers, byte strings, timestamps …) are opaque `Nat` atoms: their serde
encodings are exercised by the differential harness, not modelled.
-/
namespace Kanidm.StoreCodec

/-! ### Variant tables -/

/-- The encoder `match`: in-memory variant ↦ stored variant. -/
def TagPair.encode (p : TagPair) (a : Nat) : Option Nat := p.enc.lookup a

/-- The decoder `match`: stored variant ↦ in-memory variant (`none`: rejected / unknown). -/
def TagPair.decode (p : TagPair) (d : Nat) : Option Nat := (p.dec.lookup d).join

/-- Store, then load. -/
def TagPair.roundtrip (p : TagPair) (a : Nat) : Option Nat := (p.encode a).bind p.decode

/-- Decidable check over the finite table: every in-memory variant survives store + load. -/
def TagPair.ok (p : TagPair) : Bool :=
  (List.range p.nMem).all fun a => p.roundtrip a == some a

/-- No two stored variants share a serde name (otherwise the JSON is ambiguous). -/
def TagPair.serdeOk (p : TagPair) : Bool :=
  p.dbSerdeIds.length == p.nDb &&
  (List.range p.nDb).all fun i => (List.range p.nDb).all fun j =>
    i == j || p.dbSerdeIds[i]? != p.dbSerdeIds[j]?

/-! ### Record conversions -/

/-- A value of a tagged record type: variant index and its fields (opaque atoms), in the
variant's slot order. -/
structure RVal where
  tag : Nat
  fields : List Nat
deriving DecidableEq, Repr

/-- `flow.map (xs[·])`, failing when an index is out of range (never happens for a checked
table; there is no default value to hide behind). -/
def gather (xs : List Nat) : List Nat → Option (List Nat)
  | [] => some []
  | j :: js =>
    match xs[j]?, gather xs js with
    | some x, some r => some (x :: r)
    | _, _ => none

def findArm (arms : List RecArm) (t : Nat) : Option RecArm := arms.find? fun a => a.src == t

/-- One direction of a record conversion: select the arm of the value's variant, build the
destination variant from the bound fields. A value whose field count is not its variant's
arity is ill-typed and converts to nothing. -/
def conv (arms : List RecArm) (arity : List Nat) (v : RVal) : Option RVal :=
  match findArm arms v.tag with
  | none => none
  | some arm =>
    if arity[v.tag]? = some v.fields.length then
      match gather v.fields arm.flow with
      | some fs => some ⟨arm.dst, fs⟩
      | none => none
    else none

def RecPair.encode (p : RecPair) (v : RVal) : Option RVal := conv p.enc p.memArity v
def RecPair.decode (p : RecPair) (v : RVal) : Option RVal := conv p.dec p.dbArity v
def RecPair.roundtrip (p : RecPair) (v : RVal) : Option RVal := (p.encode v).bind p.decode
/-- stored → memory → stored (what the harness can observe of private in-memory types) -/
def RecPair.restore (p : RecPair) (v : RVal) : Option RVal := (p.decode v).bind p.encode

/-- Well-typed in-memory value: a variant of the enum with exactly that variant's fields. -/
def RecPair.wf (p : RecPair) (v : RVal) : Prop := p.memArity[v.tag]? = some v.fields.length

instance (p : RecPair) (v : RVal) : Decidable (p.wf v) := by
  unfold RecPair.wf; infer_instance

/-- Decidable check of one in-memory variant of a record table: the encoder arm exists, the
decoder arm of the variant it produces leads back, both flows are in range and the decoder's
flow undoes the encoder's. -/
def RecPair.armOk (p : RecPair) (a : Nat) : Bool :=
  match findArm p.enc a with
  | none => false
  | some e =>
    match findArm p.dec e.dst with
    | none => false
    | some d =>
      d.dst == a &&
      p.dbArity[e.dst]? == some e.flow.length &&
      p.memArity[a]? == some d.flow.length &&
      e.flow.all (· < d.flow.length) &&
      (List.range d.flow.length).all fun s => (d.flow[s]?).bind (e.flow[·]?) == some s

def RecPair.ok (p : RecPair) : Bool := (List.range p.memArity.length).all p.armOk

/-- `Password::verify_ctx`: a `match` on the `Kdf` variant that recomputes the hash from that
variant's parameters. The per-variant primitive is a parameter (trusted; C30 is about it). -/
def verify (prim : Nat → List Nat → Nat → Bool) (pw : RVal) (cleartext : Nat) : Bool :=
  prim pw.tag pw.fields cleartext

/-! ### Timestamps with a unit -/

/-- serialise: nanoseconds since the epoch ↦ stored integer (truncating division, as
`OffsetDateTime::unix_timestamp()` does for times after the epoch) -/
def TimeCodec.store (c : TimeCodec) (nanos : Nat) : Nat := nanos / c.unitNs

/-- deserialise: `OffsetDateTime::from_unix_timestamp(n)` -/
def TimeCodec.load (c : TimeCodec) (stored : Nat) : Nat := stored * c.unitNs

/-! ### Valuesets, entries -/

/-- An in-memory valueset: which `ValueSetX` struct it is and its elements (opaque). -/
structure VS where
  kind : Nat
  elems : List Nat
deriving DecidableEq, Repr

/-- A stored valueset: the `DbValueSetV2` constructor and the elements. -/
structure DbVS where
  ctor : Nat
  elems : List Nat
deriving DecidableEq, Repr

/-- `ValueSetT::to_db_valueset_v2` (the constructor is the generated dispatch table's). -/
def toDbVS (disp : TagPair) (v : VS) : Option DbVS := (disp.encode v.kind).map fun c => ⟨c, v.elems⟩

/-- `valueset::from_db_valueset_v2`. -/
def fromDbVS (disp : TagPair) (d : DbVS) : Option VS := (disp.decode d.ctor).map fun k => ⟨k, d.elems⟩

/-- `EntryChangeState` / `DbEntryChangeState` / `ReplStateV1`: variant (0 = live, 1 = tombstone
in the generated tables' numbering), creation/tombstone cid, per-attribute change cids. -/
structure CState where
  tag : Nat
  atCid : Nat
  changes : List (Nat × Nat)
deriving DecidableEq, Repr

def convCState (f : Nat → Option Nat) (c : CState) : Option CState :=
  (f c.tag).map fun t => { c with tag := t }

/-- Map the values of an attribute map, failing as a whole when one value fails
(`.collect::<Result<_, _>>()`). -/
def mapAttrs {α β : Type} (f : α → Option β) : List (Nat × α) → Option (List (Nat × β))
  | [] => some []
  | (k, v) :: r =>
    match f v, mapAttrs f r with
    | some w, some r' => some ((k, w) :: r')
    | _, _ => none

structure Entry where
  uuid : Nat
  id : Nat
  cs : CState
  attrs : List (Nat × VS)
deriving DecidableEq, Repr

structure DbEntry where
  cs : CState
  attrs : List (Nat × DbVS)
deriving DecidableEq, Repr

/-- `Entry::to_dbentry`. -/
def toDbEntry (disp cst : TagPair) (e : Entry) : Option DbEntry :=
  match convCState cst.encode e.cs, mapAttrs (toDbVS disp) e.attrs with
  | some cs, some as => some ⟨cs, as⟩
  | _, _ => none

/-- `Entry::from_dbentry`: empty stored sets are skipped, every other set must decode, the
uuid attribute must be present and single-valued (`single` = `ValueSetT::to_uuid_single`). -/
def fromDbEntry (disp cst : TagPair) (single : VS → Option Nat) (uuidKey : Nat)
    (d : DbEntry) (id : Nat) : Option Entry :=
  match convCState cst.decode d.cs,
        mapAttrs (fromDbVS disp) (d.attrs.filter fun kv => !kv.2.elems.isEmpty) with
  | some cs, some as =>
    match (as.lookup uuidKey).bind single with
    | some u => some ⟨u, id, cs, as⟩
    | none => none
  | _, _ => none

/-! ### Replication entries -/

structure ReplAttr where
  cid : Nat
  attr : Option DbVS
deriving DecidableEq, Repr

structure ReplEntry where
  uuid : Nat
  tag : Nat
  atCid : Nat
  attrs : List (Nat × ReplAttr)
deriving DecidableEq, Repr

/-- The value sent for one attribute: `live_attrs.get(attr).and_then(|vs| if vs.is_empty()
{ None } else { Some(vs.to_db_valueset_v2()) })`. -/
def replValue (disp : TagPair) (attrs : List (Nat × VS)) (k : Nat) : Option DbVS :=
  (attrs.lookup k).bind fun vs => if vs.elems.isEmpty then none else toDbVS disp vs

/-- `ReplEntryV1::new` (`within` = `schema.is_replicated`) and `ReplIncrementalEntryV1::new`
(`within` = replicated ∧ the change cid lies in the requested range). -/
def replNew (disp rst : TagPair) (within : Nat → Nat → Bool) (e : Entry) : Option ReplEntry :=
  match rst.encode e.cs.tag with
  | none => none
  | some t =>
    if e.cs.tag = 0 then
      some ⟨e.uuid, t, e.cs.atCid,
        e.cs.changes.filterMap fun (k, cid) =>
          if within k cid then some (k, ⟨cid, replValue disp e.attrs k⟩) else none⟩
    else some ⟨e.uuid, t, e.cs.atCid, []⟩

/-- The loop of `rehydrate`: decode every sent value, collect change cids, fail on a value
that does not decode or on a duplicated attribute. -/
def rehydrateAttrs (disp : TagPair) :
    List (Nat × ReplAttr) → Option (List (Nat × Nat) × List (Nat × VS))
  | [] => some ([], [])
  | (k, ra) :: rest =>
    match rehydrateAttrs disp rest with
    | none => none
    | some (chg, ea) =>
      if chg.any (fun kc => kc.1 == k) then none
      else
        match ra.attr with
        | none => some ((k, ra.cid) :: chg, ea)
        | some d =>
          match fromDbVS disp d with
          | none => none
          | some v => some ((k, ra.cid) :: chg, (k, v) :: ea)

/-- `ReplIncrementalEntryV1::rehydrate` (and `ReplEntryV1::rehydrate` for live entries; for a
tombstone the latter synthesises the three tombstone attributes, which the model leaves out). -/
def replRehydrate (disp rst : TagPair) (r : ReplEntry) : Option (Nat × CState × List (Nat × VS)) :=
  match rst.decode r.tag with
  | none => none
  | some t =>
    if t = 0 then
      match rehydrateAttrs disp r.attrs with
      | none => none
      | some (chg, ea) => some (r.uuid, ⟨t, r.atCid, chg⟩, ea)
    else some (r.uuid, ⟨t, r.atCid, []⟩, [])

/-- What a consumer is entitled to see of entry `e`: the change state restricted to the sent
attributes, and for each of them the identical valueset (or nothing when absent / empty). -/
def replExpected (within : Nat → Nat → Bool) (e : Entry) : CState × List (Nat × VS) :=
  (⟨e.cs.tag, e.cs.atCid, e.cs.changes.filter fun kc => within kc.1 kc.2⟩,
   e.cs.changes.filterMap fun (k, cid) =>
     if within k cid then
       ((e.attrs.lookup k).filter fun vs => !vs.elems.isEmpty).map fun vs => (k, vs)
     else none)

/-! ## Fields a decoder must rebuild (derived state the encoder does not write)

`Gen.decodeCtors` lists, for every decoder reached from `from_db_valueset_v2`, how it builds its
`ValueSetX`: through a canonical in-memory constructor, or by struct literals — then where every
field of the struct comes from. An accumulator (`let mut`, updated while the stored elements are
converted — `ValueSetOauth2Session.rs_filter`) is modelled as what it is in the code: a bit mask,
the OR of what each converted element contributes. -/

/-- An arm that yields an element also updates the accumulator. -/
def DecodeArm.ok (a : DecodeArm) : Bool := !a.yields || a.updates

/-- The field is rebuilt from the stored data on every path: directly, or by an accumulator that
is updated for every element (in the loop body itself, or in every yielding arm of the `match`
over the stored record versions). A constant is not. -/
def DecodeField.ok (f : DecodeField) : Bool :=
  f.kind == 0 || (f.kind == 1 && (decide (f.uniform > 0) || (!f.arms.isEmpty && f.arms.all DecodeArm.ok)))

/-- One struct literal assigns every field of the struct, each from a maintained source. -/
def literalOk (nFields : Nat) (l : List DecodeField) : Bool :=
  l.all DecodeField.ok && (List.range nFields).all fun i => l.any fun f => f.field == i

/-- The decoder goes through the struct's canonical constructor, or every one of its struct
literals rebuilds every field. -/
def DecodeCtor.ok (c : DecodeCtor) : Bool :=
  c.via.isSome || (!c.literals.isEmpty && c.literals.all (literalOk c.nFields))

/-- The accumulator loop of a decoder. A stored element is `(arm, bits)`: the index of the arm
of the `match` that converts it, and the bits it contributes to the mask (`rs_uuid.as_u128()`).
The loop starts from 0 (`u128::MIN`) and ORs the bits in where the code does. -/
def DecodeField.step (f : DecodeField) (acc : Nat) (e : Nat × Nat) : Nat :=
  match f.arms[e.1]? with
  | some a => if decide (f.uniform > 0) || a.updates then acc ||| e.2 else acc
  | none => if decide (f.uniform > 0) then acc ||| e.2 else acc

def DecodeField.accumulate (f : DecodeField) (els : List (Nat × Nat)) : Nat :=
  els.foldl f.step 0

/-- The decoder keeps the element (its arm yields). -/
def DecodeField.keeps (f : DecodeField) (e : Nat × Nat) : Bool :=
  match f.arms[e.1]? with
  | some a => a.yields
  | none => false

/-- The elements the decoder keeps. -/
def DecodeField.kept (f : DecodeField) (els : List (Nat × Nat)) : List (Nat × Nat) :=
  els.filter f.keeps

/-- `rs_filter & u == u`: the mask does not rule the member out. -/
def maskAdmits (mask bits : Nat) : Bool := bits &&& mask == bits

end Kanidm.StoreCodec
