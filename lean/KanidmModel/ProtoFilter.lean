import KanidmModel.Filter.Match
import KanidmModel.ProtoFilterTypes
import KanidmModel.Generated.ProtoFilterTables
/-
C41 model: LDAP and SCIM filters, their standard meaning, and what kanidm turns them into.

Transcribes from `/repo/server/lib/src/filter.rs`
  * `Filter::from_ldap_ro` / `FilterComp::from_ldap_ro` (l.772 / l.1116)  ↦ `ldapTr` / `ldapTrTop`
  * `Filter::from_scim_ro` / `FilterComp::from_scim_ro` (l.787 / l.1228)  ↦ `scimTr` / `scimTrTop`
  * `FilterComp::scim_ordering_supported` (l.1203)                        ↦ `orderingSupported`
  * `FilterComp::validate` (l.868)                                        ↦ `fcValidate`
  * `FilterComp::new_ignore_hidden` (l.830)                               ↦ `ignoreHidden`
and from `idm/ldap.rs` `ldap_attr_filter_map` (l.859) ↦ `ldapAttrMap`.
The per-variant arms, the SCIM rewrite templates, the alias table, the list of orderable syntaxes,
the list of syntaxes `resolve_scim_json_get` accepts and the depth constant are regenerated from the
source on every run (`Generated/ProtoFilterTables.lean`).

The *standard* meaning (`ldapSem`: RFC 4511 §4.5.1.7, `scimSem`: RFC 7644 §3.4.2.2) is written
independently of the translation: boolean connectives, NOT = complement, an attribute assertion is
true when ANY stored value satisfies it, an LDAP substring assertion needs ONE value that splits
into initial · any₁ · … · anyₙ · final in this order without overlap (`subMatchStr`).
Two-valued reading: where RFC 4511 says `Undefined` (a substring assertion on a syntax without
substring rule, an assertion value the server maps to "no such value") the reference says `false`.

Parameters (`Env`): attribute interning, the schema (syntax id, multivalue flag) and the two value
parsers `clone_partialvalue` / `resolve_scim_json_get` — the same parser gives the assertion value
its meaning in the standard semantics (it *is* the attribute's matching-rule normalisation).
`fold` is the case folding applied by substring matching (`to_lowercase` in valueset/utf8.rs,
address.rs; the identity on already folded Iutf8/Iname values).
Import-free apart from the shared filter model (core Lean only).
-/
namespace Kanidm.ProtoFilter
open Kanidm.Filter

/-- what the translations read from the query server -/
structure Env where
  /-- `Attribute::from(&str)` on the mapped lower-case name -/
  atom : List Nat → Nat
  /-- `clone_partialvalue(attr, value)` -/
  ldapVal : Nat → List Nat → Except TErr Val
  /-- `resolve_scim_json_get(attr, json)` -/
  scimVal : Nat → J → Except TErr Val
  /-- the atom of `Attribute::Spn` -/
  spnA : Nat
  /-- schema: attribute ↦ (syntax id, multivalue); `none` = no such attribute -/
  syn : Nat → Option (Nat × Bool)

/-! ### attribute names -/

def lookupAlias (n : List Nat) : List (List Nat × List Nat) → Option (List Nat)
  | [] => none
  | (k, v) :: rest => if k = n then some v else lookupAlias n rest

/-- `ldap_attr_filter_map` (idm/ldap.rs l.859): lower-case, then the alias table, else unchanged -/
def ldapAttrName (n : List Nat) : List Nat :=
  let low := n.map lowerByte
  match lookupAlias low vattrTable with
  | some t => t
  | none => low

def ldapAttrMap (env : Env) (n : List Nat) : Nat := env.atom (ldapAttrName n)

/-! ### the depth / element budget both translations share -/

/-- `let ndepth = depth.checked_sub(1).ok_or(ResourceLimit)?; *elems = (*elems).checked_sub(1).ok_or(ResourceLimit)?;` -/
def enter (depth elems : Nat) : Except TErr (Nat × Nat) :=
  match depth with
  | 0 => .error .resourceLimit
  | nd + 1 =>
    match elems with
    | 0 => .error .resourceLimit
    | ne + 1 => .ok (nd, ne)

/-! ### `from_ldap_ro` -/

/-- the `for term in any.iter()` loop of the `Substring` arm -/
def subAnyTerms (env : Env) (k : SubK) (a : Nat) : List (List Nat) → Except TErr (List FC)
  | [] => .ok []
  | t :: ts =>
    match env.ldapVal a t with
    | .error e => .error e
    | .ok v =>
      match subAnyTerms env k a ts with
      | .error e => .error e
      | .ok r => .ok (k.term a v :: r)

def subOptTerm (env : Env) (k : SubK) (a : Nat) : Option (List Nat) → Except TErr (List FC)
  | none => .ok []
  | some t =>
    match env.ldapVal a t with
    | .error e => .error e
    | .ok v => .ok [k.term a v]

/-- the `Substring` arm: initial, then every any, then final — the first value error wins -/
def subTerms (env : Env) (ki ka kf : SubK) (a : Nat) (ini : Option (List Nat)) (any : List (List Nat))
    (fin : Option (List Nat)) : Except TErr (List FC) :=
  match subOptTerm env ki a ini with
  | .error e => .error e
  | .ok t1 =>
    match subAnyTerms env ka a any with
    | .error e => .error e
    | .ok t2 =>
      match subOptTerm env kf a fin with
      | .error e => .error e
      | .ok t3 => .ok (t1 ++ t2 ++ t3)

/-- an (attribute, value) arm -/
def avTr (env : Env) (arm : AvArm) (a v : List Nat) : Except TErr FC :=
  match arm with
  | .reject => .error .filterGeneration
  | .eq spnInvalid =>
    let a' := ldapAttrMap env a
    match env.ldapVal a' v with
    | .ok pv => .ok (.eq a' pv)
    | .error e => if spnInvalid && a' == env.spnA then .ok (.invalid a') else .error e

mutual
/-- `FilterComp::from_ldap_ro` (l.1116): the translated filter and the element budget left -/
def ldapTr (env : Env) (depth elems : Nat) : LF → Except TErr (FC × Nat)
  | .and l =>
    match enter depth elems with
    | .error e => .error e
    | .ok (nd, ne) =>
      match ldapAndArm with
      | .reject => .error .filterGeneration
      | .group k =>
        match ldapTrList env nd ne l with
        | .error e => .error e
        | .ok (fs, ne') => .ok (k.wrap fs, ne')
  | .or l =>
    match enter depth elems with
    | .error e => .error e
    | .ok (nd, ne) =>
      match ldapOrArm with
      | .reject => .error .filterGeneration
      | .group k =>
        match ldapTrList env nd ne l with
        | .error e => .error e
        | .ok (fs, ne') => .ok (k.wrap fs, ne')
  | .not f =>
    match enter depth elems with
    | .error e => .error e
    | .ok (nd, ne) =>
      match ldapNotArm with
      | .reject => .error .filterGeneration
      | .neg =>
        match ldapTr env nd ne f with
        | .error e => .error e
        | .ok (g, ne') => .ok (.andnot g, ne')
  | .equality a v =>
    match enter depth elems with
    | .error e => .error e
    | .ok (_, ne) => match avTr env ldapEqualityArm a v with | .error e => .error e | .ok g => .ok (g, ne)
  | .substring a ini any fin =>
    match enter depth elems with
    | .error e => .error e
    | .ok (_, ne) =>
      match ldapSubstringArm with
      | .reject => .error .filterGeneration
      | .sub ki ka kf w =>
        match subTerms env ki ka kf (ldapAttrMap env a) ini any fin with
        | .error e => .error e
        | .ok ts => .ok (w.wrap ts, ne)
  | .greaterOrEqual a v =>
    match enter depth elems with
    | .error e => .error e
    | .ok (_, ne) => match avTr env ldapGeArm a v with | .error e => .error e | .ok g => .ok (g, ne)
  | .lessOrEqual a v =>
    match enter depth elems with
    | .error e => .error e
    | .ok (_, ne) => match avTr env ldapLeArm a v with | .error e => .error e | .ok g => .ok (g, ne)
  | .present a =>
    match enter depth elems with
    | .error e => .error e
    | .ok (_, ne) =>
      match ldapPresentArm with
      | .reject => .error .filterGeneration
      | .pres => .ok (.pres (ldapAttrMap env a), ne)
  | .approx a v =>
    match enter depth elems with
    | .error e => .error e
    | .ok (_, ne) => match avTr env ldapApproxArm a v with | .error e => .error e | .ok g => .ok (g, ne)
  | .extensible =>
    match enter depth elems with
    | .error e => .error e
    | .ok (_, _) => .error .filterGeneration
/-- `l.iter().map(|f| from_ldap_ro(f, qs, ndepth, elems)).collect::<Result<Vec<_>, _>>()`:
left to right, the budget threads through, the first error stops the iteration -/
def ldapTrList (env : Env) (depth elems : Nat) : List LF → Except TErr (List FC × Nat)
  | [] => .ok ([], elems)
  | f :: fs =>
    match ldapTr env depth elems f with
    | .error e => .error e
    | .ok (g, ne) =>
      match ldapTrList env depth ne fs with
      | .error e => .error e
      | .ok (gs, ne') => .ok (g :: gs, ne')
end

/-- `Filter::from_ldap_ro` (l.772): depth `DEFAULT_LIMIT_FILTER_DEPTH_MAX`, budget from the identity -/
def ldapTrTop (env : Env) (maxElems : Nat) (f : LF) : Except TErr FC :=
  match ldapTr env filterDepthMax maxElems f with
  | .error e => .error e
  | .ok (g, _) => .ok g

/-! ### `from_scim_ro` -/

/-- `scim_ordering_supported` (l.1203) -/
def orderingSupported (env : Env) (a : Nat) : Except TErr Unit :=
  match env.syn a with
  | none => .error .invalidAttributeName
  | some (s, multi) =>
    if scimOrderingCond (orderableSyn.contains s) multi then .ok () else .error .filterGeneration

/-- an attribute-operator arm (path without sub-attribute) -/
def scimCmp (env : Env) (arm : SArm) (a : Nat) (v : J) : Except TErr FC :=
  match arm with
  | .reject => .error .filterGeneration
  | .tr guard resolve t =>
    match (if guard then orderingSupported env a else .ok ()) with
    | .error e => .error e
    | .ok _ =>
      if resolve then
        match env.scimVal a v with
        | .error e => .error e
        | .ok pv => .ok (t.inst a pv)
      else .ok (t.inst a (.str []))

/-- `FilterComp::from_scim_ro` (l.1228) -/
def scimTr (env : Env) (depth elems : Nat) : SF → Except TErr (FC × Nat)
  | .cmp op a sub v =>
    match enter depth elems with
    | .error e => .error e
    | .ok (_, ne) =>
      if sub then .error .filterGeneration
      else match scimCmp env (scimArm op) a v with | .error e => .error e | .ok g => .ok (g, ne)
  | .not f =>
    match enter depth elems with
    | .error e => .error e
    | .ok (nd, ne) =>
      match scimTr env nd ne f with
      | .error e => .error e
      | .ok (g, ne') => .ok (.andnot g, ne')
  | .or l r =>
    match enter depth elems with
    | .error e => .error e
    | .ok (nd, ne) =>
      match scimTr env nd ne l with
      | .error e => .error e
      | .ok (gl, ne1) =>
        match scimTr env nd ne1 r with
        | .error e => .error e
        | .ok (gr, ne2) => .ok (.or [gl, gr], ne2)
  | .and l r =>
    match enter depth elems with
    | .error e => .error e
    | .ok (nd, ne) =>
      match scimTr env nd ne l with
      | .error e => .error e
      | .ok (gl, ne1) =>
        match scimTr env nd ne1 r with
        | .error e => .error e
        | .ok (gr, ne2) => .ok (.and [gl, gr], ne2)
  | .complex =>
    match enter depth elems with
    | .error e => .error e
    | .ok (_, _) => .error .filterGeneration

/-- `Filter::from_scim_ro` (l.787) -/
def scimTrTop (env : Env) (maxElems : Nat) (f : SF) : Except TErr FC :=
  match scimTr env filterDepthMax maxElems f with
  | .error e => .error e
  | .ok (g, _) => .ok g

/-! ### `validate`, `new_ignore_hidden` -/

mutual
/-- `FilterComp::validate` (l.868) as accept/reject: every queried attribute exists in the schema,
no empty `And`/`Or`/`Inclusion`. (That a value has the variant of its attribute's syntax is true
by construction of the two translations — they obtain it from the syntax-directed parsers.) -/
def fcValidate (env : Env) : FC → Bool
  | .eq a _ | .cnt a _ | .stw a _ | .enw a _ | .lessThan a _ | .pres a => (env.syn a).isSome
  | .or l => !l.isEmpty && fcValidateAll env l
  | .and l => !l.isEmpty && fcValidateAll env l
  | .inclusion l => !l.isEmpty && fcValidateAll env l
  | .andnot f => fcValidate env f
  | .selfUuid => true
  | .invalid _ => true
def fcValidateAll (env : Env) : List FC → Bool
  | [] => true
  | f :: fs => fcValidate env f && fcValidateAll env fs
end

/-- `FilterComp::new_ignore_hidden` (l.830): `classA` = atom of `class`, `tomb`/`recy` the two
class values -/
def ignoreHidden (classA : Nat) (tomb recy : Val) (fc : FC) : FC :=
  .and [.andnot (.or [.eq classA tomb, .eq classA recy]), fc]

/-! ### per-value comparisons with case folding -/

/-- substring comparisons on folded text (valueset/utf8.rs l.89–135, address.rs l.409–455:
`s1.to_lowercase().contains(&s2.to_lowercase())`; iutf8.rs / iname.rs compare stored lower-case
text); `lt` as in `ValSem.std` -/
def foldSem (fold : Nat → Nat) : ValSem where
  sub := fun x v => match x, v with | .str x, .str v => isInfix (v.map fold) (x.map fold) | _, _ => false
  stw := fun x v => match x, v with | .str x, .str v => (v.map fold).isPrefixOf (x.map fold) | _, _ => false
  enw := fun x v => match x, v with | .str x, .str v => (v.map fold).isSuffixOf (x.map fold) | _, _ => false
  lt := fun x v => match x, v with | .num x, .num v => decide (x < v) | _, _ => false

/-! ### the standard meaning of an LDAP filter (RFC 4511 §4.5.1.7) -/

/-- what is left of `x` after the leftmost occurrence of `p` (`none` = `p` does not occur) -/
def afterFirst (p : List Nat) : List Nat → Option (List Nat)
  | [] => if p.isEmpty then some [] else none
  | y :: ys => if p.isPrefixOf (y :: ys) then some ((y :: ys).drop p.length) else afterFirst p ys

/-- the `any` components in order, each after the previous one -/
def matchAny : List (List Nat) → List Nat → Option (List Nat)
  | [], x => some x
  | p :: ps, x =>
    match afterFirst p x with
    | none => none
    | some r => matchAny ps r

/-- RFC 4511 §4.5.1.7.2 / X.520 substrings match of one (folded) value: the value is
`initial · … any₁ … any₂ … · final`, components in order, not overlapping -/
def subMatchStr (ini : Option (List Nat)) (any : List (List Nat)) (fin : Option (List Nat)) (x : List Nat) : Bool :=
  let r0 := match ini with
    | none => some x
    | some i => if i.isPrefixOf x then some (x.drop i.length) else none
  match r0 with
  | none => false
  | some r =>
    match matchAny any r with
    | none => false
    | some r' =>
      match fin with
      | none => true
      | some f => f.isSuffixOf r'

/-- the `any` components and the final one, declaratively: `r = g₀ · a₁ · g₁ · … · aₙ · gₙ · f` -/
def anySpec : List (List Nat) → Option (List Nat) → List Nat → Prop
  | [], none, _ => True
  | [], some f, r => ∃ g, r = g ++ f
  | a :: as, fin, r => ∃ g r', r = g ++ a ++ r' ∧ anySpec as fin r'

/-- RFC 4511 §4.5.1.7.2 as a specification: the value is the initial component, then the `any`
components in order separated by arbitrary gaps, then the final component (`subMatchStr` is its
leftmost-greedy decision procedure: `subMatchStr_iff_spec`) -/
def subSpec (ini : Option (List Nat)) (any : List (List Nat)) (fin : Option (List Nat)) (x : List Nat) : Prop :=
  match ini with
  | none => anySpec any fin x
  | some i => ∃ r, x = i ++ r ∧ anySpec any fin r

def strOf : Val → Option (List Nat)
  | .str s => some s
  | .num _ => none

/-- a substring component as text of the attribute's syntax: parse error or a syntax without
substring matching rule = no meaning -/
def compText (env : Env) (a : Nat) (raw : List Nat) : Option (List Nat) :=
  match env.ldapVal a raw with
  | .ok v => strOf v
  | .error _ => none

def compTextOpt (env : Env) (a : Nat) : Option (List Nat) → Option (Option (List Nat))
  | none => some none
  | some r => (compText env a r).map some

def compTextList (env : Env) (a : Nat) : List (List Nat) → Option (List (List Nat))
  | [] => some []
  | r :: rs =>
    match compText env a r, compTextList env a rs with
    | some t, some ts => some (t :: ts)
    | _, _ => none

/-- the substring assertion on one entry: some value of the attribute matches -/
def ldapSubSem (fold : Nat → Nat) (env : Env) (e : Entry) (a : Nat) (ini : Option (List Nat))
    (any : List (List Nat)) (fin : Option (List Nat)) : Bool :=
  match compTextOpt env a ini, compTextList env a any, compTextOpt env a fin with
  | some i, some as, some f =>
    (e a).any fun x =>
      match x with
      | .str s => subMatchStr (i.map (·.map fold)) (as.map (·.map fold)) (f.map (·.map fold)) (s.map fold)
      | .num _ => false
  | _, _, _ => false

mutual
/-- RFC 4511 §4.5.1.7 on one entry -/
def ldapSem (fold : Nat → Nat) (env : Env) (e : Entry) : LF → Bool
  | .and l => ldapSemAll fold env e l
  | .or l => ldapSemAny fold env e l
  | .not f => !ldapSem fold env e f
  | .equality a v =>
    match env.ldapVal (ldapAttrMap env a) v with
    | .ok pv => (e (ldapAttrMap env a)).contains pv
    | .error _ => false
  | .substring a ini any fin => ldapSubSem fold env e (ldapAttrMap env a) ini any fin
  | .greaterOrEqual a v =>
    match env.ldapVal (ldapAttrMap env a) v with
    | .ok pv => (e (ldapAttrMap env a)).any (fun x => Val.cmp x pv != .lt)
    | .error _ => false
  | .lessOrEqual a v =>
    match env.ldapVal (ldapAttrMap env a) v with
    | .ok pv => (e (ldapAttrMap env a)).any (fun x => Val.cmp x pv != .gt)
    | .error _ => false
  | .present a => !(e (ldapAttrMap env a)).isEmpty
  | .approx a v =>
    match env.ldapVal (ldapAttrMap env a) v with
    | .ok pv => (e (ldapAttrMap env a)).contains pv
    | .error _ => false
  | .extensible => false
def ldapSemAll (fold : Nat → Nat) (env : Env) (e : Entry) : List LF → Bool
  | [] => true
  | f :: fs => ldapSem fold env e f && ldapSemAll fold env e fs
def ldapSemAny (fold : Nat → Nat) (env : Env) (e : Entry) : List LF → Bool
  | [] => false
  | f :: fs => ldapSem fold env e f || ldapSemAny fold env e fs
end

/-! ### the standard meaning of a SCIM filter (RFC 7644 §3.4.2.2) -/

/-- one attribute operator against one stored value; strings order lexicographically, numbers
numerically (`Val.cmp`) -/
def scimOpVal (fold : Nat → Nat) (op : SOp) (x v : Val) : Bool :=
  match op with
  | .pr => true
  | .eq => x == v
  | .ne => x != v
  | .co => (foldSem fold).sub x v
  | .sw => (foldSem fold).stw x v
  | .ew => (foldSem fold).enw x v
  | .gt => Val.cmp x v == .gt
  | .lt => Val.cmp x v == .lt
  | .ge => Val.cmp x v != .lt
  | .le => Val.cmp x v != .gt

/-- RFC 7644 §3.4.2.2 on one entry: a comparison holds when any value of the attribute satisfies
it; `pr` = the attribute has a value; sub-attributes and value paths are outside the model -/
def scimSem (fold : Nat → Nat) (env : Env) (e : Entry) : SF → Bool
  | .cmp op a sub v =>
    if sub then false
    else match op with
      | .pr => !(e a).isEmpty
      | op =>
        match env.scimVal a v with
        | .ok pv => (e a).any (fun x => scimOpVal fold op x pv)
        | .error _ => false
  | .not f => !scimSem fold env e f
  | .or l r => scimSem fold env e l || scimSem fold env e r
  | .and l r => scimSem fold env e l && scimSem fold env e r
  | .complex => false

/-! ### the fragments the partial theorems cover -/

def optCount {α : Type} : Option α → Nat
  | none => 0
  | some _ => 1

mutual
/-- every substring assertion has exactly one component (`a*`, `*a*` or `*a`): the shape for which
independent terms and one ordered match coincide (finding C41-F1 otherwise) -/
def LF.subSingle : LF → Bool
  | .and l => LF.subSingleAll l
  | .or l => LF.subSingleAll l
  | .not f => f.subSingle
  | .substring _ ini any fin => optCount ini + any.length + optCount fin == 1
  | _ => true
def LF.subSingleAll : List LF → Bool
  | [] => true
  | f :: fs => f.subSingle && LF.subSingleAll fs
end

mutual
/-- the filter mentions an operation kanidm does not implement -/
def LF.hasUnsupported : LF → Bool
  | .and l => LF.hasUnsupportedAny l
  | .or l => LF.hasUnsupportedAny l
  | .not f => f.hasUnsupported
  | .greaterOrEqual _ _ | .lessOrEqual _ _ | .approx _ _ | .extensible => true
  | _ => false
def LF.hasUnsupportedAny : List LF → Bool
  | [] => false
  | f :: fs => f.hasUnsupported || LF.hasUnsupportedAny fs
end

def SOp.isOrdering : SOp → Bool
  | .gt | .lt | .ge | .le => true
  | _ => false

/-- `ne`, a sub-attribute path or a value path occurs -/
def SF.hasUnsupported : SF → Bool
  | .cmp op _ sub _ => sub || op == .ne
  | .not f => f.hasUnsupported
  | .or l r => l.hasUnsupported || r.hasUnsupported
  | .and l r => l.hasUnsupported || r.hasUnsupported
  | .complex => true

/-- an ordering operator occurs -/
def SF.hasOrdering : SF → Bool
  | .cmp op _ _ _ => op.isOrdering
  | .not f => f.hasOrdering
  | .or l r => l.hasOrdering || r.hasOrdering
  | .and l r => l.hasOrdering || r.hasOrdering
  | .complex => false

/-- the attributes ordering operators are applied to -/
def SF.orderingAttrs : SF → List Nat
  | .cmp op a _ _ => if op.isOrdering then [a] else []
  | .not f => f.orderingAttrs
  | .or l r => l.orderingAttrs ++ r.orderingAttrs
  | .and l r => l.orderingAttrs ++ r.orderingAttrs
  | .complex => []

end Kanidm.ProtoFilter
