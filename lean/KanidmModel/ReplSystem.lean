import KanidmModel.ReplMerge
/-!
# C08 — a small system of replicas around the entry merge

Replicas hold `uuid ↦ St` and an update vector `origin ↦ greatest timestamp held`.  Local writes
stamp the touched attributes with the transaction cid `(now, server)`; `repl src dst` is one
incremental replication as `supplier_provide_changes` / `consumer_apply_changes` perform it when the
range comparison answers `Ok` (C10): per origin the window `(dst.max, src.max]`, the entries of the
supplier with a current change cid inside a window (`retrieve_range`), each cut down to the attribute
states inside the windows (`ReplMerge.delta`), applied on the consumer with `ReplMerge.applyEntry`
against the database entry or, for an unknown uuid, the stub `incremental_prepare` creates (same `at`,
no changes); where `resolve_add_conflict` says so the conflict copy is written under a fresh uuid.
Plugins (attrunique, refint, memberof, dyngroup), schema validation and trimming are not modelled:
this layer carries the *protocol* — what is sent and what is merged.  One global clock (the harness
advances its clock by one second per step).
-/
namespace Kanidm.ReplSystem
open Kanidm.Cid (Cid cidLt)
open Kanidm.ReplMerge
open Kanidm.Gen.ReplMergeOps

structure Replica where
  sid : Nat
  ents : List (Nat × St)
  ruv : List (Nat × Nat)
  fresh : Nat
deriving DecidableEq, Repr

inductive Op where
  /-- create `u` on replica `r` with the given attribute values (attribute 8 = uuid is added) -/
  | create (r u : Nat) (attrs : List (Nat × Nat))
  /-- set (`some v`) or purge (`none`) one attribute of `u` on replica `r` -/
  | set (r u a : Nat) (v : Option Nat)
  /-- `u` becomes a tombstone on replica `r` -/
  | tomb (r u : Nat)
  /-- incremental replication, `src` supplies `dst` -/
  | repl (src dst : Nat)
deriving DecidableEq, Repr

def attrClass : Nat := 0
def attrUuid : Nat := 8
def attrSourceUuid : Nat := 9
def copyAttrs : CopyAttrs := ⟨attrSourceUuid, attrUuid, attrClass⟩
/-- the class value of a conflict copy (… + recycled + conflict) as one atom -/
def classConflict : Nat := 999

def vm0 : Nat → Nat → Option Nat := fun _ _ => none
def replAll : Nat → Bool := fun _ => true

def eraseKey {β : Type} (k : Nat) : List (Nat × β) → List (Nat × β)
  | [] => []
  | (k', v) :: tl => if k = k' then eraseKey k tl else (k', v) :: eraseKey k tl

def bumpRuv (ruv : List (Nat × Nat)) (o ts : Nat) : List (Nat × Nat) :=
  match lookup ruv o with
  | some old => setKey o (max old ts) ruv
  | none => setKey o ts ruv

def updateAt (i : Nat) (f : Replica → Replica) : List Replica → List Replica
  | [] => []
  | r :: rs => match i with
    | 0 => f r :: rs
    | i + 1 => r :: updateAt i f rs

/-- is the cid inside one of the requested windows -/
def cidInRange (rg : Ranges) (c : Cid) : Bool :=
  match lookup rg c.sUuid with
  | some (lo, hi) => withinRange c.ts lo hi
  | none => false

/-- `retrieve_range`: the entry has a current change cid inside a window -/
def touched (rg : Ranges) : St → Bool
  | .live e => e.changes.any (fun c => cidInRange rg c.2)
  | .tomb a => cidInRange rg a

/-- the windows `range_diff` answers with when nobody lags: per supplier origin `(consumer max, supplier max]` -/
def windows (src dst : Replica) : Ranges :=
  src.ruv.filterMap (fun (o, smax) =>
    let dmax := (lookup dst.ruv o).getD 0
    if dmax < smax then some (o, (dmax, smax)) else none)

/-- `incremental_prepare`: the database entry or a stub with the incoming `at` and no changes -/
def dbOrStub (dst : Replica) (u : Nat) (inc : St) : St :=
  match lookup dst.ents u with
  | some s => s
  | none => match inc with
    | .live e => .live ⟨e.crAt, [], []⟩
    | .tomb a => .tomb a

/-- apply one incoming entry on the consumer under transaction cid `txn` -/
def applyOne (txn : Cid) (dst : Replica) (u : Nat) (inc : St) : Replica :=
  let db := dbOrStub dst u inc
  let res := applyEntry vm0 replAll txn inc db
  let dst1 := { dst with ents := setKey u res dst.ents }
  match inc, db with
  | .live L, .live R =>
    if isAddConflict inc db && (resolveAdd txn L R).1 then
      let nu := 1000 * dst.sid + dst.fresh
      { dst1 with
        ents := dst1.ents ++ [(nu, .live (conflictCopy copyAttrs (classConflict, nu, u) txn R))]
        fresh := dst.fresh + 1
        ruv := bumpRuv dst1.ruv dst.sid txn.ts }
    else dst1
  | _, _ => dst1

def replStep (now : Nat) (src dst : Replica) : Replica :=
  let rg := windows src dst
  let txn : Cid := ⟨now, dst.sid⟩
  let sentEnts := src.ents.filter (fun e => touched rg e.2)
  let dst1 := sentEnts.foldl (fun d e => applyOne txn d e.1 (delta replAll rg e.2)) dst
  { dst1 with ruv := src.ruv.foldl (fun rv o => bumpRuv rv o.1 o.2) dst1.ruv }

def localWrite (now : Nat) (r : Replica) (f : Cid → List (Nat × St) → List (Nat × St)) : Replica :=
  { r with ents := f ⟨now, r.sid⟩ r.ents, ruv := bumpRuv r.ruv r.sid now }

def step (now : Nat) (reps : List Replica) : Op → List Replica
  | .create r u attrs =>
    updateAt r (fun rep =>
      match lookup rep.ents u with
      | some _ => rep
      | none => localWrite now rep (fun cid es =>
          let as := setKey attrUuid u attrs
          es ++ [(u, .live ⟨cid, as.map (fun a => (a.1, cid)), as⟩)])) reps
  | .set r u a v =>
    updateAt r (fun rep =>
      match lookup rep.ents u with
      | some (.live e) => localWrite now rep (fun cid es =>
          setKey u (.live ⟨e.crAt, setKey a cid e.changes,
            match v with
            | some x => setKey a x e.attrs
            | none => eraseKey a e.attrs⟩) es)
      | _ => rep) reps
  | .tomb r u =>
    updateAt r (fun rep =>
      match lookup rep.ents u with
      | some (.live _) => localWrite now rep (fun cid es => setKey u (.tomb cid) es)
      | _ => rep) reps
  | .repl s d =>
    match reps[s]?, reps[d]? with
    | some src, some dst => if s = d then reps else updateAt d (fun _ => replStep now src dst) reps
    | _, _ => reps

def runFrom : Nat → List Op → List Replica → List Replica
  | _, [], reps => reps
  | now, op :: rest, reps => runFrom (now + 1) rest (step (now + 1) reps op)

def run (ops : List Op) (reps : List Replica) : List Replica := runFrom 0 ops reps

def boot2 : List Replica := [⟨1, [], [], 0⟩, ⟨2, [], [], 0⟩]
def boot3 : List Replica := [⟨1, [], [], 0⟩, ⟨2, [], [], 0⟩, ⟨3, [], [], 0⟩]

def fullMesh : List Op := [.repl 0 1, .repl 1 0]
def fullMesh3 : List Op := [.repl 0 1, .repl 0 2, .repl 1 0, .repl 1 2, .repl 2 0, .repl 2 1]

/-- canonical form of a state: kind, `at`, per key (ascending) the change cid and the value -/
def canon : St → Cid × Bool × List (Nat × Option Cid × Option Nat)
  | .tomb a => (a, false, [])
  | .live e =>
    (e.crAt, true,
      (sortDedup (e.changes.map (·.1) ++ e.attrs.map (·.1))).map
        (fun a => (a, lookup e.changes a, lookup e.attrs a)))

def allUuids (reps : List Replica) : List Nat :=
  sortDedup (reps.flatMap (fun r => r.ents.map (·.1)))

/-- every uuid known anywhere is held by every replica in the same canonical state -/
def sameOnAll (reps : List Replica) : Bool :=
  match reps with
  | [] => true
  | r0 :: rest =>
    (allUuids reps).all (fun u =>
      rest.all (fun r => (lookup r.ents u).map canon == (lookup r0.ents u).map canon))

/-- D17b: uuid 1 created on both replicas; replica 0 (server 1) learns of the later creation first;
then replica 1 (server 2, origin of the losing creation) receives the earlier one and writes the copy. -/
def d17bWitness : List Op :=
  [.create 0 1 [(0, 100), (1, 101)], .create 1 1 [(0, 100), (1, 102)], .repl 1 0, .repl 0 1]

end Kanidm.ReplSystem
