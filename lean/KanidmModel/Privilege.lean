/-
C33 — write privilege is bounded in time and by login type.

Hand model of (line numbers of the pinned tree)
* `AuthSession::issue_uat`                     server/lib/src/idm/authsession/mod.rs:1622
* `Account::to_userauthtoken`                  server/lib/src/idm/account.rs:364
* `Account::to_reissue_userauthtoken`          server/lib/src/idm/account.rs:432
* JWS/serde round trip of `UserAuthToken`      proto/src/internal/token.rs (`time::serde::timestamp`)
* `process_authsessionrecord`                  server/lib/src/idm/server.rs:2274
* `validate_and_parse_token_to_identity_token` server/lib/src/idm/server.rs:527 (UAT branch)
* `Account::check_user_auth_token_valid`       server/lib/src/idm/account.rs:761
* `process_uat_to_identity`                    server/lib/src/idm/server.rs:735
* `reauth_init`                                server/lib/src/idm/reauth.rs:21
* `AuthSession::new_reauth`                    server/lib/src/idm/authsession/mod.rs:1274
The tables, sums and comparisons inside them are *not* written here: they are the generated
definitions of `Generated/AuthTypes.lean` (`initialScope`, `reauthScope`, `sessionRecorded`,
`issueCt`, `issueExpiry`, `issueLimitedExpiry`, `issueOf`, `reissuePrivExpiry`, `reissueOf`,
`uatAccessScope`, `uatExpired`, `pastGrace`, `reauthAllowed`, `reauthSessionExpiry`,
`reauthRequestRw`, …), re-read from the source on every run.  This file only transcribes the
control flow around them.  All instants are nanoseconds since the epoch (`Nat`).

Not modelled (inputs or out of scope): which `AuthType` a credential exchange ends with (C27 —
the op carries it, every theorem quantifies over it), the account validity window (C27/C49),
soft locks (C28), JWS signature validity (trusted), search limits.
-/
import KanidmModel.Generated.AuthTypes
namespace Kanidm.Privilege
open Kanidm.Gen.AuthTypes

/-- The two `ResolvedAccountPolicy` fields the token functions read (seconds). -/
structure Policy where
  sessSecs : Nat
  privSecs : Nat
deriving DecidableEq, Repr, Inhabited

/-- `UserAuthToken`, the fields the property turns on. `anon` = `uat.uuid == UUID_ANONYMOUS`. -/
structure Uat where
  sessionId : Nat
  issuedAt : Nat
  expiry : Option Nat
  purpose : Purpose
  anon : Bool
deriving DecidableEq, Repr, Inhabited

/-- `value::Session`, the fields read by `reauth_init` / `check_user_auth_token_valid`. -/
structure Session where
  state : SessionState
  scope : SessionScope
  type_ : AuthType
  issuedAt : Nat
deriving DecidableEq, Repr, Inhabited

/-- `Account::to_userauthtoken`. -/
def toUat (sid : Nat) (anon : Bool) (scope : SessionScope) (ct : Nat) (pol : Policy) : Option Uat :=
  let ct' := issueCt ct pol.sessSecs pol.privSecs
  let issuedAt := issueIssuedAt ct' pol.sessSecs pol.privSecs
  let expiry := issueExpiry ct' pol.sessSecs pol.privSecs
  let limited := issueLimitedExpiry ct' pol.sessSecs pol.privSecs
  match issueOf scope expiry limited with
  | none => none
  | some (purpose, exp) =>
    some { sessionId := sid, issuedAt := issuedAt, expiry := some exp, purpose := purpose, anon := anon }

/-- `Account::to_reissue_userauthtoken`. -/
def toReissueUat (sid : Nat) (anon : Bool) (sessionExpiry : Option Nat) (scope : SessionScope)
    (readWrite : Bool) (ct : Nat) (pol : Policy) : Option Uat :=
  let issuedAt := reissueIssuedAt ct pol.sessSecs pol.privSecs
  match reissueOf scope readWrite (reissuePrivExpiry ct pol.sessSecs pol.privSecs) sessionExpiry with
  | none => none
  | some (purpose, exp) =>
    some { sessionId := sid, issuedAt := issuedAt, expiry := exp, purpose := purpose, anon := anon }

/-- Whole seconds, as `time::serde::timestamp` writes an `OffsetDateTime`. -/
def floorSec (t : Nat) : Nat := t / nsPerSec * nsPerSec

/-- What the client holds: the token after the JWS/JSON round trip (second granularity). -/
def wire (u : Uat) : Uat :=
  { u with
    issuedAt := floorSec u.issuedAt
    expiry := u.expiry.map floorSec
    purpose := match u.purpose with
      | .readOnly => .readOnly
      | .readWrite e => .readWrite (e.map floorSec) }

/-- `enum AuthIntent`. -/
inductive Intent where
  | initialAuth (privileged : Bool)
  | reauth (readWrite : Bool) (sessionId : Nat) (sessionExpiry : Option Nat)
deriving DecidableEq, Repr, Inhabited

inductive Err where
  /-- `AU0004UserAuthTokenInvalid` -/
  | au0004
  /-- `AU0006CredentialMayNotReauthenticate` -/
  | au0006
  /-- `AU0007UserAuthTokenInvalid` -/
  | au0007
  /-- `SessionExpired` -/
  | sessionExpired
  /-- `InvalidState` (re-auth: the session is not in the entry) -/
  | invalidState
  /-- `SessionMayNotReauth` -/
  | sessionMayNotReauth
  /-- re-auth refused by `new_reauth` (`AuthState::Denied`) -/
  | denied
  /-- the harness named a token it never received -/
  | noSuchToken
deriving DecidableEq, Repr, Inhabited

/-- `process_authsessionrecord`: the stored session of an `AuthSessionRecord`. -/
def recordOf (u : Uat) (scope : SessionScope) (t : AuthType) : Session :=
  { state := match u.expiry with
      | some e => .expiresAt e
      | none => .neverExpires
    scope := scope, type_ := t, issuedAt := u.issuedAt }

/-- `AuthSession::issue_uat`: the token and, for an initial login of a recorded auth type, the
session record queued for the account. `newSid` = the fresh `Uuid::new_v4()`. -/
def issueUat (intent : Intent) (t : AuthType) (time : Nat) (pol : Policy) (newSid : Nat)
    (anon : Bool) : Except Err (Uat × Option (Nat × Session)) :=
  match intent with
  | .initialAuth privileged =>
    let scope := initialScope t privileged
    match toUat newSid anon scope time pol with
    | none => .error .au0004
    | some uat =>
      if sessionRecorded t then .ok (uat, some (newSid, recordOf uat scope t))
      else .ok (uat, none)
  | .reauth readWrite sid sessionExpiry =>
    match reauthScope t with
    | none => .error .au0006
    | some scope =>
      match toReissueUat sid anon sessionExpiry scope readWrite time pol with
      | none => .error .au0007
      | some uat => .ok (uat, none)

def lookup (sid : Nat) : List (Nat × Session) → Option Session
  | [] => none
  | (k, s) :: rest => if k = sid then some s else lookup sid rest

/-- `Account::check_user_auth_token_valid` (account validity window taken as open). -/
def tokenValid (sessions : List (Nat × Session)) (u : Uat) (ct : Nat) : Bool :=
  if u.anon then true
  else
    match lookup u.sessionId sessions with
    | some s =>
      match s.state, u.expiry with
      | .expiresAt se, some ue => decide (se = ue)
      | .neverExpires, none => true
      | .revokedAt, _ => false
      | _, _ => false
    | none => !(pastGrace ct (u.issuedAt + graceWindowSecs * nsPerSec))

/-- `validate_and_parse_token_to_identity_token`, UAT branch: `if let Some(exp) = uat.expiry`. -/
def expiredAt (u : Uat) (ct : Nat) : Bool :=
  match u.expiry with
  | some e => uatExpired e ct
  | none => false

/-- `process_uat_to_identity`: session validity, then the scope mapping. -/
def processUat (sessions : List (Nat × Session)) (u : Uat) (ct : Nat) : Except Err AccessScope :=
  if !(tokenValid sessions u ct) then .error .sessionExpired
  else .ok (uatAccessScope u.purpose ct)

/-- Bearer UAT → identity scope: `validate_and_parse_token_to_identity_token` (expiry), then
`process_uat_to_identity`. -/
def useUat (sessions : List (Nat × Session)) (u : Uat) (ct : Nat) : Except Err AccessScope :=
  if expiredAt u ct then .error .sessionExpired
  else processUat sessions u ct

/-- Ghost record of a successful authentication / re-authentication (read by no function). -/
structure Event where
  time : Nat
  sessionId : Nat
  reauth : Bool
  authType : AuthType
  /-- `privileged` of the initial login, resp. `read_write` of the re-auth request -/
  flag : Bool
  pol : Policy
  /-- token expiry the event produced (wire form) -/
  expiry : Option Nat
deriving DecidableEq, Repr, Inhabited

structure World where
  now : Nat
  /-- `UserAuthTokenSession` values, keyed by session id -/
  sessions : List (Nat × Session)
  /-- every token handed to the client so far (wire form), in order of issue -/
  tokens : List Uat
  nextSid : Nat
  log : List Event
deriving Repr, Inhabited

def World.init (now : Nat) : World :=
  { now := now, sessions := [], tokens := [], nextSid := 0, log := [] }

inductive Reply where
  | ok
  | token (u : Uat)
  | scope (s : AccessScope)
  | err (e : Err)
deriving DecidableEq, Repr, Inhabited

inductive Op where
  /-- a credential exchange that ended in `CredState::Success(t)` for a login started with
  `privileged`, on an account whose uuid is (not) `UUID_ANONYMOUS`; `persist` = the queued
  `AuthSessionRecord` reaches the database (it is written asynchronously and may be lost) -/
  | auth (t : AuthType) (privileged : Bool) (anon : Bool) (persist : Bool) (pol : Policy)
  /-- `reauth_init` with the identity of token `tok`, then a credential exchange ending in
  `CredState::Success(t)` -/
  | reauth (tok : Nat) (req : ReauthRequest) (t : AuthType) (pol : Policy)
  | advance (dt : Nat)
  | use (tok : Nat)
  /-- the session is revoked (logout / credential removal / admin) -/
  | revoke (sid : Nat)
deriving DecidableEq, Repr, Inhabited

def revokeIn (sid : Nat) : List (Nat × Session) → List (Nat × Session)
  | [] => []
  | (k, s) :: rest =>
    if k = sid then (k, { s with state := .revokedAt }) :: revokeIn sid rest
    else (k, s) :: revokeIn sid rest

/-- The delayed `process_authsessionrecord` write, if it happens. -/
def authSessions (sessions : List (Nat × Session)) (persist : Bool) :
    Option (Nat × Session) → List (Nat × Session)
  | some r => if persist then sessions ++ [r] else sessions
  | none => sessions

def stepAuth (w : World) (t : AuthType) (privileged anon persist : Bool) (pol : Policy) :
    World × Reply :=
  match issueUat (.initialAuth privileged) t w.now pol w.nextSid anon with
  | .error e => (w, .err e)
  | .ok (uat, rec) =>
    let u := wire uat
    ({ w with
        tokens := w.tokens ++ [u]
        sessions := authSessions w.sessions persist rec
        nextSid := w.nextSid + 1
        log := w.log ++ [{ time := w.now, sessionId := w.nextSid, reauth := false, authType := t,
                           flag := privileged, pol := pol, expiry := u.expiry }] },
     .token u)

def stepReauth (w : World) (tok : Nat) (req : ReauthRequest) (t : AuthType) (pol : Policy) :
    World × Reply :=
  match w.tokens[tok]? with
  | none => (w, .err .noSuchToken)
  | some u =>
    -- the caller turns the bearer token into `ident` first
    match useUat w.sessions u w.now with
    | .error e => (w, .err e)
    | .ok _ =>
      -- reauth_init: the session must be present in the entry …
      match lookup u.sessionId w.sessions with
      | none => (w, .err .invalidState)
      | some s =>
        -- … and PrivilegeCapable
        if !(reauthAllowed s.scope) then (w, .err .sessionMayNotReauth)
        else
          -- new_reauth: session expiry from the stored state
          match reauthSessionExpiry s.state with
          | none => (w, .err .denied)
          | some sessionExpiry =>
            match issueUat (.reauth (reauthRequestRw req) u.sessionId sessionExpiry) t w.now pol
                    w.nextSid u.anon with
            | .error e => (w, .err e)
            | .ok (uat, _) =>
              let u' := wire uat
              ({ w with
                  tokens := w.tokens ++ [u']
                  log := w.log ++ [{ time := w.now, sessionId := u.sessionId, reauth := true,
                                     authType := t, flag := reauthRequestRw req, pol := pol,
                                     expiry := u'.expiry }] },
               .token u')

def step (w : World) : Op → World × Reply
  | .auth t p a ps pol => stepAuth w t p a ps pol
  | .reauth tok req t pol => stepReauth w tok req t pol
  | .advance dt => ({ w with now := w.now + dt }, .ok)
  | .use tok =>
    match w.tokens[tok]? with
    | none => (w, .err .noSuchToken)
    | some u =>
      match useUat w.sessions u w.now with
      | .error e => (w, .err e)
      | .ok s => (w, .scope s)
  | .revoke sid => ({ w with sessions := revokeIn sid w.sessions }, .ok)

def run (w : World) : List Op → World
  | [] => w
  | op :: rest => run (step w op).1 rest

/-- The privilege window an event opens (ns): `min(authsession_expiry, LIMITED)` for a login,
`privilege_expiry` for a re-authentication. -/
def Event.window (e : Event) : Nat :=
  if e.reauth then e.pol.privSecs * nsPerSec
  else min e.pol.sessSecs limitedExpirySecs * nsPerSec

/-- The event is one that grants write privilege: a login whose scope is `ReadWrite`, or a
re-authentication with a privilege-capable credential that asked for read-write. -/
def Event.grants (e : Event) : Bool :=
  if e.reauth then e.flag && decide (reauthScope e.authType = some .privilegeCapable)
  else decide (initialScope e.authType e.flag = .readWrite)

/-! API tokens, certificates, LDAP binds: no history, one function each. -/

/-- `service_account_generate_api_token` (flag ↦ stored scope), token purpose
(`TryInto<ApiTokenPurpose>`), `process_apit_to_identity` (`From<&ApiTokenPurpose>`). -/
def apiTokenAccess (readWrite : Bool) : AccessScope :=
  apiAccessScope (apiPurposeOfScope (apiScopeOfFlag readWrite))

/-- `client_certificate_to_user_auth_token` + `process_uat_to_identity` on that token. -/
def certUatAccess (ct : Nat) : AccessScope := uatAccessScope (certUatPurpose certSessionIsRw) ct

end Kanidm.Privilege
