import KanidmModel.Generated.HostAuthzOps
import KanidmModel.Generated.PwFormatTables
import KanidmModel.Generated.OfflineCacheOps
/-
C44 — model of the offline password cache of the unix resolver
(unix_integration/resolver_common, libs/crypto):

* `UserToken::kanidm_update_cached_password` / `kanidm_has_offline_credentials` /
  `kanidm_check_cached_password` (idprovider/kanidm.rs:187-266)       — `updateCached`, `checkCached`
* `Password::new_argon2id_hsm`, `Password::verify_ctx(.., Some(hsm))`, `TryFrom<DbPasswordV1>`
  (libs/crypto/src/lib.rs)                                            — `verifyCtx` (+ generated tables)
* `KanidmProvider::unix_user_online_auth_step`, `unix_user_offline_auth_init/_step`,
  `unix_user_get`, `check_online`, `check_online_right_meow`, `attempt_online` (kanidm.rs)
* `Resolver::pam_account_authenticate_init/_step`, `get_usertoken`, `get_cached_usertoken`,
  `refresh_usertoken`, `set_cache_usertoken`, `invalidate`, `clear_cache`, `mark_offline`,
  `mark_next_check_now` (resolver.rs)

Abstractions.  Passwords, machine (HMAC) keys and account ids are `Nat` atoms: the code only
ever tests them for equality, through a KDF.  A stored credential is `Blob.kdf tag pw key`: "the
`DbPasswordV1` variant `tag` computed from password `pw`, and — for the variant whose verify arm
uses the hsm — HMAC-ed with key `key`".  **`H_kdf`** (the cryptographic hypothesis, not proved):
`verify (tag, pw, key) cred hostKey` is `pw = cred` for variants that ignore the hsm and
`pw = cred ∧ key = hostKey` for the HMAC-bound variant, i.e. Argon2id/PBKDF2/… are collision
free on the passwords in play and HMAC-SHA256 under different keys never agrees.  `Blob.junk` is a
JSON value that does not deserialise as `DbPasswordV1`.

Time is abstracted as in C45: a cache row is expired or not; the provider's `CacheState` is
`online`, `offline` (`Offline`), `later` (`OfflineNextCheck(t)`, `t` in the future) or `check`
(`OfflineNextCheck(t)`, `t ≤ now`).  Every decision-carrying token comes from the generated files.
-/
namespace Kanidm.OfflineCache
open Kanidm.Gen.HostAuthz (TokState RefreshAction refreshAction offlineState DirReply replyState replyNet)
open Kanidm.Gen.PwFormat (KdfTag fromDb)
open Kanidm.Gen.OfflineCache

/-- value of `extra_keys["kanidm-pw-v1"]` -/
inductive Blob where
  | kdf (tag : KdfTag) (pw key : Nat)
  | junk
deriving DecidableEq, Repr

def assoc {α β : Type} [DecidableEq α] (k : α) : List (α × β) → Option β
  | [] => none
  | (k', v) :: t => if k = k' then some v else assoc k t

/-- `Password::verify_ctx(cred, Some((tpm, hmac_key)))` under `H_kdf`; `none` = `Err(_)`. -/
def verifyCtx (hostKey : Nat) (tag : KdfTag) (pw key cred : Nat) : Option Bool :=
  match assoc tag ctxTable with
  | some .hmac => some (pw == cred && key == hostKey)
  | some .ignore => some (pw == cred)
  | none => none

/-- `UserToken::kanidm_check_cached_password(cred, tpm, hmac_key)`. -/
def checkCached (hostKey : Nat) (c : Option Blob) (cred : Nat) : Bool :=
  match c with
  | none => chkMissing
  | some .junk => chkBadJson
  | some (.kdf tag pw key) =>
    if !chkSealedTags.contains tag then chkNotSealed
    else match assoc tag fromDb with
      | none => chkBadKdf
      | some k => chkFinal (verifyCtx hostKey k pw key cred)

/-- `UserToken::kanidm_update_cached_password`: the new value of `extra_keys["kanidm-pw-v1"]`
(`kdfOk` = `Password::new_argon2id_hsm` and the serialisation succeed). -/
def updateCached (hostKey : Nat) (kdfOk : Bool) (cred : Nat) (_old : Option Blob) : Option Blob :=
  match (if kdfOk then updOnOk else updOnKdfErr) with
  | .insert => some (.kdf updTag cred (if updSealsWithHmacKey then hostKey else 0))
  | .remove => none

/-! ## Resolver state -/

/-- `UserToken`: `valid` and `extra_keys["kanidm-pw-v1"]`. -/
structure Tok where
  valid : Bool
  cred : Option Blob
deriving DecidableEq, Repr

structure Row where
  tok : Tok
  expired : Bool
deriving DecidableEq, Repr

inductive Net where
  | online
  | offline
  | later
  | check
deriving DecidableEq, Repr

/-- `AuthSession` of a directory account. -/
inductive Session where
  | online (id : Nat)
  | offline (id : Nat) (snap : Tok)
  | closed
deriving DecidableEq, Repr

structure St where
  net : Net
  cache : Nat → Option Row
  nx : Nat → Bool
  sess : Nat → Option Session

def St.init : St := { net := .check, cache := fun _ => none, nx := fun _ => false, sess := fun _ => none }

def upd {β : Type} (f : Nat → β) (i : Nat) (v : β) : Nat → β := fun j => if j = i then v else f j

/-! ## The directory -/

structure Acct where
  pw : Nat
  valid : Bool
deriving DecidableEq, Repr

/-- The kanidm server as this host sees it: the online probe, the accounts (posix password and
validity), and a fault currently injected into the token / authentication endpoint. -/
structure World where
  selfOk : Bool
  acct : Nat → Option Acct
  tokFault : Option DirReply
  authFault : Option AuthReply
  kdfOk : Bool

def World.init : World :=
  { selfOk := true, acct := fun _ => none, tokFault := none, authFault := none, kdfOk := true }

/-- `GET /v1/account/{id}/_unix/_token`: `inl valid` = a token. -/
def World.token (w : World) (id : Nat) : Bool ⊕ DirReply :=
  match w.tokFault with
  | some r => .inr r
  | none =>
    match w.acct id with
    | some a => .inl a.valid
    | none => .inr .gone

/-- `POST /v1/account/{id}/_unix/_auth`: the reply class and the validity flag of the token. -/
def World.auth (w : World) (id cred : Nat) : AuthReply × Bool :=
  match w.authFault with
  | some r => (r, false)
  | none =>
    match w.acct id with
    | some a => if a.pw = cred then (.token, a.valid) else (.null, false)
    | none => (.gone, false)

/-- What happens, in order: requests this host sends (`probe`, `tokReq`, `auth`; `ok` = the
directory verified the password) and what is done to the cached credential of an account
(`kdfFailed` = the KDF / TPM failed right after a verification, `purged` = the row was deleted
because the directory said the account is gone, `cleared` = `clear_cache`, `planted` = somebody
overwrote the credential in the database). -/
inductive Ev where
  | probe
  | tokReq (id : Nat)
  | auth (id cred : Nat) (ok : Bool)
  | kdfFailed (id : Nat)
  | purged (id : Nat)
  | cleared
  | planted (id : Nat) (b : Option Blob)
deriving DecidableEq, Repr

/-! ## Provider online state -/

/-- `attempt_online` with a bearer token (probe = `whoami`). -/
def attemptOnline (w : World) : Net × Bool × List Ev :=
  if w.selfOk then (.online, true, [.probe]) else (.later, false, [.probe])

/-- `check_online`. -/
def checkOnline (w : World) : Net → Net × Bool × List Ev
  | .online => (.online, true, [])
  | .check => attemptOnline w
  | .later => (.later, false, [])
  | .offline => (.offline, false, [])

/-- `check_online_right_meow` (`IdProvider::attempt_online`). -/
def checkOnlineNow (w : World) : Net → Net × Bool × List Ev
  | .online => (.online, true, [])
  | .check => attemptOnline w
  | .later => attemptOnline w
  | .offline => (.offline, false, [])

def applyNet (code : Nat) (net : Net) : Net :=
  match code with
  | 0 => net
  | 1 => .later
  | _ => .check

def carry (prev : Option Tok) : Option Blob :=
  match prev with
  | some p => p.cred
  | none => none

/-- `KanidmProvider::unix_user_get`. -/
def unixUserGet (w : World) (net : Net) (id : Nat) (prev : Option Tok) :
    Net × TokState × Option Tok × List Ev :=
  match checkOnline w net with
  | (net', false, evs) => (net', offlineState, none, evs)
  | (net', true, evs) =>
    match w.token id with
    | .inl v =>
      (net', .update, some { valid := v, cred := if getCarriesKeys then carry prev else none },
        evs ++ [.tokReq id])
    | .inr r => (applyNet (replyNet r) net', replyState r, none, evs ++ [.tokReq id])

inductive Expiry where
  | valid
  | expired
deriving DecidableEq, Repr

/-- `Resolver::get_cached_usertoken`. -/
def getCached (st : St) (id : Nat) : Expiry × Option Tok :=
  if st.nx id then (.valid, none)
  else match st.cache id with
    | some r => (if r.expired then .expired else .valid, some r.tok)
    | none => (.expired, none)

/-- `Resolver::set_cache_usertoken`. -/
def putRow (st : St) (id : Nat) (t : Tok) : St :=
  { st with cache := upd st.cache id (some { tok := t, expired := false }) }

/-- `Resolver::refresh_usertoken` (single provider). -/
def refreshUsertoken (w : World) (st : St) (id : Nat) : St × Option Tok × List Ev :=
  let cached := (getCached st id).2
  match unixUserGet w st.net id cached with
  | (net', r, fresh, evs) =>
    match refreshAction r, fresh with
    | .useFresh, some t => (putRow { st with net := net' } id t, some t, evs)
    | .useFresh, none => ({ st with net := net' }, cached, evs)
    | .purge, _ =>
      match cached with
      | some _ =>
        ({ st with net := net', cache := upd st.cache id none, nx := upd st.nx id true }, none,
          evs ++ [.purged id])
      | none => ({ st with net := net', nx := upd st.nx id true }, none, evs)
    | .useCached, _ => ({ st with net := net' }, cached, evs)

/-- `Resolver::get_usertoken`. -/
def getUsertoken (w : World) (st : St) (id : Nat) : St × Option Tok × List Ev :=
  match getCached st id with
  | (.expired, _) => refreshUsertoken w st id
  | (.valid, item) => (st, item, [])

/-! ## Authentication -/

inductive InitRes where
  | password
  | unknown
  | err
deriving DecidableEq, Repr

/-- `Resolver::pam_account_authenticate_init` for an account the system provider does not know.
The session is `none` when the function returns `Err(())`. -/
def authInit (w : World) (st : St) (id : Nat) : St × Option Session × InitRes × List Ev :=
  match getUsertoken w st id with
  | (st1, some t, e1) =>
    let canOffline := hasOffline t.cred.isSome
    match (match initProbe canOffline with
           | .isOnline => (st1.net, decide (st1.net = .online), ([] : List Ev))
           | .attemptOnline => checkOnlineNow w st1.net) with
    | (net2, on, e2) =>
      let st2 := { st1 with net := net2 }
      if initGoesOnline on then (st2, some (.online id), .password, e1 ++ e2)
      else if !offlineInitNeedsCreds || hasOffline t.cred.isSome then
        (st2, some (.offline id t), .password, e1 ++ e2)
      else (st2, none, .err, e1 ++ e2)
  | (st1, none, e1) =>
    match checkOnlineNow w st1.net with
    | (net2, _, e2) => ({ st1 with net := net2 }, some .closed, .unknown, e1 ++ e2)

/-- what `pam_account_authenticate_step` does with the provider's result -/
def finish (st : St) (id : Nat) (o : StepOut) (newTok : Tok) : St × PamOut :=
  match o with
  | .successUpdate => (if successWrites then putRow st id newTok else st, pamOf o)
  | _ => (st, pamOf o)

/-- `unix_user_online_auth_step` + the resolver's handling. -/
def onlineStep (hostKey : Nat) (w : World) (st : St) (id cred : Nat) : St × PamOut × List Ev :=
  let current := (getCached st id).2
  match w.auth id cred with
  | (cls, v) =>
    let carried := if authCarriesKeys then carry current else none
    let newCred := if authUpdatesPw then updateCached hostKey w.kdfOk cred carried else carried
    match finish st id (onlineOut cls) { valid := v, cred := newCred } with
    | (st', r) =>
      (st', r, .auth id cred (decide (cls = .token)) ::
        (if decide (cls = .token) && authUpdatesPw && !w.kdfOk then [.kdfFailed id] else []))

/-- `unix_user_offline_auth_step` + the resolver's handling. -/
def offlineStep (hostKey : Nat) (st : St) (id : Nat) (snap : Tok) (cred : Nat) : St × PamOut :=
  let current := (getCached st id).2
  if checkCached hostKey snap.cred cred then
    finish st id offlineOnMatch
      (if offlineWritesCurrentElseSession then current.getD snap else snap)
  else finish st id offlineOnMiss snap

/-- `Resolver::pam_account_authenticate_step`. -/
def authStep (hostKey : Nat) (w : World) (st : St) (s : Option Session) (cred : Nat) :
    St × PamOut × List Ev :=
  match s with
  | some (.online id) => onlineStep hostKey w st id cred
  | some (.offline id snap) =>
    match offlineStep hostKey st id snap cred with
    | (st', r) => (st', r, [])
  | some .closed => (st, .err, [])
  | none => (st, .err, [])

/-! ## Histories -/

inductive Path where
  | none
  | online
  | offline
deriving DecidableEq, Repr

def Session.path : Option Session → Path
  | some (.online _) => .online
  | some (.offline _ _) => .offline
  | _ => .none

/-- One step of a host's life.  `srv` = the directory changes an account (password change,
validity, removal); `setSelf`/`tokFault`/`authFault` = reachability and faults; `invalidate` …
`markNextCheck` = what the administrator / daemon does; `lookup` = any NSS query
(`get_usertoken`); `plant` = somebody overwrites the cached credential of an existing row in the
cache database; `auth` = one login attempt (`init` immediately followed by `step`); `init` /
`stepS` = the two halves of a login attempt kept in a session slot, so that other events may
happen in between. -/
inductive Op where
  | srv (id : Nat) (a : Option Acct)
  | setSelf (ok : Bool)
  | tokFault (r : Option DirReply)
  | authFault (r : Option AuthReply)
  | setKdf (ok : Bool)
  | invalidate
  | clearCache
  | markOffline
  | markNextCheck
  | lookup (id : Nat)
  | plant (id : Nat) (b : Option Blob)
  | auth (id cred : Nat)
  | init (slot id : Nat)
  | stepS (slot cred : Nat)
deriving DecidableEq, Repr

inductive Reply where
  | ok
  | look (t : Option Tok)
  | init (r : InitRes) (p : Path)
  | step (r : PamOut) (p : Path)
  | auth (i : InitRes) (p : Path) (s : Option PamOut)
deriving DecidableEq, Repr

def invalidate (st : St) : St :=
  { st with cache := fun i => (st.cache i).map fun r => { r with expired := true }, nx := fun _ => false }

def clearCache (st : St) : St :=
  { st with cache := fun _ => none, nx := fun _ => false }

def step (hostKey : Nat) (w : World) (st : St) : Op → World × St × Reply × List Ev
  | .srv id a => ({ w with acct := upd w.acct id a }, st, .ok, [])
  | .setSelf b => ({ w with selfOk := b }, st, .ok, [])
  | .tokFault r => ({ w with tokFault := r }, st, .ok, [])
  | .authFault r => ({ w with authFault := r }, st, .ok, [])
  | .setKdf b => ({ w with kdfOk := b }, st, .ok, [])
  | .invalidate => (w, invalidate st, .ok, [])
  | .clearCache => (w, clearCache st, .ok, [.cleared])
  | .markOffline => (w, { st with net := .offline }, .ok, [])
  | .markNextCheck => (w, { st with net := .check }, .ok, [])
  | .lookup id =>
    match getUsertoken w st id with
    | (st', t, evs) => (w, st', .look t, evs)
  | .plant id b =>
    match st.cache id with
    | some r =>
      (w, { st with cache := upd st.cache id (some { r with tok := { r.tok with cred := b } }) }, .ok,
        [.planted id b])
    | none => (w, st, .ok, [])
  | .auth id cred =>
    match authInit w st id with
    | (st1, s, .password, e1) =>
      match authStep hostKey w st1 s cred with
      | (st2, r, e2) => (w, st2, .auth .password (Session.path s) (some r), e1 ++ e2)
    | (st1, s, i, e1) => (w, st1, .auth i (Session.path s) none, e1)
  | .init slot id =>
    match authInit w st id with
    | (st1, s, i, e1) => (w, { st1 with sess := upd st1.sess slot s }, .init i (Session.path s), e1)
  | .stepS slot cred =>
    let s := st.sess slot
    match authStep hostKey w st s cred with
    | (st1, r, e1) =>
      (w, { st1 with sess := upd st1.sess slot (s.map fun _ => .closed) }, .step r (Session.path s), e1)

/-- Run a history; the log has one entry per op: the op, its reply and the events it caused. -/
def runFrom (hostKey : Nat) (w : World) (st : St) : List Op → List (Op × Reply × List Ev)
  | [] => []
  | op :: rest =>
    match step hostKey w st op with
    | (w', st', r, evs) => (op, r, evs) :: runFrom hostKey w' st' rest

def run (hostKey : Nat) (ops : List Op) : List (Op × Reply × List Ev) :=
  runFrom hostKey World.init St.init ops

/-- The state a history ends in, with all events so far. -/
def execFrom (hostKey : Nat) (w : World) (st : St) (evs : List Ev) : List Op → World × St × List Ev
  | [] => (w, st, evs)
  | op :: rest =>
    match step hostKey w st op with
    | (w', st', _, e) => execFrom hostKey w' st' (evs ++ e) rest

def exec (hostKey : Nat) (ops : List Op) : World × St × List Ev :=
  execFrom hostKey World.init St.init [] ops

end Kanidm.OfflineCache
