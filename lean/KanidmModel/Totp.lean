import KanidmModel.TotpHash
import KanidmModel.Generated.TotpOps
/-!
# Model of kanidm's TOTP check (`server/lib/src/credential/totp.rs`) — property C29

Two layers.

* `Rfc.*` — the specification: RFC 4226 §5.3/§5.4 (HOTP, dynamic truncation written as the
  reference expression of §5.4) and RFC 6238 §4.2 (`T = ⌊t / X⌋`, `T0 = 0`), over HMAC of
  `KanidmModel/TotpHash.lean`.
* `algoDigest`, `digest`, `verify`, `ofProto` — what the Rust code does, statement by
  statement.  Every operator, constant and table the code uses is read from
  `Generated/TotpOps.lean` (regenerated from totp.rs on every run).  Rust behaviour that is
  not a value is kept: `none` = the thread panics (slice out of range, division by zero,
  `counter - 1` overflow with overflow checks on, which is the profile the harness links),
  `.error` = `Err(TotpError::…)`, and `||` is short-circuit (the second `digest` — and its
  `counter - 1` — is only evaluated when the first comparison is false).

Bytes, words, counters and codes are `Nat`s (`u8`/`u32`/`u64` values are in range by
construction; `Duration::as_secs` is the `secs` argument).
-/
namespace Kanidm.Totp
open Kanidm.Gen.Totp
open Kanidm.Totp.Hash

export Kanidm.Gen.Totp (Digits Algo)

/-- The hash function (with its block and output length) behind a generated `Hash` id. -/
def hashAlg : HashId → HashAlg
  | .Sha1 => algSha1
  | .Sha256 => algSha256
  | .Sha512 => algSha512

/-- Hash function the standard assigns to a TOTP algorithm name. -/
def stdHash : Algo → HashId
  | .Sha1 => .Sha1
  | .Sha256 => .Sha256
  | .Sha512 => .Sha512

/-- `u64::to_be_bytes` (generated width and endianness). -/
def counterBytes (counter : Nat) : List Nat :=
  let be := beBytes counterWidth counter
  if counterBigEndian then be else be.reverse

/-! ## Specification (RFC 4226 / RFC 6238) -/
namespace Rfc

/-- The 8-byte big-endian counter of RFC 4226 §5.1. -/
def counter8 (c : Nat) : List Nat := beBytes 8 c

/-- RFC 4226 §5.3 step 2 (`DT`): `OffsetBits` = the low-order 4 bits of the last byte;
`P = String[Offset] … String[Offset+3]`; the result is the last 31 bits of `P`. -/
def dynTrunc (hs : List Nat) : Nat :=
  let o := hs.getD (hs.length - 1) 0 % 16
  let p := hs.getD o 0 * 2 ^ 24 + hs.getD (o + 1) 0 * 2 ^ 16 + hs.getD (o + 2) 0 * 2 ^ 8 +
    hs.getD (o + 3) 0
  p % 2 ^ 31

/-- The same truncation as RFC 4226 §5.4 writes it (the reference implementation's expression);
`KanidmProofs.C29.hotp_eq_reference`: equal to `dynTrunc` on byte strings. -/
def refTrunc (hs : List Nat) : Nat :=
  let o := hs.getD (hs.length - 1) 0 &&& 0xf
  ((hs.getD o 0 &&& 0x7f) <<< 24) ||| ((hs.getD (o + 1) 0 &&& 0xff) <<< 16) |||
    ((hs.getD (o + 2) 0 &&& 0xff) <<< 8) ||| (hs.getD (o + 3) 0 &&& 0xff)

/-- `HOTP(K, C) = Truncate(HMAC-H(K, C)) mod 10^Digit`. -/
def hotp (a : Algo) (key : List Nat) (c : Nat) (digits : Nat) : Nat :=
  dynTrunc (hmac (hashAlg (stdHash a)) key (counter8 c)) % 10 ^ digits

/-- RFC 6238 §4.2 with `T0 = 0`: `TOTP = HOTP(K, ⌊t / X⌋)`. -/
def totp (a : Algo) (key : List Nat) (step digits : Nat) (t : Nat) : Nat :=
  hotp a key (t / step) digits

end Rfc

/-! ## The code -/

inductive TotpError where
  | invalidKeyError
  | hmacError
  | timeError
  deriving DecidableEq, Repr

structure Totp where
  secret : List Nat
  step : Nat
  algo : Algo
  digits : Digits
  deriving DecidableEq, Repr

/-- `TotpAlgo::digest` (totp.rs:59-88): each arm is `Hmac::new_from_slice(key_bytes)` (accepts
every key length: longer than the block is hashed first, RFC 2104), `update(&counter
.to_be_bytes())`, `finalize().into_bytes().to_vec()`.  Which HMAC an arm builds is the
generated table `Algo.hmacHash`. -/
def algoDigest (a : Algo) (keyBytes : List Nat) (counter : Nat) : Except TotpError (List Nat) :=
  .ok (hmac (hashAlg a.hmacHash) keyBytes (counterBytes counter))

/-- `hmac[start..end]`: `none` (panic) unless `start ≤ end ≤ len`. -/
def slice (l : List Nat) (start stop : Nat) : Option (List Nat) :=
  if start ≤ stop ∧ stop ≤ l.length then some ((l.drop start).take (stop - start)) else none

/-- `u32::from_be_bytes` / `from_le_bytes`. -/
def u32OfBytes (bytes : List Nat) : Nat :=
  if otpBigEndian then beNum bytes else beNum bytes.reverse

/-- `Totp::digest` after the `?` on the HMAC (totp.rs:180-203): offset from the last byte,
four-byte slice, `u32`, mask, modulus.  Outer `Option`: `none` = panic. -/
def truncate (hm : List Nat) (modulus : Nat) : Option (Except TotpError Nat) :=
  match hm.getLast? with                              -- `hmac.last()`
  | none => some (.error .hmacError)                  -- `.ok_or(TotpError::HmacError)?`
  | some v =>
    let offset := offsetOf v                          -- `.map(|v| (v & 0xf) as usize)`
    match slice hm (sliceStart offset) (sliceEnd offset) with
    | none => none                                    -- slice index panic
    | some bytes =>
      if bytes.length ≠ arrayLen then some (.error .hmacError)   -- `try_into().map_err(..)?`
      else
        let otp := u32OfBytes bytes                   -- `u32::from_be_bytes(bytes)`
        some (.ok (finalise otp modulus))             -- `(otp & 0x7fff_ffff) % (self.digits as u32)`

/-- `Totp::digest` (totp.rs:176-204). -/
def digest (t : Totp) (counter : Nat) : Option (Except TotpError Nat) :=
  match algoDigest t.algo t.secret counter with
  | .error e => some (.error e)                       -- `?`
  | .ok hm => truncate hm t.digits.modulus

/-- `self.digest(arg)` where `arg` is a `u64` expression over `counter`; leaving
`0 … 2^64-1` is an arithmetic-overflow panic. -/
def digestAt (t : Totp) (arg : Int) : Option (Except TotpError Nat) :=
  if arg < 0 ∨ 18446744073709551616 ≤ arg then none else digest t arg.toNat

/-- `.map(|v| v == chal).unwrap_or(false)` on a digest result (`none` = it panicked). -/
def matchCode (d : Option (Except TotpError Nat)) (chal : Nat) : Option Bool :=
  match d with
  | none => none
  | some (.ok v) => some (codeMatches v chal)
  | some (.error _) => some onError

/-- One side of the `||` in `verify`. -/
def checkAt (t : Totp) (chal : Nat) (arg : Int) : Option Bool :=
  matchCode (digestAt t arg) chal

/-- `Totp::verify` (totp.rs:220-229).  `none` = panic (`secs / 0`, or `0 - 1`). -/
def verify (t : Totp) (chal secs : Nat) : Option Bool :=
  if t.step = 0 then none                              -- `secs / self.step`
  else
    let counter := counterOf secs t.step
    match checkAt t chal (firstCounter counter) with
    | none => none
    | some true => some true                           -- `||` short-circuits
    | some false => checkAt t chal (secondCounter counter)

/-- `Totp::do_totp_duration_from_epoch` (totp.rs:206-211). -/
def doTotp (t : Totp) (secs : Nat) : Option (Except TotpError Nat) :=
  if t.step = 0 then none else digest t (counterOf secs t.step)

/-- `impl TryFrom<ProtoTotp> for Totp` (totp.rs:121-136): algorithm through the generated
table, digits through `TotpDigits::try_from(u8)`; `none` = `Err(())`. -/
def ofProto (secret : List Nat) (algo : Algo) (step digits : Nat) : Option Totp :=
  match Digits.ofU8 digits with
  | none => none
  | some d => some ⟨secret, step, Algo.ofProto algo, d⟩

/-- `impl TryFrom<DbTotpV1> for Totp` (totp.rs:100-119): algorithm through the generated
table, `value.digits.unwrap_or(6)` through `TotpDigits::try_from(u8)`; `none` = `Err(())`. -/
def ofDb (key : List Nat) (algo : DbAlgo) (step : Nat) (digits : Option Nat) : Option Totp :=
  match Digits.ofU8 (digits.getD dbDefaultDigits) with
  | none => none
  | some d => some ⟨key, step, Algo.ofDb algo, d⟩

/-- The driver's batched form — one token, one time, many candidate codes — computing the
two digests once.  `KanidmProofs.C29.verifyMany_eq_map`: it is `chals.map (verify t · secs)`. -/
def verifyMany (t : Totp) (chals : List Nat) (secs : Nat) : List (Option Bool) :=
  if t.step = 0 then chals.map fun _ => none
  else
    let counter := counterOf secs t.step
    let d1 := digestAt t (firstCounter counter)
    let d2 := digestAt t (secondCounter counter)
    chals.map fun chal =>
      match matchCode d1 chal with
      | none => none
      | some true => some true
      | some false => matchCode d2 chal

end Kanidm.Totp
