import KanidmModel.Generated.SpnOps
/-!
# C22 — SPNs are always name@domain: model of the Spn plugin and the write paths around it

Transcribes (operators / arms / orders regenerated into `Generated/SpnOps.lean`):

* `Entry::generate_spn`                 (server/lib/src/entry.rs)       → `generateSpn`
* `Spn::modify_inner`                   (plugins/spn.rs)                → `spnTransform`, `modifyInner`
* `Spn::post_modify_inner`              (plugins/spn.rs)                → inside `domainRename`
* `danger_domain_rename`                (server/mod.rs)                 → `domainRename`
* the create / modify / delete / revive pipelines as far as the spn attribute is concerned
  (server/create.rs, modify.rs, delete.rs, recycle.rs; plugin order of plugins/mod.rs):
  Base uuid check → Spn → AttrUnique (name, spn) → schema validation → write.

An entry carries only what the property talks about: classes `group` / `account`, live or
recycled, the `name` value set and the `spn` attribute (absent, a set of (name, domain) pairs,
a single stashed iname, or a value of another syntax).  One operation = one write transaction;
an error leaves the state unchanged (the transaction is dropped).
Import-free apart from the generated table (core Lean only) so that the driver links.
-/
namespace Kanidm.Spn
open Kanidm.Gen

abbrev Str := List Char

/-- The `spn` attribute's value set. -/
inductive SpnVs where
  /-- `ValueSetSpn`: a set of (name, domain) pairs -/
  | spn (vals : List (Str × Str))
  /-- a single iname stashed into the spn attribute (`to_iname_single` = Some) -/
  | iname (n : Str)
  /-- any other syntax (utf8 string …) -/
  | other
deriving DecidableEq, Repr

structure Entry where
  id : Nat
  grp : Bool
  acct : Bool
  live : Bool
  name : List Str
  spn : Option SpnVs
deriving DecidableEq, Repr

structure State where
  /-- `d_info.d_name`: what `qs.get_domain_name()` returns -/
  domMem : Str
  /-- `domain_name` of the `domain_info` entry -/
  domDb : Str
  entries : List Entry
deriving DecidableEq, Repr

inductive ErrKind where
  | empty | exists | spn | unique | schema | noMatch
deriving DecidableEq, Repr

inductive Res where
  | ok (s : State)
  | err (k : ErrKind)
deriving DecidableEq, Repr

def single? {α : Type} : List α → Option α
  | [x] => some x
  | _ => none

/-- `mapM` for `Option`, written out (first failure wins). -/
def mapOpt {α β : Type} (f : α → Option β) : List α → Option (List β)
  | [] => some []
  | x :: xs =>
    match f x with
    | none => none
    | some y =>
      match mapOpt f xs with
      | none => none
      | some ys => some (y :: ys)

def managed (e : Entry) : Bool := SpnOps.managed e.grp e.acct

/-- `Entry::generate_spn`. -/
def generateSpn (e : Entry) (dom : Str) : Option SpnVs :=
  let fromName : Option SpnVs :=
    if SpnOps.nameArmReadsName then
      match single? e.name with
      | some n => some (.spn [SpnOps.namePair n dom])
      | none => none
    else none
  let fromSpn : Option SpnVs :=
    match e.spn with
    | none => none
    | some (.spn vs) => if SpnOps.keepArmWhenSpnSyntax then some (.spn vs) else none
    | some (.iname n) => some (.spn [SpnOps.stashPair n dom])
    | some .other => none
  if SpnOps.nameArmFirst then
    match fromName with
    | some v => some v
    | none => fromSpn
  else
    match fromSpn with
    | some v => some v
    | none => fromName

/-- `set_ava_set` when `writeReplaces`, otherwise a merge into the existing set. -/
def writeSpn (e : Entry) (v : SpnVs) : Entry :=
  if SpnOps.writeReplaces then { e with spn := some v }
  else
    match e.spn, v with
    | some (.spn old), .spn new => { e with spn := some (.spn (old ++ new.filter (fun p => !old.contains p))) }
    | _, _ => { e with spn := some v }

/-- One iteration of the loop of `Spn::modify_inner`; `none` = `Err(InvalidEntryState)`. -/
def spnTransform (dom : Str) (e : Entry) : Option Entry :=
  if managed e then
    match generateSpn e dom with
    | some v => some (writeSpn e v)
    | none => if SpnOps.failOnUngeneratable then none else some e
  else some e

/-- The Spn plugin's pre hook as wired into the plugin chain. -/
def spnHook (dom : Str) (e : Entry) : Option Entry :=
  if SpnOps.hooksWired && SpnOps.pluginRegistered then spnTransform dom e else some e

/-- Schema validation as far as name and spn are concerned: `name` is single-valued, every
account class (person, service account, oauth2 client) must have it; group and account
must have `spn`, single-valued, of SPN syntax; no other class may have it. -/
def schemaOk (e : Entry) : Bool :=
  decide (e.name.length ≤ 1) && (!e.acct || decide (e.name.length = 1)) &&
  (if e.grp || e.acct then
    (match e.spn with
     | some (.spn [_]) => true
     | _ => false)
   else e.spn.isNone)

inductive Key where
  | name (s : Str)
  | spn (p : Str × Str)
deriving DecidableEq, Repr

/-- The (unique attribute, value) pairs of an entry: `name` and `spn`. -/
def keysOf (e : Entry) : List Key :=
  e.name.map Key.name ++
    (match e.spn with
     | some (.spn vs) => vs.map Key.spn
     | _ => [])

/-- `attrunique::enforce_unique`: no value claimed by two candidates, no live entry of the
database (as it is before the write) with another uuid holding a candidate's value. -/
def uniqueOk (db : List Entry) (cands : List Entry) : Bool :=
  let claims : List (Key × Nat) := cands.flatMap (fun c => (keysOf c).map (fun k => (k, c.id)))
  claims.all (fun c =>
    claims.all (fun c' => c'.1 != c.1 || c'.2 == c.2) &&
    db.all (fun e => !e.live || e.id == c.2 || !(keysOf e).contains c.1))

inductive Mod where
  | purgeName
  | presentName (n : Str)
  | removedName (n : Str)
  | purgeSpn
  | presentSpn (p : Str × Str)
  | removedSpn (p : Str × Str)
deriving DecidableEq, Repr

/-- `Entry::apply_modlist`, one modification (value sets are sets; an emptied set is removed). -/
def applyMod (e : Entry) : Mod → Entry
  | .purgeName => { e with name := [] }
  | .presentName n => { e with name := if e.name.contains n then e.name else e.name ++ [n] }
  | .removedName n => { e with name := e.name.filter (fun x => x != n) }
  | .purgeSpn => { e with spn := none }
  | .presentSpn p =>
    match e.spn with
    | none => { e with spn := some (.spn [p]) }
    | some (.spn vs) => { e with spn := some (.spn (if vs.contains p then vs else vs ++ [p])) }
    | some _ => e
  | .removedSpn p =>
    match e.spn with
    | some (.spn vs) =>
      let vs' := vs.filter (fun x => x != p)
      { e with spn := if vs'.isEmpty then none else some (.spn vs') }
    | _ => e

def applyMods (e : Entry) (mods : List Mod) : Entry := mods.foldl applyMod e

inductive Op where
  /-- `internal_create` of the given candidates (as supplied by the caller) -/
  | create (cands : List Entry)
  /-- `internal_modify` of the live entries with these uuids -/
  | modify (ids : List Nat) (mods : List Mod)
  /-- `danger_domain_rename` -/
  | domainRename (d : Str)
  /-- `internal_delete` of the live entries with these uuids -/
  | delete (ids : List Nat)
  /-- `revive_recycled` of the recycled entries with these uuids -/
  | revive (ids : List Nat)
deriving DecidableEq, Repr

/-- create.rs: Base (uuid unknown and not repeated) → Spn → AttrUnique → schema → write. -/
def create (s : State) (cands : List Entry) : Res :=
  if cands.isEmpty then .err .empty
  else if cands.any (fun c => s.entries.any (fun e => e.id == c.id))
      || !(cands.map (·.id)).eraseDups.length == cands.length then .err .exists
  else
    match mapOpt (spnHook s.domMem) (cands.map (fun c => { c with live := true })) with
    | none => .err .spn
    | some cs =>
      if !uniqueOk s.entries cs then .err .unique
      else if !cs.all schemaOk then .err .schema
      else .ok { s with entries := s.entries ++ cs }

/-- What a modify does to one entry of the database: selected live entries get the modlist
and the Spn pre hook, everything else is untouched. -/
def modifyEntry (dom : Str) (sel : Entry → Bool) (mods : List Mod) (e : Entry) : Option Entry :=
  if e.live && sel e then spnHook dom (applyMods e mods) else some e

/-- modify.rs for an internal event: no candidates ⇒ `Ok` without effect; modlist → pre hooks
(Spn … AttrUnique) → schema → write.  `dom` is the in-memory domain name of the transaction. -/
def modifyCore (s : State) (sel : Entry → Bool) (mods : List Mod) : Res :=
  if !s.entries.any (fun e => e.live && sel e) then .ok s
  else
    match mapOpt (modifyEntry s.domMem sel mods) s.entries with
    | none => .err .spn
    | some es =>
      -- the candidates after the pre hooks
      match mapOpt (modifyEntry s.domMem sel mods) (s.entries.filter (fun e => e.live && sel e)) with
      | none => .err .spn
      | some cs =>
        if !uniqueOk s.entries cs then .err .unique
        else if !cs.all schemaOk then .err .schema
        else .ok { s with entries := es }

/-- `danger_domain_rename` = internal modify of `domain_info` (purge-and-set `domain_name`),
then `Spn::post_modify_inner`: when the name differs, reload the in-memory domain info and
purge `spn` from every live entry that has one — the nested modify regenerates it through the
pre hook.  The commit reloads the domain info as well (`ChangeFlag::DOMAIN`). -/
def domainRename (s : State) (d : Str) : Res :=
  let s1 : State := if SpnOps.domainRenameSetsDomainName then { s with domDb := d } else s
  if SpnOps.hooksWired && SpnOps.pluginRegistered && SpnOps.domainChanged true (s1.domDb != s.domDb) then
    let s2 : State := if SpnOps.reloadBeforeRegen then { s1 with domMem := s1.domDb } else s1
    let r := if SpnOps.regenPurgesAllSpnHolders then modifyCore s2 (fun e => e.spn.isSome) [.purgeSpn] else .ok s2
    match r with
    | .ok s3 => .ok { s3 with domMem := s3.domDb }
    | .err k => .err k
  else .ok { s1 with domMem := s1.domDb }

/-- delete.rs: no live candidate ⇒ `NoMatchingEntries`; candidates become recycled (all
attributes kept). -/
def delete (s : State) (ids : List Nat) : Res :=
  if !s.entries.any (fun e => e.live && ids.contains e.id) then .err .noMatch
  else .ok { s with entries := s.entries.map (fun e => if e.live && ids.contains e.id then { e with live := false } else e) }

def reviveEntry (dom : Str) (ids : List Nat) (e : Entry) : Option Entry :=
  if !e.live && ids.contains e.id then
    (if SpnOps.reviveRunsPreModify then spnHook dom { e with live := true } else some { e with live := true })
  else some e

/-- recycle.rs `revive_recycled`: candidates = recycled entries matching; `to_revived`, the
pre-modify hooks (Spn … AttrUnique), schema, write. -/
def revive (s : State) (ids : List Nat) : Res :=
  if !s.entries.any (fun e => !e.live && ids.contains e.id) then .err .noMatch
  else
    match mapOpt (reviveEntry s.domMem ids) s.entries with
    | none => .err .spn
    | some es =>
      match mapOpt (reviveEntry s.domMem ids) (s.entries.filter (fun e => !e.live && ids.contains e.id)) with
      | none => .err .spn
      | some cs =>
        if !uniqueOk s.entries cs then .err .unique
        else if !cs.all schemaOk then .err .schema
        else .ok { s with entries := es }

def stepRes (s : State) : Op → Res
  | .create cands => create s cands
  | .modify ids mods => modifyCore s (fun e => ids.contains e.id) mods
  | .domainRename d => domainRename s d
  | .delete ids => delete s ids
  | .revive ids => revive s ids

/-- One write transaction: committed on `Ok`, dropped on `Err`. -/
def step (s : State) (op : Op) : State :=
  match stepRes s op with
  | .ok s' => s'
  | .err _ => s

def run (s : State) (ops : List Op) : State := ops.foldl step s

/-- The string form of an spn value (`ValueSetSpn::to_proto_string_clone_iter`). -/
def render (p : Str × Str) : Str := SpnOps.render p.1 p.2

/-! ## decidable forms of the invariants (run by the driver on the real server's state) -/

/-- Boolean form of `EntryOk` (KanidmProofs/Lemmas/Spn.lean proves the equivalence). -/
def entryOkB (dom : Str) (e : Entry) : Bool :=
  !e.live || !(e.grp || e.acct) ||
    (match single? e.name with
     | some n => e.spn == some (.spn [(n, dom)])
     | none =>
       (match e.spn with
        | some (.spn [_]) => true
        | _ => false))

def invB (s : State) : Bool := s.domMem == s.domDb && s.entries.all (entryOkB s.domDb)

def namedB (s : State) : Bool :=
  s.entries.all (fun e => !(e.grp || e.acct) || decide (e.name.length = 1))

end Kanidm.Spn
