import KanidmModel.SessionMerge
import KanidmModel.Generated.KeyObjectOps
/-!
# Model of internal key objects (property C34)

Transcribed from `/repo/server/lib/src`:

* `server/keys/internal.rs` — the five per-usage key sets `KeyObjectInternalJwtEs256 / JwtRs256 /
  JwtHs256 / JweA128GCM / HkdfS256` (`active : BTreeMap<valid_from, signer>`,
  `all : BTreeMap<KeyId, Internal…>`), their `get_valid_signer`/`get_valid_cipher`,
  `assert_active`, `new_active`, `revoke`, `load`, `to_key_iter`, `sign`/`encipher`/`hkdf_s256_expand`,
  `verify`/`decipher`; `KeyObjectInternal::{rotate_keys, revoke_keys, *_assert, as_valuesets,
  jws_verify, jwe_decrypt}`; `KeyProviderInternal::load_key_object`.
* `plugins/keyobject.rs` — `KeyObjectManagement::apply_keyobject_inner` (duplicate of the *loaded*
  object → revoke → rotate → asserts at `Duration::ZERO` → `as_valuesets` → `merge_ava_set`).
* `valueset/key_internal.rs` — `merge` (entry-level, used by `merge_ava_set`), `trim`,
  `repl_merge_valueset` (loop and operators shared with C11: `Kanidm.SessionMerge.coreMerge`,
  generated `keyReplace` / `keyTrim` / `takeLeft`).
* `entry.rs` `invalidate` (trim of every attribute before a modify), `merge_state` (role by
  attribute cid), `server/mod.rs` `reload_key_material` (every commit that touched a key object
  rebuilds `objects[uuid]` from the stored entry — the model *derives* the loaded object from the
  stored map, `Srv.loaded`).

Key ids, cids and times are naturals (the harness maps them order-preservingly; the iteration
order of `BTreeMap<KeyId, _>` matters in `load`). A key id determines its key material (kid = hash
of the key, trusted), so a token is `(usage, kid)`: *made with* that key; the cryptographic check
of `verifier.verify` / `cipher.decipher` is assumed to succeed exactly for the key that made it.

Every table / operator that decides a status (`verifyArm`, `loadActivates`, `newKeyStatus`,
`signerStarted`, `revokeSkipsRevoked`, call orders, `entryMergeReplace`, …) is **generated**
(`Generated/KeyObjectOps.lean`); the loop shapes here are hand transcribed and tied by the
correspondence harness (`harness/hlib/src/bin/c34.rs`).
-/
namespace Kanidm.KeyObject
open Kanidm.Gen.SessionOrd
open Kanidm.Gen.KeyObjectOps
open Kanidm.SessionMerge (lookup mergeOne coreMerge sortByKey)

/-- `BTreeMap::insert` (replace or add). -/
def mapInsert {α : Type} (m : List (Nat × α)) (k : Nat) (v : α) : List (Nat × α) :=
  mergeOne (fun _ _ => true) m k v

/-- `BTreeMap::remove`. -/
def mapRemove {α : Type} (m : List (Nat × α)) (k : Nat) : List (Nat × α) :=
  m.filter (fun e => !(e.1 == k))

/-- `KeyInternalData` (the `der` is determined by kid and status). -/
structure KRec where
  usage : Usage
  validFrom : Nat
  status : KeyStatus
  statusCid : Nat
  deriving DecidableEq, Repr

/-- `BTreeMap<KeyId, KeyInternalData>`: the stored value set. -/
abbrev KMap := List (Nat × KRec)

/-- `InternalJwtEs256 { valid_from, status, status_cid }` and its four siblings. -/
structure Slot where
  validFrom : Nat
  status : KeyStatus
  statusCid : Nat
  deriving DecidableEq, Repr

/-- One per-usage key set: `active : valid_from ↦ signer (its kid)`, `all : kid ↦ slot`. -/
structure UObj where
  active : List (Nat × Nat)
  all : List (Nat × Slot)
  deriving DecidableEq, Repr

/-- `Default`. -/
def UObj.empty : UObj := ⟨[], []⟩

/-- One step of `range((Unbounded, Included(t))).next_back()` over a map with distinct keys. -/
def better (t : Nat) (best : Option (Nat × Nat)) (e : Nat × Nat) : Option (Nat × Nat) :=
  if signerStarted e.1 t then
    match best with
    | none => some e
    | some b => if b.1 < e.1 then some e else some b
  else best

/-- `get_valid_signer(t)`: the entry of `active` with the greatest `valid_from ≤ t`. -/
def pickSigner (active : List (Nat × Nat)) (t : Nat) : Option (Nat × Nat) :=
  active.foldl (better t) none

/-- `new_active(valid_from, cid)` generating the key with id `kid`. -/
def UObj.newActive (x : UObj) (u : Usage) (vf cid kid : Nat) : UObj :=
  { active := mapInsert x.active vf kid
    all := mapInsert x.all kid ⟨vf, newKeyStatus u, cid⟩ }

/-- `assert_active(valid_from, cid)`. -/
def UObj.assertActive (x : UObj) (u : Usage) (vf cid kid : Nat) : UObj :=
  if (pickSigner x.active vf).isNone then x.newActive u vf cid kid else x

/-- `revoke(kid, cid) -> Ok(bool)`. -/
def UObj.revoke (x : UObj) (u : Usage) (kid cid : Nat) : UObj × Bool :=
  match lookup x.all kid with
  | none => (x, false)
  | some s =>
    if revokeSkipsRevoked u && decide (s.status = .revoked) then (x, false)
    else
      ({ active := mapRemove x.active s.validFrom
         all := mapInsert x.all kid { s with status := .revoked, statusCid := cid } }, true)

/-- `load(id, status, status_cid, der, valid_from)`. -/
def UObj.load (x : UObj) (u : Usage) (kid : Nat) (r : KRec) : UObj :=
  { active := if loadActivates u r.status then mapInsert x.active r.validFrom kid else x.active
    all := mapInsert x.all kid ⟨r.validFrom, r.status, r.statusCid⟩ }

/-- `verify` / `decipher` of a token made with key `kid`. -/
def UObj.verify (x : UObj) (u : Usage) (kid : Nat) : Bool :=
  match lookup x.all kid with
  | none => false
  | some s => verifyArm u s.status

/-- `sign` / `encipher` / `hkdf_s256_expand` at time `t`: the kid of the key used. -/
def UObj.sign (x : UObj) (t : Nat) : Option Nat := (pickSigner x.active t).map (·.2)

/-- `KeyObjectInternal`: one optional key set per usage (`jws_es256`, `jws_hs256`, `jws_rs256`,
`jwe_a128gcm`, `hkdf_s256`). -/
structure KeyObj where
  es256 : Option UObj
  hs256 : Option UObj
  rs256 : Option UObj
  jwe : Option UObj
  hkdf : Option UObj

/-- The key set of a usage. -/
def KeyObj.get (o : KeyObj) : Usage → Option UObj
  | .jwsEs256 => o.es256
  | .jwsHs256 => o.hs256
  | .jwsRs256 => o.rs256
  | .jweA128GCM => o.jwe
  | .hkdfS256 => o.hkdf

instance : CoeFun KeyObj (fun _ => Usage → Option UObj) := ⟨KeyObj.get⟩

def KeyObj.empty : KeyObj := ⟨none, none, none, none, none⟩

def KeyObj.set (o : KeyObj) (u : Usage) (x : UObj) : KeyObj :=
  match u with
  | .jwsEs256 => { o with es256 := some x }
  | .jwsHs256 => { o with hs256 := some x }
  | .jwsRs256 => { o with rs256 := some x }
  | .jweA128GCM => { o with jwe := some x }
  | .hkdfS256 => { o with hkdf := some x }

/-- The key id the generator produces for the `i`-th modify of a transaction, usage `u`, valid
from `vf` (supplied by the harness from what the real code generated). -/
abbrev Fresh := Usage → Nat → Nat

/-- `rotate_keys(rotation_time, cid)`. -/
def KeyObj.rotate (o : KeyObj) (t cid : Nat) (fresh : Fresh) : KeyObj :=
  rotateOrder.foldl (fun o u =>
    match o u with
    | some x => o.set u (x.newActive u t cid (fresh u t))
    | none => o) o

/-- Body of the `for revoke_key_id in revoke_set` loop: `(object, has_revoked)`. -/
def KeyObj.revokeOne (o : KeyObj) (kid cid : Nat) : KeyObj × Bool :=
  revokeOrder.foldl (fun (acc : KeyObj × Bool) u =>
    match acc.1 u with
    | some x => ((acc.1.set u (x.revoke u kid cid).1), (acc.2 || (x.revoke u kid cid).2))
    | none => acc) (o, false)

/-- `revoke_keys(revoke_set, cid)`; `none` = `Err(KP0026KeyObjectNoSuchKey)`. -/
def KeyObj.revokeKeys (o : KeyObj) : List Nat → Nat → Option KeyObj
  | [], _ => some o
  | k :: ks, cid =>
    if (o.revokeOne k cid).2 then KeyObj.revokeKeys (o.revokeOne k cid).1 ks cid else none

/-- `*_assert(Duration::ZERO, cid)`: `get_or_insert_with(Default)` then `assert_active`. -/
def KeyObj.assertUsage (o : KeyObj) (u : Usage) (cid : Nat) (fresh : Fresh) : KeyObj :=
  o.set u (((o u).getD UObj.empty).assertActive u assertTime cid (fresh u assertTime))

/-- `as_valuesets`: the chained `to_key_iter`s collected into a `BTreeMap`. -/
def KeyObj.toMap (o : KeyObj) : KMap :=
  valuesetOrder.foldl (fun m u =>
    match o u with
    | some x => x.all.foldl (fun m e => mapInsert m e.1 ⟨u, e.2.validFrom, e.2.status, e.2.statusCid⟩) m
    | none => m) []

/-- `load_key_object`: iterate the stored map in key-id order. -/
def loadObj (m : KMap) : KeyObj :=
  (sortByKey m).foldl (fun o e =>
    o.set e.2.usage (((o e.2.usage).getD UObj.empty).load e.2.usage e.1 e.2)) KeyObj.empty

def KeyObj.sign (o : KeyObj) (u : Usage) (t : Nat) : Option Nat :=
  match o u with
  | some x => x.sign t
  | none => none

/-- `jws_verify` (dispatch on alg = usage) / `jwe_decrypt`. -/
def KeyObj.verify (o : KeyObj) (u : Usage) (kid : Nat) : Bool :=
  match o u with
  | some x => x.verify u kid
  | none => false

/-! ## The plugin (`apply_keyobject_inner`) and the entry -/

/-- The key actions of one modify (`KeyActionRevoke` set, `KeyActionRotate` time). -/
structure Action where
  revoke : Option (List Nat) := none
  rotate : Option Nat := none
  deriving Repr

def rotationTime (secs now : Nat) : Nat := if rotateUsesRequested secs now then secs else now

def pluginStep (classes : List Usage) (a : Action) (now cid : Nat) (fresh : Fresh)
    (ko : Option KeyObj) (st : PluginStep) : Option KeyObj :=
  match ko with
  | none => none
  | some k =>
    match st with
    | .importEs256 => some k
    | .importRs256 => some k
    | .revoke =>
      match a.revoke with
      | some ks => k.revokeKeys ks cid
      | none => some k
    | .rotate =>
      match a.rotate with
      | some secs => some (k.rotate (rotationTime secs now) cid fresh)
      | none => some k
    | .assert u => if classes.contains u then some (k.assertUsage u cid fresh) else some k

/-- The staged key object after all plugin steps; `none` = the modify fails. -/
def pluginObj (loaded : KeyObj) (classes : List Usage) (a : Action) (now cid : Nat)
    (fresh : Fresh) : Option KeyObj :=
  pluginOrder.foldl (pluginStep classes a now cid fresh) (some loaded)

/-- `ValueSetKeyInternal::merge`: `v_other.status > v_self.status`. -/
def entryRepl (other self : KRec) : Bool := entryMergeReplace other.status self.status

/-- `merge_ava_set(KeyInternalData, vs)`. -/
def entryMerge (entry : Option KMap) (vs : KMap) : KMap :=
  match entry with
  | some e => coreMerge entryRepl e vs
  | none => vs

/-- The `retain` closure of `ValueSetKeyInternal::trim`. -/
def keepRec (t : Nat) (r : KRec) : Bool :=
  match r.status with
  | .revoked => !(keyTrim r.statusCid t)
  | _ => true

def trimMap (t : Nat) (m : KMap) : KMap := m.filter (fun e => keepRec t e.2)

/-- A partner's stored map in which the `Valid` key `k` has been retired to `Retained` (no
operation of this code base does that; a `Retained` record can only arrive by replication). -/
def retainMap (m : KMap) (k : Nat) : KMap :=
  m.map (fun e => if e.1 = k ∧ e.2.status = .valid then (e.1, { e.2 with status := .retained }) else e)

/-- One modify of the key object entry inside a write transaction whose key providers hold
`loaded`: `invalidate` (trim), plugin, `merge_ava_set`. -/
def modifyEntry (loaded : KeyObj) (classes : List Usage) (m : KMap) (a : Action)
    (now cid trim : Nat) (fresh : Fresh) : Option KMap :=
  match pluginObj loaded classes a now cid fresh with
  | none => none
  | some ko => some (entryMerge (some (trimMap trim m)) ko.toMap)

/-- `pre_create_transform` of a new key object entry. -/
def createEntry (classes : List Usage) (now cid : Nat) (fresh : Fresh) : Option KMap :=
  match pluginObj KeyObj.empty classes {} now cid fresh with
  | none => none
  | some ko => some (entryMerge none ko.toMap)

/-! ## A server: the stored entry; the loaded object is derived (`reload_key_material`) -/

structure Srv where
  classes : List Usage
  map : KMap
  attrCid : Nat
  deriving Repr

/-- `objects[uuid]` after the last commit / start-up. -/
def Srv.loaded (s : Srv) : KeyObj := loadObj s.map

def Srv.sign (s : Srv) (u : Usage) (t : Nat) : Option Nat := s.loaded.sign u t
def Srv.accepts (s : Srv) (u : Usage) (kid : Nat) : Bool := s.loaded.verify u kid

/-- A committed write transaction with several modifies of the entry (the loaded object is not
refreshed in between); `none` = a modify failed and the transaction is dropped. -/
def txnMap (loaded : KeyObj) (classes : List Usage) (now cid trim : Nat) :
    KMap → List (Action × Fresh) → Option KMap
  | m, [] => some m
  | m, (a, f) :: rest =>
    match modifyEntry loaded classes m a now cid trim f with
    | none => none
    | some m' => txnMap loaded classes now cid trim m' rest

def Srv.txn (s : Srv) (acts : List (Action × Fresh)) (now cid trim : Nat) : Srv :=
  match acts with
  | [] => s
  | _ =>
    match txnMap s.loaded s.classes now cid trim s.map acts with
    | none => s
    | some m => { s with map := m, attrCid := cid }

/-- `ValueSetKeyInternal::repl_merge_valueset(&self = newer, older, trim_cid)`. -/
def replRepl (older newer : KRec) : Bool := keyReplace older.status newer.status

def replMergeMap (newer older : KMap) (t : Nat) : KMap := trimMap t (coreMerge replRepl newer older)

/-- Consumer side of an incremental replication that carries the supplier's entry
(`merge_state`: role by attribute cid). -/
def Srv.replIn (c sup : Srv) (trim : Nat) : Srv :=
  if takeLeft sup.attrCid c.attrCid then
    { c with map := replMergeMap sup.map c.map trim, attrCid := sup.attrCid }
  else
    { c with map := replMergeMap c.map sup.map trim }

/-- The operations of the property's quantifier on one server (sign / verify are observations). -/
inductive Op where
  | txn (acts : List (Action × Fresh)) (now cid trim : Nat)
  | restart
  | replIn (sup : Srv) (trim : Nat)

def Srv.step (s : Srv) : Op → Srv
  | .txn acts now cid trim => s.txn acts now cid trim
  | .restart => s
  | .replIn sup trim => s.replIn sup trim

def Srv.run (s : Srv) (ops : List Op) : Srv := ops.foldl Srv.step s

/-! ## Two replicas: what the supplier offers (`ReplIncrementalEntryV1::new`)

A cid is `ts * 4 + origin` (origin = rank of the server uuid, 0 = the nil uuid of trim cids).
A node knows, per origin server, the time of the newest change to this entry it holds (its RUV
maximum restricted to this entry; changes of one origin are delivered in order). -/

def cidTs (c : Nat) : Nat := c / 4
def cidOrigin (c : Nat) : Nat := c % 4

structure Node where
  id : Nat
  srv : Srv
  seen : List (Nat × Nat)

/-- The newest change time of origin `o` this node holds (0 = none). -/
def Node.seenOf (n : Node) (o : Nat) : Nat := (lookup n.seen o).getD 0

/-- Per origin the later of two times. -/
def seenMerge (a b : List (Nat × Nat)) : List (Nat × Nat) :=
  b.foldl (fun m e => mapInsert m e.1 (max ((lookup m e.1).getD 0) e.2)) a

/-- `ReplIncrementalEntryV1::new`: the `KeyInternalData` attribute is put into the supply iff its
change cid lies in the range the consumer lacks from *that cid's origin server*
(`ctx_range.get(&cid.s_uuid).map(|r| cid.ts <= r.ts_max && cid.ts > r.ts_min).unwrap_or(false)`;
the range exists iff the supplier has more of that origin than the consumer). -/
def offered (sup c : Node) : Bool :=
  if c.seenOf (cidOrigin sup.srv.attrCid) < sup.seenOf (cidOrigin sup.srv.attrCid) then
    attrWithin (cidTs sup.srv.attrCid) (c.seenOf (cidOrigin sup.srv.attrCid))
      (sup.seenOf (cidOrigin sup.srv.attrCid))
  else false

/-- A committed write transaction on a node (a dropped one leaves no change behind). -/
def Node.txn (n : Node) (acts : List (Action × Fresh)) (now cid trim : Nat) : Node :=
  match acts with
  | [] => n
  | _ =>
    match txnMap n.srv.loaded n.srv.classes now cid trim n.srv.map acts with
    | none => n
    | some _ =>
      { n with srv := n.srv.txn acts now cid trim
               seen := mapInsert n.seen n.id (max (n.seenOf n.id) (cidTs cid)) }

/-- Incremental replication `sup → c` with the partner's stored map as transmitted (`supMap`
= `sup.srv.map`, or with one key retired in flight). -/
def Node.pull (c sup : Node) (supMap : KMap) (trim : Nat) : Node :=
  { c with srv := if offered sup c then c.srv.replIn { sup.srv with map := supMap } trim else c.srv
           seen := seenMerge c.seen sup.seen }

/-- Operations of a pair of replicas `(a, b)`. -/
inductive NetOp where
  | txnA (acts : List (Action × Fresh)) (now cid trim : Nat)
  | txnB (acts : List (Action × Fresh)) (now cid trim : Nat)
  | pullA (trim : Nat)   -- a pulls from b
  | pullB (trim : Nat)   -- b pulls from a

def netStep (ab : Node × Node) : NetOp → Node × Node
  | .txnA acts now cid trim => (ab.1.txn acts now cid trim, ab.2)
  | .txnB acts now cid trim => (ab.1, ab.2.txn acts now cid trim)
  | .pullA trim => (ab.1.pull ab.2 ab.2.srv.map trim, ab.2)
  | .pullB trim => (ab.1, ab.2.pull ab.1 ab.1.srv.map trim)

def netRun (ab : Node × Node) (ops : List NetOp) : Node × Node := ops.foldl netStep ab

/-- Two replicas right after the key object was created on `a` (at `cid`) and replicated to `b`. -/
def netInit (classes : List Usage) (m : KMap) (cid : Nat) : Node × Node :=
  (⟨1, ⟨classes, m, cid⟩, [(1, cidTs cid)]⟩,
   ⟨2, ⟨classes, m, cid⟩, [(1, cidTs cid)]⟩)

end Kanidm.KeyObject
