import KanidmModel.Generated.ScimFilterTables
/-
C42 — model of the SCIM filter text syntax of `proto/src/scim_v1/mod.rs`:

* `impl Display for AttrPath / ScimFilter / ScimComplexFilter`  ↦ `printF`, `printC`
* `peg::parser!{ grammar scimfilter() }`                         ↦ `parse`, `parseComplex`

Text is `List Char` (Lean `Char` = Unicode scalar value = Rust `char`).  `ScimFilter` and
`ScimComplexFilter` have textually identical `or`/`and`/`not`/parenthesis rules, so both are
`Tree leaf` here and the `precedence!{}` machinery (`atom`/`infixP`/`loop`, transcribing the
code `peg-macros 0.8.6` generates: `__infix_parse`, prefix-atom closure, level-code closure)
is written once over the leaf parser; the leaves (`attrexp`, `complex_attrexp`,
`attrname[ … ]`) are separate.  Keywords, the operator tables and the depth constant come
from the generated module, i.e. from the source text as it is now.

What is abstracted (stated again in props/C42.json):
* attribute names are kept as lexed; `Attribute::from(&str)` / `SubAttribute::from(&str)`
  (case-insensitive interning of built-in names) is applied by the harness to the model's
  reply before comparing;
* a JSON number is its token (`Val.num tok`); `serde_json`'s token → `Number` conversion
  (u64/i64/f64 choice, rounding, out-of-range error) and `Number`'s `Display` are applied by
  the harness to the model's token before comparing.  JSON strings, `null`, `true`, `false`
  are concrete: escaping is `serde_json`'s `format_escaped_str`, decoding its `parse_str`;
* non-scalar JSON (`{…}` without operator characters can be lexed by `unquotedvalue`) is
  rejected by the model.
-/
namespace Kanidm.ScimFilter
open Kanidm.Gen.ScimFilter

abbrev Str := List Char

/-! ## AST -/

inductive Val where
  | null
  | bool (b : Bool)
  | num (tok : Str)
  | str (s : Str)
deriving DecidableEq, Repr

inductive Tree (α : Type) where
  | or (a b : Tree α)
  | and (a b : Tree α)
  | not (a : Tree α)
  | leaf (l : α)
deriving Repr

structure AttrPath where
  a : Str
  s : Option Str
deriving DecidableEq, Repr

/-- leaves of `ScimComplexFilter` -/
inductive CLeaf where
  | pres (s : Str)
  | cmp (op : Op) (s : Str) (v : Val)
deriving Repr

abbrev CFilter := Tree CLeaf

/-- leaves of `ScimFilter` (`Complex` contains a `ScimComplexFilter`, never a `ScimFilter`) -/
inductive FLeaf where
  | pres (p : AttrPath)
  | cmp (op : Op) (p : AttrPath) (v : Val)
  | complex (a : Str) (c : CFilter)
deriving Repr

abbrev Filter := Tree FLeaf

structure Kws where
  or_ : Str
  and_ : Str
  not_ : Str

def fKwD : Kws := ⟨dispOr, dispAnd, dispNot⟩
def cKwD : Kws := ⟨dispOrC, dispAndC, dispNotC⟩
def fKwG : Kws := ⟨gramOr, gramAnd, gramNot⟩
def cKwG : Kws := ⟨gramOrC, gramAndC, gramNotC⟩

/-! ## Printer (`Display`) -/

def hexDigit (n : Nat) : Char :=
  if n < 10 then Char.ofNat (48 + n) else Char.ofNat (87 + n)

/-- `serde_json::ser::format_escaped_str_contents`, one character. -/
def escapeChar (c : Char) : Str :=
  if c = '"' then ['\\', '"']
  else if c = '\\' then ['\\', '\\']
  else if c = '\x08' then ['\\', 'b']
  else if c = '\x0c' then ['\\', 'f']
  else if c = '\n' then ['\\', 'n']
  else if c = '\r' then ['\\', 'r']
  else if c = '\t' then ['\\', 't']
  else if c.toNat < 32 then ['\\', 'u', '0', '0', hexDigit (c.toNat / 16), hexDigit (c.toNat % 16)]
  else [c]

def escapeStr : Str → Str
  | [] => []
  | c :: r => escapeChar c ++ escapeStr r

/-- `Display for serde_json::Value` on scalars. -/
def printVal : Val → Str
  | .null => ['n', 'u', 'l', 'l']
  | .bool true => ['t', 'r', 'u', 'e']
  | .bool false => ['f', 'a', 'l', 's', 'e']
  | .num tok => tok
  | .str s => '"' :: escapeStr s ++ ['"']

/-- `Display for AttrPath`: `"{a}.{s}"` / `"{a}"`. -/
def printPath (p : AttrPath) : Str :=
  match p.s with
  | some sub => p.a ++ '.' :: sub
  | none => p.a

/-- `Or`/`And`/`Not` arms of `Display for ScimFilter` / `ScimComplexFilter`:
`"({this} or {that})"`, `"({this} and {that})"`, `"(not ({expr}))"`. -/
def printTree (kw : Kws) (pl : α → Str) : Tree α → Str
  | .or a b => '(' :: printTree kw pl a ++ ' ' :: kw.or_ ++ ' ' :: printTree kw pl b ++ [')']
  | .and a b => '(' :: printTree kw pl a ++ ' ' :: kw.and_ ++ ' ' :: printTree kw pl b ++ [')']
  | .not a => '(' :: kw.not_ ++ ' ' :: '(' :: printTree kw pl a ++ [')', ')']
  | .leaf l => pl l

/-- `"({subattr} pr)"`, `"({subattr} KW {value})"`. -/
def printCLeaf : CLeaf → Str
  | .pres s => '(' :: s ++ ' ' :: dispPrC ++ [')']
  | .cmp op s v => '(' :: s ++ ' ' :: dispKwC op ++ ' ' :: printVal v ++ [')']

def printC (c : CFilter) : Str := printTree cKwD printCLeaf c

/-- `"({attrpath} pr)"`, `"({attrpath} KW {value})"`, `"{attrname}[{expr}]"`. -/
def printFLeaf : FLeaf → Str
  | .pres p => '(' :: printPath p ++ ' ' :: dispPr ++ [')']
  | .cmp op p v => '(' :: printPath p ++ ' ' :: dispKw op ++ ' ' :: printVal v ++ [')']
  | .complex a c => a ++ '[' :: printC c ++ [']']

def printF (f : Filter) : Str := printTree fKwD printFLeaf f

/-! ## Lexical rules of the grammar -/

/-- `rule separator() = ['\n' | ' ' | '\t']` -/
def isSep (c : Char) : Bool := c == '\n' || c == ' ' || c == '\t'

/-- `rule operator() = ['\n' | ' ' | '\t' | '(' | ')' | '[' | ']']` -/
def isOpChar (c : Char) : Bool :=
  c == '\n' || c == ' ' || c == '\t' || c == '(' || c == ')' || c == '[' || c == ']'

/-- first character class of `rule attrstring()`: `['a'..='z' | 'A'..='Z']` -/
def isAttrFirst (c : Char) : Bool :=
  (97 ≤ c.toNat && c.toNat ≤ 122) || (65 ≤ c.toNat && c.toNat ≤ 90)

/-- second character class: `['a'..='z' | 'A'..='Z' | '0'..='9' | '-' | '_']` -/
def isAttrRest (c : Char) : Bool :=
  (97 ≤ c.toNat && c.toNat ≤ 122) || (65 ≤ c.toNat && c.toNat ≤ 90) ||
  (48 ≤ c.toNat && c.toNat ≤ 57) || c == '-' || c == '_'

/-- `rule attrstring()`: one first-class char then a greedy run of second-class chars. -/
def lexAttr : Str → Option (Str × Str)
  | [] => none
  | c :: r => if isAttrFirst c then some (c :: r.takeWhile isAttrRest, r.dropWhile isAttrRest) else none

/-- `separator()+` (greedy, at least one). -/
def seps1 : Str → Option Str
  | [] => none
  | c :: r => if isSep c then some (r.dropWhile isSep) else none

/-- a string literal of the grammar. -/
def lit : Str → Str → Option Str
  | [], s => some s
  | _ :: _, [] => none
  | k :: ks, c :: s => if k = c then lit ks s else none

/-! ## JSON scalars (`serde_json::from_str::<Value>` restricted to scalars) -/

def hexVal (c : Char) : Option Nat :=
  let n := c.toNat
  if 48 ≤ n && n ≤ 57 then some (n - 48)
  else if 97 ≤ n && n ≤ 102 then some (n - 87)
  else if 65 ≤ n && n ≤ 70 then some (n - 55)
  else none

/-- `decode_hex_escape`: four hex digits. -/
def hex4 (a b c d : Char) : Option Nat :=
  match hexVal a, hexVal b, hexVal c, hexVal d with
  | some a, some b, some c, some d => some (a * 4096 + b * 256 + c * 16 + d)
  | _, _, _, _ => none

/-- the one-character escapes of `parse_escape`. -/
def simpleEscape (e : Char) : Option Char :=
  if e = '"' then some '"' else if e = '\\' then some '\\' else if e = '/' then some '/'
  else if e = 'b' then some '\x08' else if e = 'f' then some '\x0c' else if e = 'n' then some '\n'
  else if e = 'r' then some '\r' else if e = 't' then some '\t' else none

def consRes (c : Char) : Option (Str × Str) → Option (Str × Str)
  | none => none
  | some (t, rest) => some (c :: t, rest)

/-- `parse_str` with `validate = true`, on the characters after the opening quote:
decoded contents and the text after the closing quote.  Raw characters below U+0020 are
rejected; `\uXXXX` must not be a lone surrogate (`parse_unicode_escape`). -/
def decodeStr : Str → Option (Str × Str)
  | [] => none
  | c :: r =>
    if c = '"' then some ([], r)
    else if c = '\\' then
      match r with
      | [] => none
      | e :: r1 =>
        if e = 'u' then
          match r1 with
          | h1 :: h2 :: h3 :: h4 :: r2 =>
            match hex4 h1 h2 h3 h4 with
            | none => none
            | some n =>
              if 0xDC00 ≤ n ∧ n ≤ 0xDFFF then none          -- lone trailing surrogate
              else if 0xD800 ≤ n ∧ n ≤ 0xDBFF then
                match r2 with
                | b :: u :: g1 :: g2 :: g3 :: g4 :: r3 =>
                  if b = '\\' ∧ u = 'u' then
                    match hex4 g1 g2 g3 g4 with
                    | none => none
                    | some n2 =>
                      if 0xDC00 ≤ n2 ∧ n2 ≤ 0xDFFF then
                        consRes (Char.ofNat ((n - 0xD800) * 1024 + (n2 - 0xDC00) + 0x10000)) (decodeStr r3)
                      else none
                  else none
                | _ => none
              else consRes (Char.ofNat n) (decodeStr r2)
          | _ => none
        else
          match simpleEscape e with
          | none => none
          | some x => consRes x (decodeStr r1)
    else if c.toNat < 32 then none
    else consRes c (decodeStr r)
termination_by s => s.length
decreasing_by all_goals (simp only [List.length_cons]; omega)

def isDigit (c : Char) : Bool := 48 ≤ c.toNat && c.toNat ≤ 57

def isNumChar (c : Char) : Bool :=
  isDigit c || c == '-' || c == '+' || c == '.' || c == 'e' || c == 'E'

/-- exponent part (or end) of a JSON number. -/
def numExp : Str → Bool
  | [] => true
  | c :: r =>
    if c == 'e' || c == 'E' then
      let r := match r with
        | '+' :: r' => r'
        | '-' :: r' => r'
        | r' => r'
      !r.isEmpty && r.all isDigit
    else false

/-- fraction part (or exponent, or end). -/
def numFrac : Str → Bool
  | '.' :: d :: r => isDigit d && numExp (r.dropWhile isDigit)
  | r => numExp r

/-- integer part: `0` or a nonzero digit followed by digits. -/
def numInt : Str → Bool
  | [] => false
  | c :: r =>
    if c == '0' then numFrac r
    else if isDigit c then numFrac (r.dropWhile isDigit)
    else false

/-- JSON number grammar (RFC 8259), whole token. -/
def isJsonNumber (tok : Str) : Bool :=
  tok.all isNumChar &&
  match tok with
  | '-' :: r => numInt r
  | r => numInt r

/-- JSON whitespace that can occur inside an `unquotedvalue` lexeme is `\r` only
(space, `\n`, `\t` end the lexeme). -/
def isCR (c : Char) : Bool := c == '\r'

def rtrimCR : Str → Str
  | [] => []
  | c :: r =>
    let r' := rtrimCR r
    if r'.isEmpty && isCR c then [] else c :: r'

/-- `serde_json::from_str::<Value>(lexeme)` for scalar results: skip whitespace, dispatch on
the first character (`"` string, `-`/digit number, else the three literals), then only
whitespace may follow. -/
def jsonScalar (lexeme : Str) : Option Val :=
  let t := rtrimCR (lexeme.dropWhile isCR)
  match t with
  | [] => none
  | c :: r =>
    if c = '"' then
      match decodeStr r with
      | some (s, []) => some (.str s)
      | _ => none
    else if c = '-' ∨ isDigit c = true then
      if isJsonNumber t then some (.num t) else none
    else if t = ['n', 'u', 'l', 'l'] then some .null
    else if t = ['t', 'r', 'u', 'e'] then some (.bool true)
    else if t = ['f', 'a', 'l', 's', 'e'] then some (.bool false)
    else none

/-- the `$( ['"'] ((['\\'][_]) / (!['"'][_]))* ['"'] )` scan of `rule quotedvalue()`, on the
characters after the opening quote: the body (without the closing quote) and the rest. -/
def scanQuoted : Str → Option (Str × Str)
  | [] => none
  | c :: r =>
    if c = '\\' then
      match r with
      | [] => none          -- `!['"'][_]` takes the lone backslash, then the closing quote fails at EOF
      | d :: r' =>
        match scanQuoted r' with
        | none => none
        | some (b, rest) => some ('\\' :: d :: b, rest)
    else if c = '"' then some ([], r)
    else
      match scanQuoted r with
      | none => none
      | some (b, rest) => some (c :: b, rest)

/-- `rule quotedvalue()`: the scan, then `serde_json::from_str` on the scanned lexeme. -/
def quotedVal (s : Str) : Option (Val × Str) :=
  match s with
  | [] => none
  | c :: t =>
    if c = '"' then
      match scanQuoted t with
      | none => none
      | some (body, rest) =>
        match jsonScalar ('"' :: body ++ ['"']) with
        | some v => some (v, rest)
        | none => none
    else none

/-- `rule unquotedvalue()`: `$((!operator()[_])*)` then `serde_json::from_str`. -/
def unquotedVal (s : Str) : Option (Val × Str) :=
  match jsonScalar (s.takeWhile (fun c => !isOpChar c)) with
  | some v => some (v, s.dropWhile (fun c => !isOpChar c))
  | none => none

/-- `rule value() = quotedvalue() / unquotedvalue()`. -/
def parseVal (s : Str) : Option (Val × Str) :=
  match quotedVal s with
  | some r => some r
  | none => unquotedVal s

/-! ## `attrexp` / `complex_attrexp` -/

/-- The ordered alternatives `pres() / eq() / ne() / …` after their common, deterministic
prefix `attrpath() separator()+` (PEG: `(P K₁) / (P K₂) / … = P (K₁ / K₂ / …)`):
`"pr"` alone, or `KW separator()+ value()`. -/
def tryOps : List (Str × Option Op) → Str → Option (Option (Op × Val) × Str)
  | [], _ => none
  | (kw, none) :: more, s =>
    match lit kw s with
    | some r => some (none, r)
    | none => tryOps more s
  | (kw, some op) :: more, s =>
    match ((lit kw s).bind seps1).bind parseVal with
    | some (v, r) => some (some (op, v), r)
    | none => tryOps more s

/-- `rule complex_attrexp()`; fuel and depth are unused. -/
def cLeafP (_fuel _m : Nat) (s : Str) : Option (CLeaf × Str) :=
  match lexAttr s with
  | none => none
  | some (sub, s1) =>
    match seps1 s1 with
    | none => none
    | some s2 =>
      match tryOps gramOpsC s2 with
      | none => none
      | some (none, r) => some (.pres sub, r)
      | some (some (op, v), r) => some (.cmp op sub v, r)

/-- `rule attrpath() = a:attrname() s:dot_subattr()?` -/
def lexPath (s : Str) : Option (AttrPath × Str) :=
  match lexAttr s with
  | none => none
  | some (a, s1) =>
    match s1 with
    | '.' :: s2 =>
      match lexAttr s2 with
      | some (sub, s3) => some (⟨a, some sub⟩, s3)
      | none => some (⟨a, none⟩, s1)
    | _ => some (⟨a, none⟩, s1)

/-- `rule attrexp()`. -/
def attrexp (s : Str) : Option (FLeaf × Str) :=
  match lexPath s with
  | none => none
  | some (p, s1) =>
    match seps1 s1 with
    | none => none
    | some s2 =>
      match tryOps gramOps s2 with
      | none => none
      | some (none, r) => some (.pres p, r)
      | some (some (op, v), r) => some (.cmp op p v, r)

/-! ## `precedence!{}` -/

abbrev LeafP (α : Type) := Nat → Nat → Str → Option (α × Str)

/-- `separator()+ KW separator()+` then the right operand. -/
def infixOp (kw : Str) (rhs : Str → Option (Tree α × Str)) (s : Str) : Option (Tree α × Str) :=
  (((seps1 s).bind (lit kw)).bind seps1).bind rhs

/-- `"(" e:parse_depth(max_depth) ")"` after the `"("`, where
`parse_depth(d) = limiter(d) parse_inner(d.saturating_sub(1))` and `limiter` fails on `d == 0`;
`inner m' minPrec` is `__infix_parse` of `parse_inner(m')`. -/
def group (inner : Nat → Nat → Str → Option (Tree α × Str)) (close : Char) (m : Nat) (s : Str) :
    Option (Tree α × Str) :=
  if m = 0 then none
  else
    match inner (m - 1) 0 s with
    | some (e, c :: r) => if c = close then some (e, r) else none
    | _ => none

mutual
/-- the prefix/atom closure of `parse_inner(m)`: atoms in source order —
`"not" separator()+ "(" parse_depth(m) ")"`, the leaf rules, `"(" parse_depth(m) ")"`. -/
def atom (kw : Kws) (lp : LeafP α) : Nat → Nat → Str → Option (Tree α × Str)
  | 0, _, _ => none
  | fuel + 1, m, s =>
    let notA : Option (Tree α × Str) :=
      match (lit kw.not_ s).bind seps1 with
      | some ('(' :: s1) =>
        match group (infixP kw lp fuel) ')' m s1 with
        | some (e, r) => some (.not e, r)
        | none => none
      | _ => none
    match notA with
    | some r => some r
    | none =>
      match lp fuel m s with
      | some (l, r) => some (.leaf l, r)
      | none =>
        match s with
        | '(' :: s1 => group (infixP kw lp fuel) ')' m s1
        | _ => none
/-- `__infix_parse(min_prec)`: an atom, then the operator loop. -/
def infixP (kw : Kws) (lp : LeafP α) : Nat → Nat → Nat → Str → Option (Tree α × Str)
  | 0, _, _, _ => none
  | fuel + 1, m, minPrec, s =>
    match atom kw lp fuel m s with
    | none => none
    | some (lhs, r) => loop kw lp fuel m minPrec lhs r
/-- the `loop { level_code(…) }`: level 0 is `or`, level 1 is `and`, both left-associative
(`a:(@) … b:@` ⇒ right operand parsed at `prec + 1`); a level is tried when `prec >= min_prec`. -/
def loop (kw : Kws) (lp : LeafP α) : Nat → Nat → Nat → Tree α → Str → Option (Tree α × Str)
  | 0, _, _, _, _ => none
  | fuel + 1, m, minPrec, lhs, s =>
    match (if minPrec ≤ 0 then infixOp kw.or_ (infixP kw lp fuel m 1) s else none) with
    | some (rhs, r) => loop kw lp fuel m minPrec (.or lhs rhs) r
    | none =>
      match (if minPrec ≤ 1 then infixOp kw.and_ (infixP kw lp fuel m 2) s else none) with
      | some (rhs, r) => loop kw lp fuel m minPrec (.and lhs rhs) r
      | none => some (lhs, s)
end

/-- `rule parse_complex_depth(d)` followed by nothing: used for `attr[ … ]`. -/
def parseCDepth (fuel d : Nat) (s : Str) : Option (CFilter × Str) :=
  if d = 0 then none else infixP cKwG cLeafP fuel (d - 1) 0 s

/-- leaf atoms of `parse_inner` in source order:
`a:attrname() "[" e:parse_complex_depth(max_depth) "]"`, then `attrexp()`. -/
def fLeafP (fuel m : Nat) (s : Str) : Option (FLeaf × Str) :=
  let cx : Option (FLeaf × Str) :=
    match lexAttr s with
    | some (a, '[' :: s1) =>
      match group (infixP cKwG cLeafP fuel) ']' m s1 with
      | some (e, r) => some (.complex a e, r)
      | none => none
    | _ => none
  match cx with
  | some r => some r
  | none => attrexp s

/-- recursion fuel: every nested call consumes input or is one of ≤ 3 calls per consumed
character, so this bound is never reached (correspondence-checked; the round-trip theorem
proves it sufficient for printed filters). -/
def fuelFor (s : Str) : Nat := 3 * s.length + 8

/-- `rule parse_depth(d)` as an entry point: whole input must be consumed. -/
def parseDepth (d : Nat) (s : Str) : Option Filter :=
  if d = 0 then none
  else
    match infixP fKwG fLeafP (fuelFor s) (d - 1) 0 s with
    | some (f, []) => some f
    | _ => none

/-- `ScimFilter::from_str` = `scimfilter::parse` = `parse_depth(SCIM_FILTER_MAX_DEPTH)`. -/
def parse (s : Str) : Option Filter := parseDepth maxDepth s

/-- `ScimComplexFilter::from_str` = `scimfilter::parse_complex`. -/
def parseComplex (s : Str) : Option CFilter :=
  match parseCDepth (fuelFor s) maxDepth s with
  | some (c, []) => some c
  | _ => none

end Kanidm.ScimFilter
