import KanidmModel.Filter.Syntax
/-
C41 model, part 0: the vocabulary the generated tables (`Generated/ProtoFilterTables.lean`) are
written in, and the protocol filter syntax trees.

  * `LF`  = `ldap3_proto::proto::LdapFilter` (attribute descriptions and assertion values are byte
            strings, exactly as they arrive)
  * `SF`  = `kanidm_proto::scim_v1::ScimFilter` (the attribute of an `AttrPath` is already an
            `Attribute`, i.e. an atom; `sub` = the path carries a sub-attribute; `J` = the JSON
            comparison value)
  * `LArm…`/`SArm`/`Tmpl` = what one `match` arm of `FilterComp::from_ldap_ro` / `from_scim_ro`
            (`server/lib/src/filter.rs`) does.

Import-free apart from the shared filter syntax (core Lean only).
-/
namespace Kanidm.ProtoFilter
open Kanidm.Filter

/-- the `OperationError`s the two translations can return -/
inductive TErr where
  | resourceLimit | filterGeneration | invalidAttributeName | invalidAttribute
  deriving DecidableEq, Repr, Inhabited

/-- `LdapFilter` -/
inductive LF where
  | and (l : List LF)
  | or (l : List LF)
  | not (f : LF)
  | equality (a v : List Nat)
  | substring (a : List Nat) (ini : Option (List Nat)) (any : List (List Nat)) (fin : Option (List Nat))
  | greaterOrEqual (a v : List Nat)
  | lessOrEqual (a v : List Nat)
  | present (a : List Nat)
  | approx (a v : List Nat)
  | extensible
  deriving Repr, Inhabited

/-- a JSON comparison value of a SCIM filter -/
inductive J where
  | str (s : List Nat) | num (n : Nat) | bool (b : Bool) | other
  deriving DecidableEq, Repr, Inhabited

/-- the attribute operators of RFC 7644 §3.4.2.2 -/
inductive SOp where
  | pr | eq | ne | co | sw | ew | gt | lt | ge | le
  deriving DecidableEq, Repr, Inhabited

/-- `ScimFilter` -/
inductive SF where
  | cmp (op : SOp) (a : Nat) (sub : Bool) (v : J)
  | not (f : SF)
  | or (l r : SF)
  | and (l r : SF)
  | complex
  deriving Repr, Inhabited

/-- `FilterComp::And` / `FilterComp::Or` as a wrapper of translated children -/
inductive GroupK where
  | and | or
  deriving DecidableEq, Repr, Inhabited

/-- the three substring term constructors -/
inductive SubK where
  | stw | cnt | enw
  deriving DecidableEq, Repr, Inhabited

/-- arm of `from_ldap_ro` for a variant holding a list of filters (`And`, `Or`) -/
inductive ListArm where
  | group (k : GroupK) | reject
  deriving DecidableEq, Repr, Inhabited

/-- arm for the variant holding one boxed filter (`Not`) -/
inductive BoxArm where
  | neg | reject
  deriving DecidableEq, Repr, Inhabited

/-- arm for a variant holding (attribute, value): `eq spnInvalid` = `Eq(map a, clone v)`, a value
that does not parse is an error unless `spnInvalid` and the attribute is `spn`, then `Invalid(a)` -/
inductive AvArm where
  | eq (spnInvalid : Bool) | reject
  deriving DecidableEq, Repr, Inhabited

/-- arm for `Present` -/
inductive AArm where
  | pres | reject
  deriving DecidableEq, Repr, Inhabited

/-- arm for `Substring`: constructor used for the initial / each any / the final component, and
the wrapper of the term list -/
inductive SubArm where
  | sub (ini any fin : SubK) (wrap : GroupK) | reject
  deriving DecidableEq, Repr, Inhabited

/-- a `FilterComp` expression over one attribute `a` and one resolved value `pv` -/
inductive Tmpl where
  | pres | eq | cnt | stw | enw | lt
  | and (l : List Tmpl)
  | or (l : List Tmpl)
  | not (t : Tmpl)
  deriving Repr, Inhabited

/-- arm of `from_scim_ro` for an attribute operator without sub-attribute: rejected, or
`[scim_ordering_supported(a)?;] [let pv = resolve_scim_json_get(a, v)?;] template` -/
inductive SArm where
  | reject
  | tr (ordGuard resolve : Bool) (t : Tmpl)
  deriving Repr, Inhabited

mutual
/-- the `FilterComp` a template denotes -/
def Tmpl.inst (a : Nat) (pv : Val) : Tmpl → FC
  | .pres => .pres a
  | .eq => .eq a pv
  | .cnt => .cnt a pv
  | .stw => .stw a pv
  | .enw => .enw a pv
  | .lt => .lessThan a pv
  | .and l => .and (Tmpl.instList a pv l)
  | .or l => .or (Tmpl.instList a pv l)
  | .not t => .andnot (t.inst a pv)
def Tmpl.instList (a : Nat) (pv : Val) : List Tmpl → List FC
  | [] => []
  | t :: ts => t.inst a pv :: Tmpl.instList a pv ts
end

def GroupK.wrap : GroupK → List FC → FC
  | .and, l => .and l
  | .or, l => .or l

def SubK.term : SubK → Nat → Val → FC
  | .stw, a, v => .stw a v
  | .cnt, a, v => .cnt a v
  | .enw, a, v => .enw a v

/-- `str::to_lowercase` on ASCII bytes (other scripts are outside the model) -/
def lowerByte (c : Nat) : Nat := if 65 ≤ c ∧ c ≤ 90 then c + 32 else c

end Kanidm.ProtoFilter
