import KanidmModel.Cid
import KanidmModel.Generated.RecycleOps
/-!
# Model of the recycle-bin lifecycle (C26)

Transcription of what `server/lib/src/server/delete.rs` (`delete`), `server/recycle.rs`
(`revive_recycled`, `purge_recycled`, `purge_tombstones`), `be/mod.rs` (`reap_tombstones`),
`repl/ruv.rs` (`trim_up_to`), `repl/entry.rs` (`can_delete`), `entry.rs` (`to_recycled`,
`to_revived`, `to_tombstone`), `plugins/refint.rs` (`remove_references`, the "new references
must be live" and reference-loop checks) and `plugins/memberof.rs` (`pre_delete`, the
directmemberof recomputation of the entries an operation marks as affected) DO to an entry on
its way  live → recycled → tombstone → gone,  one committed write transaction per operation,
on a time axis of `Nat` nanoseconds.

* Every write transaction is stamped `ts = Cid::new_lamport(ct, cid_max.ts)` (C07's generated
  operator) and refused when `ts − CHANGELOG_MAX_AGE` underflows (`QueryServer::write`).
* `purge_recycled`: recycled entries whose `last_modified_cid` is `purgeRecycledOp` (generated:
  `<`) the cut-off `Cid::sub_secs(ts, RECYCLEBIN_MAX_AGE)` become tombstones at `ts`.
* `purge_tombstones`: tombstones whose `at` is in the trimmed RUV range (`trimRangeOp`) and
  `can_delete` (`canDeleteOp`) relative to `trim_cid = sub_secs(ts, CHANGELOG_MAX_AGE)` are removed.
* Cids are compared with C07's `cidLt` (generated field order), the cut-offs carry the nil uuid.

Scope: membership graphs are *flat* (the members of a group are persons or certificates; an
operation that would nest groups answers `unsupported`) — the transitive closure and its worklist
are C17's model.  In a flat graph `apply_memberof` is exactly "recompute directmemberof of the
affected live entries from the live groups listing them".  Uuids are naturals in byte order.
-/
namespace Kanidm.Recycle
open Kanidm.Gen.Recycle

def NS : Nat := 1000000000

inductive Kind where
  | person | group | cert
deriving DecidableEq, Repr

inductive St where
  | live | recycled | tomb
deriving DecidableEq, Repr

structure Entry where
  id : Nat
  kind : Kind
  st : St
  /-- timestamp of `last_modified_cid`; for a tombstone also the `at` of its change state.
  Only tracked faithfully while the entry is not live (a delete overwrites it). -/
  lastMod : Nat
  /-- `member` (groups) -/
  member : List Nat
  /-- `directmemberof` -/
  dmo : List Nat
  /-- `recycled_directmemberof` -/
  rdmo : List Nat
  /-- `refers` (client certificates: the entry whose deletion cascades to this one) -/
  refers : Option Nat
  /-- `cascade_deleted` -/
  casc : Option Nat
deriving DecidableEq, Repr

structure State where
  es : List Entry
  /-- committed `cid_max.ts` -/
  maxTs : Nat
  /-- this server's uuid (the `s_uuid` of every cid it stamps) -/
  sid : Nat
deriving DecidableEq, Repr

/-! ## cids -/

def cmpCid : CmpOp → Cid.Cid → Cid.Cid → Bool
  | .lt, a, b => Cid.cidLt a b
  | .le, a, b => !Cid.cidLt b a
  | .gt, a, b => Cid.cidLt b a
  | .ge, a, b => !Cid.cidLt a b

/-- `Cid::sub_secs`: `ts.checked_sub(Duration::from_secs(secs))`, nil server uuid. -/
def subSecs (ts secs : Nat) : Option Cid.Cid :=
  if secs * NS ≤ ts then some ⟨ts - secs * NS, subSecsUuid⟩ else none

/-! ## lookups and searches -/

def find (es : List Entry) (x : Nat) : Option Entry := es.find? (fun e => e.id == x)

def isLive (es : List Entry) (x : Nat) : Bool :=
  match find es x with
  | some e => e.st == .live
  | none => false

def isGroupId (es : List Entry) (x : Nat) : Bool :=
  match find es x with
  | some e => e.kind == .group
  | none => false

def hasRefers (es : List Entry) (x : Nat) : Bool :=
  match find es x with
  | some e => e.refers.isSome
  | none => false

/-- A normal search (`filter!`, `into_ignore_hidden`): live entries only. -/
def searchNormal (es : List Entry) : List Nat := (es.filter (fun e => e.st == .live)).map (·.id)

/-- The recycle-bin search (`filter_rec!`, `into_recycled`): recycled entries only. -/
def searchRecycleBin (es : List Entry) : List Nat := (es.filter (fun e => e.st == .recycled)).map (·.id)

def searchTombstones (es : List Entry) : List Nat := (es.filter (fun e => e.st == .tomb)).map (·.id)

/-- The search of `do_leaf_memberof`: live groups whose `member` contains `x`. -/
def dmoOf (es : List Entry) (x : Nat) : List Nat :=
  (es.filter (fun g => g.kind == .group && g.st == .live && g.member.contains x)).map (·.id)

/-- `apply_memberof` on a flat graph: every live affected entry gets its directmemberof
recomputed from the committed member lists. -/
def recE (aff : Entry → Bool) (es0 : List Entry) (e : Entry) : Entry :=
  if e.st == .live && aff e then { e with dmo := dmoOf es0 e.id } else e

def recompute (aff : Entry → Bool) (es : List Entry) : List Entry := es.map (recE aff es)

/-! ## operations -/

inductive Op where
  | createPerson (id : Nat)
  | createGroup (id : Nat) (members : List Nat)
  /-- a client certificate entry with `refers = p` -/
  | createCert (id : Nat) (p : Nat)
  /-- `internal_modify_uuid(g, Present(member, m))` -/
  | addMember (g m : Nat)
  /-- `internal_modify_uuid(g, Removed(member, m))` -/
  | remMember (g m : Nat)
  /-- `internal_modify_uuid(id, purge_and_set(description, ..))`: a normal modify; like every
  modify it makes memberof recompute the entry it wrote -/
  | touch (id : Nat)
  /-- `internal_delete` with a normal (hidden-excluding) filter matching these uuids -/
  | delete (ids : List Nat)
  /-- `revive_recycled` by a recycle-bin administrator, filter `uuid = id` (`into_recycled`) -/
  | revive (id : Nat)
  | purgeRecycled
  | purgeTombstones
deriving DecidableEq, Repr

inductive Err where
  | noMatch | plugin | schema | refLoop | replCid
deriving DecidableEq, Repr

inductive Res where
  /-- the operation succeeded: new entries, and for the purges the number they report -/
  | ok (es : List Entry) (n : Option Nat)
  | err (e : Err)
  /-- outside the model's scope (nested groups) -/
  | unsupported
  /-- `assert!(candidate_uuids.is_disjoint(&ref_candidate_uuids))` of debug builds -/
  | panic
deriving DecidableEq, Repr

def newEntry (id : Nat) (k : Kind) (ts : Nat) (ms : List Nat) (r : Option Nat) : Entry :=
  ⟨id, k, .live, ts, ms, [], [], r, none⟩

/-- `internal_create` of one entry. -/
def opCreate (es : List Entry) (ts id : Nat) (k : Kind) (ms : List Nat) (r : Option Nat) : Res :=
  if (find es id).isSome then .err .plugin
  else if ms.any (fun m => isGroupId es m || m == id) then .unsupported
  else if !(ms.all (isLive es)) then .err .plugin
  else
    let done : Res :=
      .ok (recompute (fun e => e.id == id || ms.contains e.id) (es ++ [newEntry id k ts ms r])) none
    match r with
    | none => done
    | some p =>
      if p == id then .err .refLoop
      else if !(isLive es p) then .err .plugin
      else if hasRefers es p then .err .refLoop
      else done

def addMemE (g m : Nat) (e : Entry) : Entry :=
  if e.id == g then { e with member := e.member ++ [m] } else e

def remMemE (g m : Nat) (e : Entry) : Entry :=
  if e.id == g then { e with member := e.member.filter (· != m) } else e

def opAdd (es : List Entry) (g m : Nat) : Res :=
  match find es g with
  | none => .ok es none
  | some ge =>
    if ge.st != .live then .ok es none
    else if ge.kind != .group then .err .schema
    else if isGroupId es m then .unsupported
    else if ge.member.contains m then .ok (recompute (fun e => e.id == g) es) none
    else if !(isLive es m) then .err .plugin
    else
      .ok (recompute (fun e => e.id == g || e.id == m) (es.map (addMemE g m))) none

def opRem (es : List Entry) (g m : Nat) : Res :=
  match find es g with
  | none => .ok es none
  | some ge =>
    if ge.st != .live then .ok es none
    else if !(ge.member.contains m) then .ok (recompute (fun e => e.id == g) es) none
    else
      .ok (recompute (fun e => e.id == g || e.id == m) (es.map (remMemE g m))) none

/-- delete: the filter's live matches. -/
def inT (ids : List Nat) (e : Entry) : Bool := e.st == .live && ids.contains e.id

/-- delete: live entries whose `refers` points at a direct candidate (`filter!(refers = ..)`). -/
def inC (es : List Entry) (ids : List Nat) (e : Entry) : Bool :=
  e.st == .live &&
    (match e.refers with
     | some p => es.any (fun t => inT ids t && t.id == p)
     | none => false)

def inD (es : List Entry) (ids : List Nat) (e : Entry) : Bool := inT ids e || inC es ids e

/-- `MemberOf::pre_delete` + cascade marking + `to_recycled`. -/
def recycleE (es : List Entry) (ids : List Nat) (ts : Nat) (e : Entry) : Entry :=
  if inD es ids e then
    { e with st := .recycled, lastMod := ts,
             rdmo := if preDeleteStashesDmo then e.dmo else [],
             dmo := [],
             casc := if inC es ids e && deleteMarksCascade then e.refers else e.casc }
  else e

def refsAny (d : List Nat) (e : Entry) : Bool :=
  e.member.any d.contains || e.dmo.any d.contains || e.rdmo.any d.contains ||
    (match e.refers with
     | some p => d.contains p
     | none => false)

/-- `refint::remove_references` (post_delete): every entry of any state that references a
deleted uuid in a reference attribute is rewritten without it — at this transaction's cid. -/
def unrefE (d : List Nat) (ts : Nat) (e : Entry) : Entry :=
  if refsAny d e then
    { e with lastMod := ts,
             member := e.member.filter (fun m => !d.contains m),
             dmo := e.dmo.filter (fun m => !d.contains m),
             rdmo := e.rdmo.filter (fun m => !d.contains m),
             refers := match e.refers with
               | some p => if d.contains p then none else some p
               | none => none }
  else e

def opDelete (es : List Entry) (ts : Nat) (ids : List Nat) : Res :=
  if ids.isEmpty then .err .schema
  else if !(es.any (inT ids)) then .err .noMatch
  else if es.any (fun e => inT ids e && inC es ids e) then .panic
  else
    let d := (es.filter (inD es ids)).map (·.id)
    let aff := (es.filter (fun g => inD es ids g && g.kind == .group)).flatMap (·.member)
    .ok (recompute (fun e => aff.contains e.id)
      ((es.map (recycleE es ids ts)).map (unrefE d ts))) none

/-- revive: the recycled target and the recycled entries it cascade-deleted
(`filter_rec!(cascade_deleted = x)`). -/
def inR (x : Nat) (e : Entry) : Bool := e.st == .recycled && (e.id == x || e.casc == some x)

/-- "Restore their Refers attribute." -/
def revRefers (e : Entry) : Option Nat :=
  if reviveRestoresRefers then
    (match e.casc with
     | some r => some r
     | none => e.refers)
  else e.refers

/-- `to_revived`. -/
def reviveE (x ts : Nat) (e : Entry) : Entry :=
  if inR x e then
    { e with st := .live, lastMod := ts, refers := revRefers e,
             casc := if revivePurgesCascadeDeleted then none else e.casc,
             rdmo := if revivePurgesRdmo then [] else e.rdmo }
  else e

/-- the `internal_modify(filter_all uuid = g, Present(member, r))` of the revive tail: the
revived entries whose recycled_directmemberof names `g`. -/
def reviveAdds (es : List Entry) (x : Nat) (g : Entry) : List Nat :=
  (es.filter (fun r => inR x r && r.rdmo.contains g.id && !g.member.contains r.id)).map (·.id)

/-- refint on revive: a reference restored from the cascade mark must point at a live entry
(the list already holds the revived entries) -/
def reviveRefBad (es1 : List Entry) (e : Entry) : Bool :=
  match e.casc with
  | some r => !(isLive es1 r)
  | none => false

/-- refint on revive: the target of a `refers` must not itself refer to something -/
def reviveLoopBad (es1 : List Entry) (e : Entry) : Bool :=
  match revRefers e with
  | some r => hasRefers es1 r
  | none => false

def reviveAddE (es : List Entry) (x : Nat) (g : Entry) : Entry :=
  if g.kind == .group && g.st != .tomb then { g with member := g.member ++ reviveAdds es x g } else g

def opRevive (es : List Entry) (ts x : Nat) : Res :=
  match find es x with
  | none => .err .noMatch
  | some xe =>
    if xe.st != .recycled then .err .noMatch
    else if es.any (fun e => inR x e && e.kind == .cert && (revRefers e).isNone) then .err .schema
    else if es.any (fun e => inR x e && reviveRefBad (es.map (reviveE x ts)) e) then .err .plugin
    else if es.any (fun e => inR x e && reviveLoopBad (es.map (reviveE x ts)) e) then .err .refLoop
    else
      let revIds := (es.filter (inR x)).map (·.id)
      let person := es.any (fun e => inR x e && e.kind == .person)
      .ok (recompute (fun e => revIds.contains e.id || (person && e.kind == .person))
        ((es.map (reviveE x ts)).map (reviveAddE es x))) none

/-- `to_tombstone`: only uuid, class and the two cids survive. -/
def tombE (ts : Nat) (e : Entry) : Entry :=
  { e with st := .tomb, lastMod := ts, member := [], dmo := [], rdmo := [], refers := none, casc := none }

/-- `purge_recycled`'s search: `class = recycled ∧ last_modified_cid < cut`. -/
def purgeSel (sid : Nat) (cut : Cid.Cid) (e : Entry) : Bool :=
  e.st == .recycled && cmpCid purgeRecycledOp ⟨e.lastMod, sid⟩ cut

def purgeE (sid : Nat) (cut : Cid.Cid) (ts : Nat) (e : Entry) : Entry :=
  if purgeSel sid cut e then tombE ts e else e

def opPurgeRecycled (es : List Entry) (ts sid : Nat) : Res :=
  match subSecs ts purgeRecycledWindow with
  | none => .err .replCid
  | some cut => .ok (es.map (purgeE sid cut ts)) (some (es.filter (purgeSel sid cut)).length)

/-- `reap_tombstones`: in the trimmed RUV range and `can_delete`. -/
def reapSel (sid : Nat) (trim : Cid.Cid) (e : Entry) : Bool :=
  cmpCid trimRangeOp ⟨e.lastMod, sid⟩ trim &&
    (if e.st == .tomb then cmpCid canDeleteOp ⟨e.lastMod, sid⟩ trim else canDeleteLive)

def opPurgeTombstones (es : List Entry) (sid : Nat) (trim : Cid.Cid) : Res :=
  .ok (es.filter (fun e => !reapSel sid trim e)) (some (es.filter (reapSel sid trim)).length)

/-- The cid timestamp `QueryServer::write(ct)` stamps. -/
def txnTs (s : State) (ct : Nat) : Nat := Kanidm.Gen.Cid.lamportTs ct s.maxTs

def applyOp (s : State) (ts : Nat) (trim : Cid.Cid) : Op → Res
  | .createPerson id => opCreate s.es ts id .person [] none
  | .createGroup id ms => opCreate s.es ts id .group ms.eraseDups none
  | .createCert id p => opCreate s.es ts id .cert [] (some p)
  | .addMember g m => opAdd s.es g m
  | .remMember g m => opRem s.es g m
  | .touch x => .ok (recompute (fun e => e.id == x) s.es) none
  | .delete ids => opDelete s.es ts ids
  | .revive x => opRevive s.es ts x
  | .purgeRecycled => opPurgeRecycled s.es ts s.sid
  | .purgeTombstones => opPurgeTombstones s.es s.sid trim

/-- One write transaction at clock reading `ct`: its result. -/
def apply (s : State) (ct : Nat) (op : Op) : Res :=
  match subSecs (txnTs s ct) trimWindow with
  | none => .err .replCid
  | some trim => applyOp s (txnTs s ct) trim op

/-- Is the transaction committed?  Errors drop it; the recycle purge commits only when it
touched something (actors/internal.rs), everything else commits. -/
def commits (op : Op) : Res → Bool
  | .ok _ n => !(purgeRecycledCommitsOnlyIfTouched && op == .purgeRecycled && n == some 0)
  | _ => false

/-- The committed state after the transaction. -/
def next (s : State) (ct : Nat) (op : Op) : State :=
  match apply s ct op with
  | .ok es n => if commits op (.ok es n) then { s with es := es, maxTs := txnTs s ct } else s
  | _ => s

/-- A history of transactions `(clock reading, operation)`. -/
def run (s : State) : List (Nat × Op) → State
  | [] => s
  | (ct, op) :: rest => run (next s ct op) rest

end Kanidm.Recycle
