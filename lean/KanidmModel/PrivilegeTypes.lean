/-
C33 — enumerations shared by the generated tables (`Generated/AuthTypes.lean`) and the hand
model (`Privilege.lean`).  Constructor names are the Rust variant names with the first letter
lower-cased, so the translator can emit them verbatim.  `AuthType` is C27's enumeration
(`Kanidm.AuthSession.AuthType`): the auth type a successful C27 session ends with is the
`auth_type` handed to `AuthSession::issue_uat`.
-/
import KanidmModel.AuthSession
namespace Kanidm.Privilege
export Kanidm.AuthSession (AuthType)

def AuthType.all : List AuthType :=
  [.anonymous, .password, .generatedPassword, .passwordTotp, .passwordBackupCode,
   .passwordSecurityKey, .passkey, .attestedPasskey, .oAuth2Trust]

/-- `value::SessionScope`. -/
inductive SessionScope where
  | readOnly | readWrite | privilegeCapable | synchronise
deriving DecidableEq, Repr, Inhabited

def SessionScope.all : List SessionScope :=
  [.readOnly, .readWrite, .privilegeCapable, .synchronise]

/-- `kanidm_proto::internal::UatPurpose`; the instant is in nanoseconds since the epoch. -/
inductive Purpose where
  | readOnly
  | readWrite (expiry : Option Nat)
deriving DecidableEq, Repr, Inhabited

/-- `server::identity::AccessScope`. -/
inductive AccessScope where
  | readOnly | readWrite | synchronise
deriving DecidableEq, Repr, Inhabited

/-- `value::ApiTokenScope` (stored) and `kanidm_proto::internal::ApiTokenPurpose` (in the token)
have the same three variants. -/
inductive ApiScope where
  | readOnly | readWrite | synchronise
deriving DecidableEq, Repr, Inhabited

/-- `value::SessionState`. -/
inductive SessionState where
  | expiresAt (t : Nat)
  | neverExpires
  | revokedAt
deriving DecidableEq, Repr, Inhabited

/-- `idm::authentication::ReauthRequest`. -/
inductive ReauthRequest where
  | verifyCredentials | grantReadWrite
deriving DecidableEq, Repr, Inhabited

/-- Nanoseconds per second (`Duration::from_secs`). -/
def nsPerSec : Nat := 1000000000

end Kanidm.Privilege
