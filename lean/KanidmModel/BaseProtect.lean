import KanidmModel.Access.Write
import KanidmModel.Generated.BaseProtectOps
/-
C20 — UUIDs are immutable and the system range is protected.

Transcribes
  * `/repo/server/lib/src/plugins/base.rs`
      `Base::pre_create_transform` (l.31–156: object class, uuid count match, fresh v4 uuid, the
      second loop with the range rule / internal exemption / in-request duplicates, the three
      rejecting checks after it), `Base::pre_modify` (l.159–186), `Base::pre_batch_modify`
      (l.189–219)
  * `/repo/server/lib/src/plugins/mod.rs` `run_pre_create_transform`, `run_pre_modify`,
      `run_pre_batch_modify` (is Base called and its error propagated)
  * `/repo/server/lib/src/entry.rs` `apply_modlist` (l.3363) on the `uuid` and `class` value sets,
      `assert_ava` (l.3228), `validate` (l.1112: the entry's uuid is re-read from the `uuid` value
      set, which must have exactly one value), `Entry<EntryInit,_>::get_uuid` (l.271)
  * `/repo/server/lib/src/server/create.rs` `create` (l.10–60), `server/modify.rs`
      `modify_pre_apply` (l.29–150), `server/batch_modify.rs` `batch_modify` (l.30–170),
      `server/delete.rs` `delete` — the order access check → apply_modlist → lifecycle mask guard →
      pre-plugins; the access decisions themselves are C24's model `Kanidm.Access.Write`
      (`createOp`, `modifyAllowOperation`, `batchModifyAllowOperation`, `deleteOp`), imported, not
      repeated.

Everything table- or operator-like is generated (`Kanidm.Gen.BaseProtect`, `vtranslate
base-protect`): the three uuid constants, the range comparison, the internal exemption and the
class it adds, the accepted uuid count, the order of the rejecting checks, the per-variant tables
of `pre_modify` / `pre_batch_modify` and of `apply_modlist`, the attribute compared with, and
whether the plugin runners call Base.

Atoms as in `Access.Write`: attributes / classes are positions in `Attribute` / `EntryClass`,
uuids are the 128-bit number. For a `Mod` on the `uuid` attribute the value field is the uuid.
-/
namespace Kanidm.BaseProtect
open Kanidm.Filter
open Kanidm.Access.Write
open Kanidm.Gen.Access
open Kanidm.Gen.BaseProtect

/-! ### modifications -/

/-- numbering of the `Modify` variants used by the generated tables -/
def modKind : Mod → Nat
  | .present _ _ => 0
  | .removed _ _ => 1
  | .purged _ => 2
  | .set _ _ => 3
  | .assert _ _ => 4

/-- the attribute a `Modify` names -/
def modAttr : Mod → Nat
  | .present a _ | .removed a _ | .purged a | .set a _ | .assert a _ => a

/-- `apply_modlist`, one step, on the value set of attribute `a` (`none` = attribute absent; an
emptied value set removes the attribute). Whether a variant mutates at all is the generated
`applyMutates`. -/
def stepAva (a : Nat) (cur : Option (List Nat)) (m : Mod) : Option (List Nat) :=
  if applyMutates (modKind m) && modAttr m == a then
    match m with
    | .present _ v =>
      (match cur with
       | some vs => some (if vs.contains v then vs else vs ++ [v])
       | none => some [v])
    | .removed _ v =>
      (match cur with
       | some vs => let vs' := vs.filter (· != v); if vs'.isEmpty then none else some vs'
       | none => none)
    | .purged _ => none
    | .set _ vs => if vs.isEmpty then none else some vs
    | .assert _ _ => cur
  else cur

/-- `apply_modlist` on one attribute's value set. -/
def applyAva (a : Nat) (cur : Option (List Nat)) : List Mod → Option (List Nat)
  | [] => cur
  | m :: rest => applyAva a (stepAva a cur m) rest

/-- `attribute_equality(attr, value)` on a tracked value set -/
def avaContains (cur : Option (List Nat)) (v : Nat) : Bool :=
  match cur with
  | some vs => vs.contains v
  | none => false

/-- Do all `Modify::Assert`s on `uuid` / `class` hold at the point they are applied
(`assert_ava`; asserts on other attributes are not tracked and taken to hold). -/
def assertsHold (uu cls : Option (List Nat)) : List Mod → Bool
  | [] => true
  | m :: rest =>
    (match m with
     | .assert a v =>
       if a == A.Uuid then avaContains uu v
       else if a == A.Class then avaContains cls v
       else true
     | _ => true)
    && assertsHold (stepAva A.Uuid uu m) (stepAva A.Class cls m) rest

/-- `validate`: `attrs.get(Uuid)?.to_uuid_single()?` -/
def validateUuid : Option (List Nat) → Option Nat
  | some [u] => some u
  | _ => none

/-! ### Base::pre_modify / pre_batch_modify -/

/-- the closure of `Base::pre_modify`: `Err(SystemProtectedAttribute)` for this modification? -/
def preModifyRejects (m : Mod) : Bool :=
  preModifyChecks (modKind m) && modAttr m == preModifyAttr

def preBatchModifyRejects (m : Mod) : Bool :=
  preBatchModifyChecks (modKind m) && modAttr m == preBatchModifyAttr

/-- `Base::pre_modify`: `me.modlist.iter().try_for_each(..)` — `true` = `Err`. -/
def basePreModify (ml : List Mod) : Bool := ml.any preModifyRejects

/-- `Base::pre_batch_modify`: `me.modset.values().flat_map(|ml| ml.iter()).try_for_each(..)`. -/
def basePreBatchModify (modset : List (List Mod)) : Bool :=
  modset.any (fun ml => ml.any preBatchModifyRejects)

/-- `Plugins::run_pre_modify` as far as Base is concerned. -/
def runPreModify (ml : List Mod) : Bool :=
  match runPreModifyBase with
  | some _ => basePreModify ml
  | none => false

def runPreBatchModify (modset : List (List Mod)) : Bool :=
  match runPreBatchModifyBase with
  | some _ => basePreBatchModify modset
  | none => false

/-! ### Base::pre_create_transform -/

/-- A create candidate as Base reads it. -/
structure Cand where
  /-- `get_ava_set(Attribute::Uuid)` (`none` = absent) -/
  uuids : Option (List Nat)
  /-- the class value set (`[]` = absent) -/
  classes : List Nat

inductive BaseErr where
  /-- "Uuid has multiple values" -/
  | uuidCount
  /-- "Uuid duplicate detected in request" -/
  | dupInRequest
  /-- "Uuid must not be in protected range" -/
  | protectedRange
  /-- "Attempt to create UUID_DOES_NOT_EXIST" -/
  | doesNotExist
  /-- "Uuid duplicate found in database" -/
  | existsInDb
  deriving DecidableEq, Repr

def addClass (c : Nat) (cs : List Nat) : List Nat := if cs.contains c then cs else cs ++ [c]

/-- first loop (l.38–65): add `object`, settle the uuid. `fresh k` is the k-th `Uuid::new_v4()`. -/
def assignUuids (fresh : Nat → Nat) : Nat → List Cand → Except BaseErr (List (Nat × List Nat))
  | _, [] => .ok []
  | k, c :: rest =>
    let cls := addClass C.Object c.classes
    match c.uuids with
    | none =>
      (match assignUuids fresh (k + 1) rest with
       | .ok l => .ok ((fresh k, cls) :: l)
       | .error e => .error e)
    | some l =>
      if l.length != createUuidCountAccepted && createUuidCountOtherRejects then .error .uuidCount
      else
        -- second loop: `get_ava_single_uuid(Uuid).ok_or(InvalidAttribute)?`
        match validateUuid (some l) with
        | none => .error .uuidCount
        | some u =>
          (match assignUuids fresh k rest with
           | .ok r => .ok ((u, cls) :: r)
           | .error e => .error e)

/-- second loop (l.77–104): range rule, internal exemption, duplicates inside the request.
Returns the candidates, the set of uuids seen and `system_range_invalid`. -/
def rangeLoop (internal : Bool) :
    List (Nat × List Nat) → List Nat → Bool → Except BaseErr (List (Nat × List Nat) × List Nat × Bool)
  | [], seen, flag => .ok ([], seen, flag)
  | (u, cls) :: rest, seen, flag =>
    let inRange := createRangeCmp u dynamicRangeMinimum
    let exempt := createInternalExempt && internal
    let cls' := if inRange && exempt then addClass createInternalAddsClass cls else cls
    let flag' := if inRange && !exempt then (flag || createRangeFlagSet) else flag
    if seen.contains u then .error .dupInRequest
    else
      match rangeLoop internal rest (u :: seen) flag' with
      | .ok (l, s, f) => .ok ((u, cls') :: l, s, f)
      | .error e => .error e

/-- the rejecting checks after the loops, in the generated source order -/
def postLoopChecks (seen db : List Nat) (flag : Bool) : List Nat → Option BaseErr
  | [] => none
  | c :: rest =>
    let hit : Option BaseErr :=
      if c == 0 then (if flag then some .protectedRange else none)
      else if c == 1 then (if seen.contains uuidDoesNotExist then some .doesNotExist else none)
      else if c == 2 then (if seen.any (fun u => db.contains u) then some .existsInDb else none)
      else none
    match hit with
    | some e => some e
    | none => postLoopChecks seen db flag rest

/-- `Base::pre_create_transform`. `internal` = `ce.ident.is_internal()`, `db` = the uuid of every
stored entry (live, recycled or tombstone: `filter_all!`). -/
def basePreCreateTransform (internal : Bool) (fresh : Nat → Nat) (db : List Nat) (cands : List Cand) :
    Except BaseErr (List (Nat × List Nat)) :=
  match assignUuids fresh 0 cands with
  | .error e => .error e
  | .ok l =>
    match rangeLoop internal l [] false with
    | .error e => .error e
    | .ok (l', seen, flag) =>
      match postLoopChecks seen db flag createPostLoopChecks with
      | some e => .error e
      | none => .ok l'

/-- What is left of the candidates when Base is not run at all (only used when the generated
`runPreCreateTransformBase` says so). -/
def withoutBase (cands : List Cand) : List (Nat × List Nat) :=
  cands.filterMap fun c => (validateUuid c.uuids).map fun u => (u, c.classes)

/-- `Plugins::run_pre_create_transform` as far as Base is concerned. -/
def runPreCreateTransform (internal : Bool) (fresh : Nat → Nat) (db : List Nat) (cands : List Cand) :
    Except BaseErr (List (Nat × List Nat)) :=
  match runPreCreateTransformBase with
  | some _ => basePreCreateTransform internal fresh db cands
  | none => .ok (withoutBase cands)

/-! ### the operations -/

/-- An entry of a create request. -/
structure CreateReq where
  uuids : Option (List Nat)
  classes : Option (List Nat)
  /-- `get_ava_names()` -/
  attrs : List Nat
  fe : Filter.Entry

/-- what the access code reads: `get_uuid()` is `to_uuid_single()` -/
def CreateReq.toNewEnt (r : CreateReq) : NewEnt := ⟨validateUuid r.uuids, r.classes, r.attrs, r.fe⟩

def CreateReq.toCand (r : CreateReq) : Cand := ⟨r.uuids, r.classes.getD []⟩

inductive CreateOut where
  | emptyRequest
  | accessDenied
  | base (e : BaseErr)
  /-- every stage modelled passed; the other plugins, schema and the backend run next on these
  `(uuid, classes)` -/
  | proceed (ents : List (Nat × List Nat))
  deriving DecidableEq, Repr

/-- `QueryServerWriteTransaction::create` up to and including Base. -/
def createStage (id : Ident) (acps : List AcpCreate) (fresh : Nat → Nat) (db : List Nat)
    (reqs : List CreateReq) : CreateOut :=
  match createOp id acps (reqs.map CreateReq.toNewEnt) with
  | .emptyRequest => .emptyRequest
  | .proceed =>
    (match runPreCreateTransform id.isInternal fresh db (reqs.map CreateReq.toCand) with
     | .ok es => .proceed es
     | .error e => .base e)
  | _ => .accessDenied

inductive ModOut where
  | emptyRequest | noMatchingEntries | nothingToDo | accessDenied | missingEntries
  /-- `Err(OperationError::ModifyAssertionFailed)` -/
  | assertFailed
  /-- `Err(OperationError::SystemProtectedAttribute)` -/
  | protectedAttr
  | proceed
  deriving DecidableEq, Repr

/-- the lifecycle guard of `modify_pre_apply` / `batch_modify` for one entry -/
def maskChanged (e : Ent) (ml : List Mod) : Bool :=
  maskedTs e.classes != maskedTs (applyClassMods e.classes ml)

/-- `modify_pre_apply` up to and including Base. -/
def modifyStage (id : Ident) (acps : List AcpModify) (ag : List (Nat × List Nat))
    (cands : List Ent) (ml : List Mod) : ModOut :=
  if ml.isEmpty then .emptyRequest
  else if cands.isEmpty then (if id.isInternal then .nothingToDo else .noMatchingEntries)
  else if !modifyAllowOperation id acps ag cands ml then .accessDenied
  else if cands.any (fun e => !assertsHold (some [e.uuid]) e.classes ml) then .assertFailed
  else if cands.any (fun e => maskChanged e ml) then .accessDenied
  else if runPreModify ml then .protectedAttr
  else .proceed

/-- `batch_modify` up to and including Base. `nModset` = `me.modset.len()`, `pairs` = the
candidates found with `me.modset.get(&uuid)`. -/
def batchStage (id : Ident) (acps : List AcpModify) (ag : List (Nat × List Nat)) (nModset : Nat)
    (pairs : List (Ent × Option (List Mod))) : ModOut :=
  if nModset == 0 then .emptyRequest
  else if pairs.isEmpty then (if id.isInternal then .nothingToDo else .noMatchingEntries)
  else if pairs.length != nModset then .missingEntries
  else if !batchModifyAllowOperation id acps ag pairs then .accessDenied
  else if pairs.any (fun p => p.2.isNone) then .noMatchingEntries
  else if pairs.any (fun p => !assertsHold (some [p.1.uuid]) p.1.classes (p.2.getD [])) then
    .assertFailed
  else if pairs.any (fun p => maskChanged p.1 (p.2.getD [])) then .accessDenied
  else if runPreBatchModify (pairs.map (fun p => p.2.getD [])) then .protectedAttr
  else .proceed

/-- `delete` is C24's `deleteOp` unchanged (Base has no delete hook). -/
def deleteStage (id : Ident) (acps : List AcpDelete) (cands : List Ent) : OpResult :=
  deleteOp id acps cands

/-! ### the stored entries under a history of requests -/

/-- The stored entries. The position in the list is the entry's identity (entries are never
physically removed by a request: delete turns them into recycled entries). -/
abbrev State := List Ent

/-- Everything the model does not track, chosen freely (the theorems quantify over it): whether
the stages after Base (other plugins, schema validation, backend) accept, and what the untracked
fields of entry `i` (`managedBy`, `syncParent`, filter view) look like afterwards. -/
structure Havoc where
  laterOk : Bool
  rest : Nat → Ent

inductive Req where
  | create (acps : List AcpCreate) (fresh : Nat → Nat) (reqs : List CreateReq)
  /-- `sel` = which stored entries the filter selects (as visible to the identity) -/
  | modify (acps : List AcpModify) (ag : List (Nat × List Nat)) (sel : Nat → Bool) (ml : List Mod)
  | batch (acps : List AcpModify) (ag : List (Nat × List Nat)) (sel : Nat → Bool)
      (modset : List (Nat × List Mod))
  | delete (acps : List AcpDelete) (sel : Nat → Bool)

def selectFrom (sel : Nat → Bool) : Nat → List Ent → List Ent
  | _, [] => []
  | i, e :: es => if sel i then e :: selectFrom sel (i + 1) es else selectFrom sel (i + 1) es

def updateFrom (f : Nat → Ent → Ent) : Nat → List Ent → List Ent
  | _, [] => []
  | i, e :: es => f i e :: updateFrom f (i + 1) es

def newFrom (h : Havoc) : Nat → List (Nat × List Nat) → List Ent
  | _, [] => []
  | i, (u, cls) :: es => { h.rest i with uuid := u, classes := some cls } :: newFrom h (i + 1) es

/-- the entry after a modify that passed every stage -/
def modified (h : Havoc) (i : Nat) (e : Ent) (ml : List Mod) : Ent :=
  { h.rest i with
    uuid := (validateUuid (applyAva A.Uuid (some [e.uuid]) ml)).getD e.uuid
    classes := applyClassMods e.classes ml }

def uuidStillValid (e : Ent) (ml : List Mod) : Bool :=
  (validateUuid (applyAva A.Uuid (some [e.uuid]) ml)).isSome

def batchSel (sel : Nat → Bool) (modset : List (Nat × List Mod)) (st : State) (i : Nat) : Bool :=
  sel i && (match st[i]? with
            | some e => (modset.lookup e.uuid).isSome
            | none => false)

/-- One request against the stored entries. -/
def step (id : Ident) (h : Havoc) (st : State) : Req → State
  | .create acps fresh reqs =>
    match createStage id acps fresh (st.map (·.uuid)) reqs with
    | .proceed es => if h.laterOk then st ++ newFrom h st.length es else st
    | _ => st
  | .modify acps ag sel ml =>
    let cands := selectFrom sel 0 st
    match modifyStage id acps ag cands ml with
    | .proceed =>
      if h.laterOk && cands.all (fun e => uuidStillValid e ml) then
        updateFrom (fun i e => if sel i then modified h i e ml else e) 0 st
      else st
    | _ => st
  | .batch acps ag sel modset =>
    let bsel := batchSel sel modset st
    let cands := selectFrom bsel 0 st
    let pairs := cands.map (fun e => (e, modset.lookup e.uuid))
    match batchStage id acps ag modset.length pairs with
    | .proceed =>
      if h.laterOk && pairs.all (fun p => uuidStillValid p.1 (p.2.getD [])) then
        updateFrom
          (fun i e => if bsel i then modified h i e ((modset.lookup e.uuid).getD []) else e) 0 st
      else st
    | _ => st
  | .delete acps sel =>
    let cands := selectFrom sel 0 st
    match deleteStage id acps cands with
    | .proceed =>
      if h.laterOk then
        updateFrom
          (fun i e => if sel i then
              { h.rest i with uuid := e.uuid, classes := some (addClass C.Recycled (e.classes.getD [])) }
            else e) 0 st
      else st
    | _ => st

/-- A history of requests of one identity. -/
def run (id : Ident) (st : State) : List (Havoc × Req) → State
  | [] => st
  | (h, r) :: rest => run id (step id h st r) rest

/-! ### `Uuid::new_v4()` -/

/-- `uuid::Builder::from_random_bytes(r).into_uuid()`: version nibble 4 in byte 6, variant `10`
in byte 8 (as a 128-bit number). -/
def v4 (r : Nat) : Nat :=
  (r % 2 ^ 128 &&& 0xffffffffffff0fff3fffffffffffffff) ||| 0x00000000000040008000000000000000

end Kanidm.BaseProtect
