import KanidmModel.Filter.Idl
import KanidmModel.Filter.Optimise
import KanidmModel.Generated.DynGroupOps
/-
C18 model: dynamic groups (`/repo/server/lib/src/plugins/dyngroup.rs`) on top of the shared filter
model (`Filter/{Syntax,Match}` = what a filter means on one entry, `Filter/Optimise` = resolution,
`Filter/Idl` = `Backend::search` through the indexes).

What is transcribed (as coded, not as intended):

  * `DynGroupCache`  ↦ `State.cache` (uuid ↦ the *unresolved* filter, `Filter<FilterInvalid>`); it is
    only ever inserted into (never reloaded outside a schema reload, never cleaned on delete)
  * the **incremental** path of `post_create` (l.204–274) / `post_modify` (l.348–426): every cached
    filter is resolved *without* index metadata (`resolve(ident, None, …)` = `resolve_no_idx` +
    `fast_optimise`) and tested with `mask_recycled_ts().is_some() && entry_match_no_index` (the
    guards are regenerated) on the changed entries that are not themselves dyngroups (`partition` on `class = dyngroup`; in `post_modify` the pre and post
    halves are partitioned separately and then zipped); the group is fetched with an
    ignore-hidden search (so a recycled group is skipped) and members are added / removed
  * the **full** path `apply_dyngroup_change` (l.20–135): the groups of the change set are fetched
    ignore-hidden, the filter is resolved *with* index metadata (`resolve_idx` + `optimise`) and run
    through `Backend::search` over **all** stored entries (no hidden-entry exclusion in the
    filter), the answer is then filtered by `mask_recycled_ts` (the D10 fix, commit edffff2),
    `dynmember` is *replaced*, the cache updated with the `expect` test
  * delete: `to_recycled` (class += recycled), memberof `pre_delete` (directmemberof ↦
    recycled_directmemberof), refint `remove_references` (the deleted uuids leave every reference
    attribute of every stored entry, recycled ones included); **no dyngroup hook runs**
  * revive (`revive_recycled`): `to_revived`, `modify_apply` (→ `post_modify` with the recycled
    entry as `pre`), then one `internal_modify(uuid = g, Present(member, u))` per group of the
    entry's recycled_directmemberof — for a dyngroup that modify is a full re-evaluation

The operators the proofs turn on (the add / remove tests of `post_modify`, the mask of the full
path, the two `expect` flags, the call order in both hooks) come from
`KanidmModel.Generated.DynGroupOps`, regenerated from the source on every run.

Identity is always internal: no access control, no limits; `SelfUuid` resolves to the system uuid;
unknown attributes and empty `And` / `Or` fail validation, which makes the operation fail.
uuids and entry ids are the same naturals. Import: shared filter model only (core Lean).
-/
namespace Kanidm.DynGroup
open Kanidm.Filter

/-- Constants of the attribute / value numbering and the index layout of the server. -/
structure Env where
  /-- atom of `Attribute::Class` -/
  classA : Nat
  c : AttrConsts
  vRecycled : Val
  vTombstone : Val
  vDynGroup : Val
  /-- `ev.get_uuid()` of the internal identity (`UUID_SYSTEM`), what `SelfUuid` resolves to -/
  self : Val
  /-- which index tables exist (`Schema::reload_idxmeta`) -/
  cfg : Nat → IType → Bool

/-- A stored entry: the filter-visible attributes and `dyngroup_filter`. The three reference
attributes the plugin and its neighbours write (`dynmember`, `member`, `recycled_directmemberof`)
are kept per uuid in `State`, so that writing them does not touch the entry list the filters see. -/
structure Ent where
  id : Nat
  attrs : List (Nat × List Val)
  /-- `dyngroup_filter` -/
  filt : Option FC
  deriving Inhabited

def Ent.entry (e : Ent) : Entry := Entry.ofList e.attrs

/-- `mask_recycled_ts().is_none()` -/
def Env.masked (env : Env) (e : Entry) : Bool :=
  (e env.classA).contains env.vTombstone || (e env.classA).contains env.vRecycled

/-- `attribute_equality(Class, DynGroup)` -/
def Env.isDyn (env : Env) (e : Entry) : Bool := (e env.classA).contains env.vDynGroup

def Env.live (env : Env) (e : Ent) : Bool := !env.masked e.entry

structure State where
  /-- `id2entry`, in id order -/
  ents : List Ent
  /-- `dynmember` of the entry with this uuid -/
  dyn : Nat → List Nat
  /-- `member` -/
  mem : Nat → List Nat
  /-- `recycled_directmemberof` -/
  rdmo : Nat → List Nat
  /-- `DynGroupCache.insts` -/
  cache : List (Nat × FC)

def lookup (c : List (Nat × FC)) (u : Nat) : Option FC :=
  match c.find? (fun p => p.1 == u) with
  | some p => some p.2
  | none => none

/-- `BTreeMap::insert` -/
def cacheSet (c : List (Nat × FC)) (u : Nat) (fc : FC) : List (Nat × FC) :=
  (u, fc) :: c.filter (fun p => !(p.1 == u))

def State.find (st : State) (u : Nat) : Option Ent := st.ents.find? (fun e => e.id == u)

/-- the database as `Backend::search` sees it: every stored entry, hidden ones included -/
def worldOf (ents : List Ent) : World where
  live := ents.map (·.id)
  ent := fun id =>
    match ents.find? (fun e => e.id == id) with
    | some e => e.entry
    | none => Entry.ofList []

/-! ### filters -/

mutual
/-- the filter passes `Filter::validate`: no unknown attribute (`Invalid`), no empty `And` / `Or`
(`SchemaError::EmptyFilter`), no `Inclusion` (not expressible in a `ProtoFilter`) -/
def fcOk : FC → Bool
  | .invalid _ => false
  | .inclusion _ => false
  | .or l => !l.isEmpty && fcOkAll l
  | .and l => !l.isEmpty && fcOkAll l
  | .andnot f => fcOk f
  | _ => true
def fcOkAll : List FC → Bool
  | [] => true
  | f :: fs => fcOk f && fcOkAll fs
end

/-- the incremental test: `dg_filter.validate(..).resolve(&ident_internal, None, ..)` then
`entry_match_no_index` (`none` = the resolution fails and with it the operation) -/
def incMatch (env : Env) (fc : FC) (e : Entry) : Option Bool :=
  if fcOk fc then
    (fc.resolveNoIdx env.c env.self).map (fun f => (f.fastOptimise sortAsc).matches ValSem.std e)
  else none

/-- `Limits::unlimited()` -/
def unlimited : Limits := ⟨true, 2 ^ 64, 2 ^ 64⟩

def sparse : Rep := fun _ _ _ => false

/-- index metadata of the layout (the slope values only steer the term order) -/
def metaOf (cfg : Nat → IType → Bool) : Nat → IType → Option Nat :=
  fun a t => if cfg a t then some 1 else none

/-- the resolved, optimised form `internal_search` hands to the backend -/
def resolvedFull (env : Env) (fc : FC) : Option F :=
  if fcOk fc then
    (fc.resolveIdx env.c env.self (metaOf env.cfg)).map (fun g => g.optimise sortAsc sortDesc)
  else none

/-- the full path: `qs.internal_search(scope_i)` over every stored entry, then the
`mask_recycled_ts` filter (when `fullMask`) -/
def fullEval (env : Env) (w : World) (fc : FC) : Option (List Nat) :=
  match resolvedFull env fc with
  | none => none
  | some f =>
    match search ValSem.std unlimited w (idxOf w env.cfg) sparse f with
    | .ok ids => some (if fullMask then ids.filter (fun id => !env.masked (w.ent id)) else ids)
    | .error _ => none

/-! ### sets of uuids -/

def addAll (s xs : List Nat) : List Nat := s ++ xs.filter (fun x => !s.contains x)
def remAll (s xs : List Nat) : List Nat := s.filter (fun x => !xs.contains x)

/-- function update -/
def upd (f : Nat → List Nat) (u : Nat) (v : List Nat) : Nat → List Nat :=
  fun x => if x == u then v else f x

/-- the ignore-hidden search `uuid = u` finds an entry -/
def State.liveId (env : Env) (st : State) (u : Nat) : Bool :=
  match st.find u with
  | some e => env.live e
  | none => false

/-! ### `apply_dyngroup_change` -/

/-- the `for (pre, nd_group) in work_set` loop (l.62–125); `w` = the database the searches see
(the work set is written after the loop, and `dynmember` is not a filter-visible attribute) -/
def applyDynLoop (env : Env) (w : World) (expect : Bool) : List Ent → State → Option State
  | [], st => some st
  | g :: gs, st =>
    match g.filt with
    | none => none
    | some fc =>
      match fullEval env w fc with
      | none => none
      | some ms =>
        if (lookup st.cache g.id).isNone == expect then none
        else applyDynLoop env w expect gs
          { st with dyn := upd st.dyn g.id ms, cache := cacheSet st.cache g.id fc }

/-- `apply_dyngroup_change` for the dyngroups `targets` of the change set: the work set is the
ignore-hidden search `Or[uuid = t …]` -/
def applyDyn (env : Env) (st : State) (targets : List Nat) (expect : Bool) : Option State :=
  let ws := st.ents.filter (fun e => targets.contains e.id && env.live e)
  applyDynLoop env (worldOf st.ents) expect ws st

/-! ### the incremental paths -/

/-- every cached filter is resolved before anything else happens in the loop body -/
def cacheOk (c : List (Nat × FC)) : Bool := c.all (fun p => fcOk p.2)

def matchB (env : Env) (fc : FC) (e : Entry) : Bool := (incMatch env fc e).getD false

/-- the incremental tests as coded: `[e.mask_recycled_ts().is_some() &&] e.entry_match_no_index(f)`
(the guards are regenerated: `maskCreate` for `post_create`, `maskPre` / `maskPost` for the two
sides of `post_modify`) -/
def testB (mask : Bool) (env : Env) (fc : FC) (e : Ent) : Bool :=
  (!mask || env.live e) && matchB env fc e.entry

/-- `post_create`, first half: entries that match a cached filter are added to that group, if
the group is found by the ignore-hidden search -/
def incCreate (env : Env) (st : State) (news : List Ent) : Nat → List Nat :=
  fun g =>
    match lookup st.cache g with
    | some fc =>
      if st.liveId env g then
        addAll (st.dyn g) ((news.filter (fun e => testB maskCreate env fc e)).map (·.id))
      else st.dyn g
    | none => st.dyn g

/-- `post_modify`, second half, for one group: the `Ok(uuid)` / `Err(uuid)` choices -/
def incModifyOne (env : Env) (fc : FC) (pairs : List (Ent × Ent)) (dyn : List Nat) : List Nat :=
  let adds := (pairs.filter (fun p =>
    addTest (testB maskPost env fc p.2) (testB maskPre env fc p.1) false)).map (·.2.id)
  let rems := (pairs.filter (fun p =>
    !addTest (testB maskPost env fc p.2) (testB maskPre env fc p.1) false &&
      remTest (testB maskPost env fc p.2) (testB maskPre env fc p.1) false)).map (·.2.id)
  remAll (addAll dyn adds) rems

def incModify (env : Env) (st : State) (pairs : List (Ent × Ent)) : Nat → List Nat :=
  fun g =>
    match lookup st.cache g with
    | some fc => if st.liveId env g then incModifyOne env fc pairs (st.dyn g) else st.dyn g
    | none => st.dyn g

/-! ### the two hooks -/

def replaceEnts (ents : List Ent) (post : List Ent) : List Ent :=
  ents.map fun e =>
    match post.find? (fun p => p.id == e.id) with
    | some p => p
    | none => e

/-- `DynGroup::post_create` on a database that already holds the new entries -/
def postCreate (env : Env) (st : State) (news : List Ent) : Option State :=
  let entries := news.filter (fun e => !env.isDyn e.entry)
  let nDyn := (news.filter (fun e => env.isDyn e.entry)).map (·.id)
  let inc (st : State) : Option State :=
    if !cacheOk st.cache then none else some { st with dyn := incCreate env st entries }
  let full (st : State) : Option State :=
    if nDyn.isEmpty then some st else applyDyn env st nDyn expectCreate
  if createIncFirst then (inc st).bind full else (full st).bind inc

/-- `DynGroup::post_modify` on a database that already holds the modified entries;
`pre`/`post` = `pre_cand`/`cand` in the same order -/
def postModify (env : Env) (st : State) (pre post : List Ent) : Option State :=
  let preE := pre.filter (fun e => !env.isDyn e.entry)
  let postE := post.filter (fun e => !env.isDyn e.entry)
  let nDyn := (post.filter (fun e => env.isDyn e.entry)).map (·.id)
  let full (st : State) : Option State :=
    if nDyn.isEmpty then some st else applyDyn env st nDyn expectModify
  let inc (st : State) : Option State :=
    if !cacheOk st.cache then none
    else some { st with dyn := incModify env st (preE.zip postE) }
  if modifyFullFirst then (full st).bind inc else (inc st).bind full

/-! ### operations (one committed write transaction each; `none` = the operation fails and
nothing is committed) -/

inductive Change where
  /-- for every listed attribute `Purged(a)` then `Present(a, v)` for every value (one real
  attribute may be seen by the filters under two atoms: exact and lower-cased text) -/
  | attrs (l : List (Nat × List Val))
  /-- `Purged(dyngroup_filter)`, `Present(dyngroup_filter, fc)` -/
  | filt (fc : FC)

def setAttr (attrs : List (Nat × List Val)) (a : Nat) (vals : List Val) : List (Nat × List Val) :=
  (a, vals) :: attrs.filter (fun p => !(p.1 == a))

def Change.apply (ch : Change) (e : Ent) : Ent :=
  match ch with
  | .attrs l => { e with attrs := l.foldl (fun acc p => setAttr acc p.1 p.2) e.attrs }
  | .filt fc => { e with filt := some fc }

/-- schema: `dyngroup_filter` is only allowed on class dyngroup -/
def Change.valid (env : Env) (ch : Change) (e : Ent) : Bool :=
  match ch with
  | .attrs _ => true
  | .filt _ => env.isDyn e.entry

inductive Op where
  | create (news : List Ent)
  | modify (ids : List Nat) (ch : Change)
  | delete (ids : List Nat)
  | revive (id : Nat)

def hasDup : List Nat → Bool
  | [] => false
  | x :: xs => xs.contains x || hasDup xs

/-- `directmemberof` of `u` (exact, C17 `lc_dmo_exact`): the live groups listing it -/
def dmoOf (env : Env) (st : State) (u : Nat) : List Nat :=
  (st.ents.filter (fun g => env.live g && ((st.mem g.id).contains u || (st.dyn g.id).contains u))).map (·.id)

def addClass (env : Env) (e : Ent) (v : Val) : Ent :=
  { e with attrs := setAttr e.attrs env.classA (e.entry env.classA ++ [v]) }

def dropClass (env : Env) (e : Ent) (v : Val) : Ent :=
  { e with attrs := setAttr e.attrs env.classA ((e.entry env.classA).filter (fun x => !(x == v))) }

/-- the `for (g, mods) in dm_mods` loop of `revive_recycled` (l.335–341): `Present(member, u)` on
the entry with uuid `g` of any status (`filter_all`), through a full modify -/
def reviveLoop (env : Env) (u : Nat) : List Nat → State → Option State
  | [], st => some st
  | g :: gs, st =>
    match st.find g with
    | none => reviveLoop env u gs st
    | some ge =>
      match postModify env { st with mem := upd st.mem g (addAll (st.mem g) [u]) } [ge] [ge] with
      | none => none
      | some st2 => reviveLoop env u gs st2

def step (env : Env) (st : State) : Op → Option State
  | .create news =>
    let ids := news.map (·.id)
    if hasDup ids || ids.any (fun u => (st.find u).isSome) then none
    else if news.any (fun e => env.masked e.entry) then none
    else if news.any (fun e => env.isDyn e.entry != e.filt.isSome) then none
    else
      let clear (f : Nat → List Nat) : Nat → List Nat := fun u => if ids.contains u then [] else f u
      postCreate env { st with ents := st.ents ++ news, dyn := clear st.dyn, mem := clear st.mem,
                               rdmo := clear st.rdmo } news
  | .modify ids ch =>
    let pre := st.ents.filter (fun e => ids.contains e.id && env.live e)
    if pre.isEmpty then some st
    else if pre.any (fun e => !ch.valid env e) then none
    else
      let post := pre.map ch.apply
      -- a modify may not change the recycled / tombstone state
      if post.any (fun e => env.masked e.entry) then none
      else postModify env { st with ents := replaceEnts st.ents post } pre post
  | .delete ids =>
    let pre := st.ents.filter (fun e => ids.contains e.id && env.live e)
    if pre.isEmpty then none else
    let del := pre.map (·.id)
    some { st with
      ents := st.ents.map (fun e => if del.contains e.id then addClass env e env.vRecycled else e)
      -- memberof pre_delete stashes directmemberof; refint then removes the deleted uuids from
      -- every reference attribute of every stored entry
      dyn := fun u => remAll (st.dyn u) del
      mem := fun u => remAll (st.mem u) del
      rdmo := fun u => remAll (if del.contains u then dmoOf env st u else st.rdmo u) del }
  | .revive id =>
    match st.find id with
    | none => some st
    | some pre =>
      if !(pre.entry env.classA).contains env.vRecycled then some st else
      let post := dropClass env pre env.vRecycled
      if env.masked post.entry then none else
      match postModify env { st with ents := replaceEnts st.ents [post], rdmo := upd st.rdmo id [] }
          [pre] [post] with
      | none => none
      | some st1 => reviveLoop env id (st.rdmo id) st1

/-! ### the specification and the scope of the theorems, executable (the driver evaluates them on
the harness' real histories; `KanidmProofs/C18.lean` proves them sound) -/

/-- what "the entry satisfies the filter" means: the ordinary boolean reading of the stored
(unresolved) filter — NOT is complement -/
def M (env : Env) (fc : FC) (e : Entry) : Bool := fc.matches ValSem.std env.self env.c.uuidA e

/-- the specification's member set: the live stored entries satisfying the filter -/
def specMembers (env : Env) (ents : List Ent) (fc : FC) : List Nat :=
  (ents.filter (fun e => env.live e && M env fc e.entry)).map (·.id)

/-- the property, as a test: every live dyngroup lists exactly `specMembers` -/
def exactB (env : Env) (st : State) : Bool :=
  st.ents.all fun g =>
    !(env.live g && env.isDyn g.entry) ||
      match g.filt with
      | none => true
      | some fc =>
        (st.dyn g.id).all (fun u => (specMembers env st.ents fc).contains u) &&
          (specMembers env st.ents fc).all (fun u => (st.dyn g.id).contains u)

/-- the filter can be resolved and its resolved + optimised form is one `Backend::search` is exact
for (C01's `F.safe`: every NOT guarded by a positive AND sibling — defect D1 otherwise) -/
def goodB (env : Env) (fc : FC) : Bool :=
  match resolvedFull env fc with
  | some f => f.safe
  | none => false

/-- no live dyngroup satisfies the filter of a live dyngroup (finding F1 otherwise) -/
def noDynB (env : Env) (ents : List Ent) : Bool :=
  ents.all fun g =>
    !(env.live g && env.isDyn g.entry) ||
      match g.filt with
      | none => true
      | some fc => ents.all fun e => !(env.live e && env.isDyn e.entry && M env fc e.entry)

/-- the operation is one the partial theorem covers -/
def opSafeB (env : Env) (st : State) : Op → Bool
  | .create news => news.all fun e =>
      match e.filt with
      | some fc => goodB env fc
      | none => true
  | .modify _ (.filt fc) => goodB env fc
  | .modify _ (.attrs l) => l.all (fun p => !(p.1 == env.classA))
  | .delete _ => true
  | .revive _ => true

/-- the history is one the partial theorem covers: every committed operation is `opSafeB` and
leads to a `noDynB` state -/
def safeRunB (env : Env) : State → List Op → Bool
  | _, [] => true
  | st, op :: ops =>
    match step env st op with
    | some st' => opSafeB env st op && noDynB env st'.ents && safeRunB env st' ops
    | none => safeRunB env st ops

/-- the cache `DynGroup::reload` builds: the live dyngroups with their filters -/
def cacheOf (env : Env) (ents : List Ent) : List (Nat × FC) :=
  ents.filterMap fun e =>
    if env.live e && env.isDyn e.entry then e.filt.map (fun fc => (e.id, fc)) else none

/-- a freshly loaded server -/
def State.load (env : Env) (ents : List Ent) (dyn mem rdmo : Nat → List Nat) : State :=
  ⟨ents, dyn, mem, rdmo, cacheOf env ents⟩

/-- the start state is one the partial theorem covers: distinct uuids, every live dyngroup has a
filter, all filters good, `noDynB`, and the property itself holds -/
def initB (env : Env) (st : State) : Bool :=
  !hasDup (st.ents.map (·.id)) &&
    (st.ents.all fun g => !(env.live g && env.isDyn g.entry) || g.filt.isSome) &&
    (st.ents.all fun g => match g.filt with | some fc => goodB env fc | none => true) &&
    noDynB env st.ents && exactB env st

/-- a history; a failing operation commits nothing -/
def run (env : Env) : State → List Op → State
  | st, [] => st
  | st, op :: ops => run env ((step env st op).getD st) ops

end Kanidm.DynGroup
