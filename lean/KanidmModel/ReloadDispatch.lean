import KanidmModel.Generated.ReloadDispatch
/-!
# The reload dispatch of `QueryServerWriteTransaction::reload` (C06)

`reload()` is the first statement of every commit: a list of checks
`if self.changed_flags.intersects(FLAGS) { self.reload_x()?; … }` (regenerated: `Gen.ReloadDispatch.checks`),
then the flags are cleared.  A write transaction may set SEVERAL flags; the loaded configuration
published by the commit belongs to the new committed state only if every check whose flag is set runs.
`run` transcribes Rust's `if … else if …` semantics: a check that hangs on the `else` of the previous
one is skipped whenever an earlier check of its chain ran.
-/
namespace Kanidm.ReloadDispatch
open Kanidm.Gen.ReloadDispatch

/-- `self.changed_flags.intersects(c.flags)` -/
def hit (changed : List Flag) (c : Check) : Bool := c.flags.any (fun f => changed.contains f)

/-- The reload functions executed, in order; `taken`: an earlier check of the current `else if` chain ran. -/
def run (changed : List Flag) : List Check → Bool → List Reload
  | [], _ => []
  | c :: cs, taken =>
    let blocked := c.chained && taken
    let ran := hit changed c && !blocked
    (if ran then c.calls else []) ++ run changed cs (blocked || ran)

/-- What `reload()` executes for the flags a write transaction set. -/
def reloadRuns (changed : List Flag) : List Reload := run changed checks false

end Kanidm.ReloadDispatch
