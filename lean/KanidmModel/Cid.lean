import KanidmModel.Generated.CidOps
import KanidmModel.Generated.CidCommit
/-
C07 — model of change-identifier issuing on one server.

Transcribes
  * `Cid::new_lamport` and the derived `Ord` of `struct Cid` (server/lib/src/repl/cid.rs) — the
    comparison, both branches and the field order are regenerated (`Generated/CidOps.lean`);
  * `QueryServer::new` (seeds the `cid_max` CowCell from `get_db_ts_max(curtime)`),
    `QueryServer::write` (`*cid = Cid::new_lamport(cid.s_uuid, curtime, &cid.ts)` on the CowCell
    write copy), `QueryServerWriteTransaction::commit` (ordered persistence steps, regenerated in
    `Generated/CidCommit.lean`), drop of a write transaction (= abort), `reset_server_uuid`
    (server/lib/src/server/mod.rs);
  * `BackendWriteTransaction::get_db_ts_max` (`Some(dts) => dts, None => ts`).

Time is `Nat` nanoseconds (`Duration`; overflow not modelled), server uuids are `Nat` atoms in
byte order.  The SQLite transaction is atomic (trusted): `db_op_ts` written inside a backend write
transaction becomes durable exactly when the `beCommit` step succeeds.
-/
namespace Kanidm.Cid
open Kanidm.Gen.Cid Kanidm.Gen.CidCommit

structure Cid where
  ts : Nat
  sUuid : Nat
deriving DecidableEq, Repr, Inhabited

def fieldVal : Field → Cid → Nat
  | .ts, c => c.ts
  | .sUuid, c => c.sUuid

/-- What `#[derive(PartialOrd, Ord)]` generates: lexicographic `<` in field declaration order. -/
def lexLt : List Field → Cid → Cid → Bool
  | [], _, _ => false
  | f :: fs, a, b =>
    decide (fieldVal f a < fieldVal f b) || (decide (fieldVal f a = fieldVal f b) && lexLt fs a b)

/-- `a < b` on `Cid`, over the field order read from the source. -/
def cidLt (a b : Cid) : Bool := lexLt ordFields a b

/-- `Cid::new_lamport(s_uuid, ts, &max_ts)`. -/
def newLamport (sUuid ts max : Nat) : Cid := ⟨lamportTs ts max, sUuid⟩

/-- An open `QueryServerWriteTransaction`, as far as change identifiers go. -/
structure Txn where
  /-- the CowCell write copy of `cid_max` = the cid stamped on everything this transaction writes -/
  cid : Cid
  /-- `reset_server_uuid` wrote a new server uuid inside the open backend transaction -/
  pendingUuid : Option Nat
deriving DecidableEq, Repr

structure Server where
  /-- committed content of the `cid_max` CowCell -/
  mem : Cid
  /-- durable `db_op_ts` row; `none` on a database that never committed a write -/
  dbTs : Option Nat
  /-- durable server uuid -/
  dbUuid : Nat
  txn : Option Txn
  /-- cids of the transactions whose backend commit succeeded, oldest first -/
  hist : List Cid
deriving DecidableEq, Repr

inductive Event where
  /-- `QueryServer::write(curtime)` -/
  | begin (ts : Nat)
  /-- `txn.commit()`; `fail = some i`: the `i`-th generated step returns `Err` if it is fallible -/
  | commit (fail : Option Nat)
  /-- drop of the write transaction -/
  | abort
  /-- process end (an open transaction is lost) and `QueryServer::new(.., curtime)` over the same database -/
  | restart (ts : Nat)
  /-- `reset_server_uuid` inside the open transaction -/
  | resetUuid (u : Nat)
deriving DecidableEq, Repr

/-- The previous maximum handed to `new_lamport`, by the source the code names. -/
def seedVal (src : MaxSrc) (s : Server) (curtime : Nat) : Nat :=
  match src with
  | .persisted => match s.dbTs with   -- `get_db_ts_max(curtime)`
    | some d => d
    | none => curtime
  | .committedMax => s.mem.ts
  | .curtime => curtime

/-- State of a running `commit()`. -/
structure Work where
  mem : Cid
  dbTs : Option Nat
  dbUuid : Nat
  pendingTs : Option Nat
  pendingUuid : Option Nat
  durable : Bool
deriving DecidableEq, Repr

def applyStep (cid : Cid) (k : StepKind) (w : Work) : Work :=
  match k with
  | .persistTsMax => { w with pendingTs := some cid.ts }   -- `be_txn.set_db_ts_max(cid.ts)`
  | .cidCommit => { w with mem := cid }                     -- `cid.commit()` (CowCell)
  | .beCommit =>                                            -- `be_txn.commit()` (atomic)
    { w with
      dbTs := (match w.pendingTs with | some t => some t | none => w.dbTs)
      dbUuid := (match w.pendingUuid with | some u => u | none => w.dbUuid)
      durable := true }
  | .other => w

/-- Run the generated steps in order; a fallible step at index `fail` returns `Err`, which skips
itself and everything after it.  Returns the state reached and whether `commit()` returned `Ok`. -/
def runSteps (cid : Cid) : List CStep → Nat → Option Nat → Work → Work × Bool
  | [], _, _, w => (w, true)
  | st :: rest, i, fail, w =>
    if st.fallible && fail == some i then (w, false)
    else runSteps cid rest (i + 1) fail (applyStep cid st.kind w)

def commitTxn (s : Server) (t : Txn) (fail : Option Nat) : Server × Bool :=
  let r := runSteps t.cid commitSteps 0 fail
    { mem := s.mem, dbTs := s.dbTs, dbUuid := s.dbUuid, pendingTs := none,
      pendingUuid := t.pendingUuid, durable := false }
  ({ mem := r.1.mem, dbTs := r.1.dbTs, dbUuid := r.1.dbUuid, txn := none,
     hist := if r.1.durable then s.hist ++ [t.cid] else s.hist }, r.2)

/-- One event; the second component is the reply of the line protocol. -/
inductive Reply where
  | stamped (c : Cid)
  | ok
  | err
  | busy
  | noTxn
deriving DecidableEq, Repr

def stepR (s : Server) : Event → Server × Reply
  | .begin ts =>
    match s.txn with
    | some _ => (s, .busy)      -- the write ticket serialises writers
    | none =>
      let c := newLamport s.mem.sUuid ts (seedVal seedAtWrite s ts)
      ({ s with txn := some ⟨c, none⟩ }, .stamped c)
  | .commit fail =>
    match s.txn with
    | none => (s, .noTxn)
    | some t =>
      let r := commitTxn s t fail
      (r.1, if r.2 then .ok else .err)
  | .abort =>
    match s.txn with
    | none => (s, .noTxn)
    | some _ => ({ s with txn := none }, .ok)
  | .restart ts =>
    ({ s with txn := none, mem := newLamport s.dbUuid ts (seedVal seedAtStart s ts) }, .ok)
  | .resetUuid u =>
    match s.txn with
    | none => (s, .noTxn)
    | some t => ({ s with txn := some ⟨{ t.cid with sUuid := u }, some u⟩ }, .ok)

def step (s : Server) (e : Event) : Server := (stepR s e).1

def run (s : Server) (evs : List Event) : Server := evs.foldl step s

/-- `QueryServer::new` over a fresh database with server uuid `u` at `curtime = ts`. -/
def boot (u ts : Nat) : Server :=
  step { mem := ⟨0, u⟩, dbTs := none, dbUuid := u, txn := none, hist := [] } (.restart ts)

end Kanidm.Cid
