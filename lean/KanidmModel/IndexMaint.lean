import KanidmModel.Filter.Idl
import KanidmModel.Generated.IndexMaintOps
/-
C03 model: index and name-table maintenance of the backend.

Transcribes
  * `/repo/server/lib/src/entry.rs`: `get_name2uuid_cands` (l.1423), `get_externalid2uuid` (l.1444),
    `get_uuid2spn` (l.1453), `get_uuid2rdn` (l.1469), `idx_name2uuid_diff` (l.1483),
    `idx_externalid2uuid_diff` (l.1521), `idx_uuid2spn_diff` (l.1555), `idx_uuid2rdn_diff` (l.1588),
    `idx_diff` (l.1621, incl. the sorted two-pointer loop of the branch where both value sets exist),
    `mask_recycled_ts` (l.3157);
  * `/repo/server/lib/src/be/mod.rs`: `entry_index` (l.1519, incl. the uuid-changing branch),
    `create` / `refresh` / the create part of `incremental_apply` (l.1134, 1192, 1347), `modify` and
    the update part of `incremental_apply` (l.1229), `incremental_prepare` (l.1273, one uuid),
    `reap_tombstones` (l.1398, the part after the RUV chose the ids), `update_idxmeta` (l.1485),
    `create_idxs` (l.1738), `upgrade_reindex` (l.1758), `reindex` (l.1770);
  * `/repo/server/lib/src/be/idl_arc_sqlite.rs`: `write_name2uuid_add/rem`, `write_externalid2uuid_add/rem`,
    `write_uuid2spn`, `write_uuid2rdn`, `write_idl`, `create_idx`, `danger_purge_idxs` as map updates;
  * the valuesets' `generate_idx_eq_keys` (the value list itself), `generate_idx_sub_keys`
    (`iutf8.rs` l.133 …: trigraphs, `sort_unstable`, `dedup`), presence key `"_"`, no ordering keys.

Entries are C01's (`Kanidm.Filter.Entry`: attribute ↦ the list `generate_idx_eq_keys` returns for its
value set, `[]` = attribute absent), index tables are association lists, `getIdl` is C01's `Idx`.
The arm tables of `idx_diff`, the loop arms and the attribute lists come from
`KanidmModel.Generated.IndexMaintOps`, rewritten from the source on every run.

Not modelled: SQLite / the ARC caches (maps), the RUV and change state (which tombstones
`reap_tombstones` may delete is an input), slopes.  Import-free (core Lean only).
-/
namespace Kanidm.Index
open Kanidm.Filter

/-! ### association maps (SQLite tables and their write-through caches) -/

section AMap
variable {κ ν : Type} [DecidableEq κ]

def aget : List (κ × ν) → κ → Option ν
  | [], _ => none
  | (k', v) :: r, k => if k' = k then some v else aget r k

def adel (m : List (κ × ν)) (k : κ) : List (κ × ν) := m.filter (fun p => !decide (p.1 = k))

def aset (m : List (κ × ν)) (k : κ) (v : ν) : List (κ × ν) := (k, v) :: adel m k

end AMap

/-! ### atoms -/

/-- attribute numbers the harness uses for the attributes the source names -/
def aClass : Nat := 0
def aUuid : Nat := 1
def aName : Nat := 2
def aSpn : Nat := 3
def aGid : Nat := 4
def aExtId : Nat := 5

def NameAttr.atom : NameAttr → Nat
  | .spn => aSpn
  | .name => aName
  | .gidNumber => aGid
  | .syncExternalId => aExtId

/-- `"tombstone"` / `"recycled"` as byte strings -/
def MaskClass.val : MaskClass → Val
  | .tombstone => .str [116, 111, 109, 98, 115, 116, 111, 110, 101]
  | .recycled => .str [114, 101, 99, 121, 99, 108, 101, 100]

/-- a stored entry (`EntrySealedCommitted`): id, uuid, attributes -/
structure SEnt where
  id : Nat
  uuid : Nat
  attrs : Entry

/-- the value of `uuid2spn` / `uuid2rdn`: which attribute supplied it (`Value::Spn` / `Value::Iname` /
`Value::Uuid`; `"spn="` / `"name="` / `"uuid="`) and the text -/
inductive NameV where
  | ofAttr (a : NameAttr) (v : Val)
  | ofUuid (u : Nat)
  deriving DecidableEq, Repr, Inhabited

/-- `mask_recycled_ts` (entry.rs l.3157) -/
def masked (e : SEnt) : Bool := maskClasses.any (fun c => (e.attrs aClass).contains c.val)

def mask (e : SEnt) : Option SEnt := if masked e then none else some e

/-- decimal digits of a number as bytes -/
def digits (n : Nat) : List Nat := (Nat.toDigits 10 n).map Char.toNat

/-- `to_proto_string_clone_iter` on the modelled syntaxes: strings verbatim, numbers in decimal -/
def protoStr : Val → List Nat
  | .str s => s
  | .num n => digits n

/-- `ValueSetT::to_value_single` / `to_proto_string_single`: `Some` iff exactly one value -/
def single : List Val → Option Val
  | [v] => some v
  | _ => none

/-- `get_name2uuid_cands` (l.1423) -/
def cands (e : SEnt) : List (List Nat) :=
  nameCandAttrs.flatMap (fun a => (e.attrs a.atom).map protoStr)

/-- `get_externalid2uuid` (l.1444) -/
def extId (e : SEnt) : Option (List Nat) := (single (e.attrs externalIdAttr.atom)).map protoStr

def firstSingle (e : SEnt) : List NameAttr → NameV
  | [] => .ofUuid e.uuid
  | a :: r => match single (e.attrs a.atom) with
    | some v => .ofAttr a v
    | none => firstSingle e r

/-- `get_uuid2spn` (l.1453) -/
def spnOf (e : SEnt) : NameV := firstSingle e uuid2spnAttrs
/-- `get_uuid2rdn` (l.1469) -/
def rdnOf (e : SEnt) : NameV := firstSingle e uuid2rdnAttrs

/-! ### tables -/

abbrev Rows := List (Val × List Nat)

structure Tables where
  /-- the `idx_<itype>_<attr>` tables that exist -/
  idx : List ((Nat × IType) × Rows)
  n2u : List (List Nat × Nat)
  e2u : List (List Nat × Nat)
  u2s : List (Nat × NameV)
  u2r : List (Nat × NameV)

/-- `get_idl` (C01's `Idx`): `none` = no such table; a missing row is the empty set -/
def getIdl (t : Tables) : Idx := fun a it k =>
  (aget t.idx (a, it)).map (fun rows => (aget rows k).getD [])

/-- `write_idl` -/
def writeIdl (t : Tables) (a : Nat) (it : IType) (k : Val) (ids : List Nat) : Tables :=
  match aget t.idx (a, it) with
  | some rows => { t with idx := aset t.idx (a, it) (aset rows k ids) }
  | none => t

/-- `IDLBitRange::insert_id` -/
def insertId (id : Nat) (l : List Nat) : List Nat := if l.contains id then l else id :: l
/-- `IDLBitRange::remove_id` -/
def removeId (id : Nat) (l : List Nat) : List Nat := l.filter (fun x => !decide (x = id))

/-! ### `Entry::idx_diff` -/

/-- the order `sort_unstable` uses; any total order gives the same loop result -/
def keyLe (a b : Val) : Bool := Val.cmp a b != .gt

def sortKeys (l : List Val) : List Val := l.mergeSort keyLe

/-- `Vec::dedup`: drop consecutive repeats -/
def dedupAdj : List Val → List Val
  | [] => []
  | [a] => [a]
  | a :: b :: r => if a = b then dedupAdj (b :: r) else a :: dedupAdj (b :: r)

/-- `generate_idx_sub_keys` (iutf8 / iname / utf8 / email …): all trigraphs, sorted, deduplicated -/
def subKeys (vs : List Val) : List Val := dedupAdj (sortKeys ((vs.flatMap subKeysOf).map Val.str))

def keysOf (src : KeySrc) (vs : List Val) : List Val :=
  match src with
  | .eq => vs
  | .sub => subKeys vs
  | .ord => []
  | .underscore => [presKey]
  | .nothing => []

/-- the two-pointer loop (l.1816–1847) on the two sorted key lists: `(removed_vs, added_vs)` -/
def mergeLoop : List Val → List Val → List Val × List Val
  | [], [] => ([], [])
  | a :: as, [] =>
    let r := mergeLoop as []
    if mergeTailPreRemoves then (a :: r.1, r.2) else (r.1, a :: r.2)
  | [], b :: bs =>
    let r := mergeLoop [] bs
    if mergeTailPostAdds then (r.1, b :: r.2) else (b :: r.1, r.2)
  | a :: as, b :: bs =>
    match mergeArm (Val.cmp a b) with
    | .removePre => let r := mergeLoop as (b :: bs); (a :: r.1, r.2)
    | .skipBoth => mergeLoop as bs
    | .addPost => let r := mergeLoop (a :: as) bs; (r.1, b :: r.2)
termination_by pre post => pre.length + post.length

/-- an index change: `Ok((attr, itype, key))` = add, `Err(…)` = remove -/
structure Act where
  add : Bool
  a : Nat
  it : IType
  k : Val
  deriving DecidableEq, Repr

/-- `match e.get_ava_set(&ikey.attr) { None => vec![], Some(vs) => … }` with the arm's generator and sign -/
def signed (arm : Bool × KeySrc) (a : Nat) (it : IType) (vs : List Val) : List Act :=
  if vs.isEmpty then [] else (keysOf arm.2 vs).map (fun k => ⟨arm.1, a, it, k⟩)

/-- the body of `idxmeta.keys().flat_map(|ikey| …)` for one `ikey` -/
def diffKey (pre post : Option SEnt) (a : Nat) (it : IType) : List Act :=
  match pre, post with
  | none, none => []
  | some p, none => signed (armEntryRemoved it) a it (p.attrs a)
  | none, some q => signed (armEntryAdded it) a it (q.attrs a)
  | some p, some q =>
    let pv := p.attrs a
    let qv := q.attrs a
    if pv.isEmpty then
      (if qv.isEmpty then [] else signed (armAttrAdded it) a it qv)
    else if qv.isEmpty then signed (armAttrRemoved it) a it pv
    else
      let r := mergeLoop (sortKeys (keysOf (armBothSrc it) pv)) (sortKeys (keysOf (armBothSrc it) qv))
      if armBothEmits it then
        r.1.map (fun k => ⟨false, a, it, k⟩) ++ r.2.map (fun k => ⟨true, a, it, k⟩)
      else []

/-- `Entry::idx_diff` (l.1621) -/
def idxDiff (idxmeta : List (Nat × IType)) (pre post : Option SEnt) : List Act :=
  idxmeta.flatMap (fun k => diffKey pre post k.1 k.2)

/-- one turn of `idx_diff.into_iter().try_for_each` in `entry_index` (l.1657) -/
def applyAct (id : Nat) (t : Tables) (act : Act) : Tables :=
  match getIdl t act.a act.it act.k with
  | some idl => writeIdl t act.a act.it act.k (if act.add then insertId id idl else removeId id idl)
  | none => t

def applyActs (id : Nat) (acts : List Act) (t : Tables) : Tables := acts.foldl (applyAct id) t

/-! ### the name tables -/

def listDiff (a b : List (List Nat)) : List (List Nat) := a.filter (fun x => !b.contains x)

/-- `idx_name2uuid_diff` (l.1483): `(add, rem)` -/
def n2uDiff (pre post : Option SEnt) : Option (List (List Nat)) × Option (List (List Nat)) :=
  match pre, post with
  | none, none => (none, none)
  | none, some b => (some (cands b), none)
  | some a, none => (none, some (cands a))
  | some a, some b => (some (listDiff (cands b) (cands a)), some (listDiff (cands a) (cands b)))

/-- `idx_externalid2uuid_diff` (l.1521): `(add, rem)` -/
def e2uDiff (pre post : Option SEnt) : Option (List Nat) × Option (List Nat) :=
  match pre, post with
  | none, none => (none, none)
  | none, some b => (extId b, none)
  | some a, none => (none, extId a)
  | some a, some b => if extId a ≠ extId b then (extId b, extId a) else (none, none)

/-- `idx_uuid2spn_diff` / `idx_uuid2rdn_diff` (l.1555, 1588) for the name function `f`:
`none` = no action, `some (some v)` = `Ok(v)`, `some none` = `Err(())` -/
def u2Diff (f : SEnt → NameV) (pre post : Option SEnt) : Option (Option NameV) :=
  match pre, post with
  | none, none => none
  | none, some b => some (some (f b))
  | some _, none => some none
  | some a, some b => if f a ≠ f b then some (some (f b)) else none

def writeN2uAdd (u : Nat) (names : List (List Nat)) (m : List (List Nat × Nat)) : List (List Nat × Nat) :=
  names.foldl (fun m n => aset m n u) m

def writeN2uRem (names : List (List Nat)) (m : List (List Nat × Nat)) : List (List Nat × Nat) :=
  names.foldl (fun m n => adel m n) m

def writeU2 (u : Nat) (act : Option (Option NameV)) (m : List (Nat × NameV)) : List (Nat × NameV) :=
  match act with
  | none => m
  | some (some v) => aset m u v
  | some none => adel m u

/-- `write_externalid2uuid_add(e_uuid, add)` if any, then `write_externalid2uuid_rem(rem)` if any -/
def writeE2u (u : Nat) (add rem : Option (List Nat)) (m : List (List Nat × Nat)) : List (List Nat × Nat) :=
  let m1 := match add with
    | some k => aset m k u
    | none => m
  match rem with
  | some k => adel m1 k
  | none => m1

def optList {α : Type} : Option (List α) → List α
  | none => []
  | some l => l

/-- the name-table writes of `entry_index` (l.1604–1645) for masked `pre` / `post` -/
def nameIndex (mpre mpost : Option SEnt) (u : Nat) (t : Tables) : Tables :=
  let n := n2uDiff mpre mpost
  let e := e2uDiff mpre mpost
  let n2u := writeN2uRem (optList n.2) (writeN2uAdd u (optList n.1) t.n2u)
  { t with n2u := n2u, e2u := writeE2u u e.1 e.2 t.e2u,
           u2s := writeU2 u (u2Diff spnOf mpre mpost) t.u2s,
           u2r := writeU2 u (u2Diff rdnOf mpre mpost) t.u2r }

/-- the uuid-changing branch (l.1553–1598): `pre` is retracted under its own uuid -/
def retract (p : SEnt) (t : Tables) : Tables :=
  let n := n2uDiff (some p) none
  let e := e2uDiff (some p) none
  let n2u := writeN2uRem (optList n.2) t.n2u
  { t with n2u := n2u, e2u := writeE2u p.uuid none e.2 t.e2u,
           u2s := writeU2 p.uuid (u2Diff spnOf (some p) none) t.u2s,
           u2r := writeU2 p.uuid (u2Diff rdnOf (some p) none) t.u2r }

/-- the first `match (pre, post)` of `entry_index`: `(e_uuid, e_id, uuid_same)`;
`none` = `InvalidState` / the `assert_eq!` on the ids -/
def indexHeader (pre post : Option SEnt) : Option (Nat × Nat × Bool) :=
  match pre, post with
  | none, none => none
  | some p, none => some (p.uuid, p.id, true)
  | none, some q => some (q.uuid, q.id, true)
  | some p, some q => if p.id = q.id then some (q.uuid, q.id, decide (p.uuid = q.uuid)) else none

/-- `BackendWriteTransaction::entry_index` (l.1519); `none` = error -/
def entryIndex (idxmeta : List (Nat × IType)) (pre post : Option SEnt) (t : Tables) : Option Tables :=
  match indexHeader pre post with
  | none => none
  | some (u, id, same) =>
    let mpre := pre.bind mask
    let step1 : Option (Option SEnt × Tables) :=
      if same then some (mpre, t) else
        match mpre with
        | none => none
        | some p => some (none, retract p t)
    match step1 with
    | none => none
    | some (mpre, t) =>
      let t := nameIndex mpre (post.bind mask) u t
      some (applyActs id (idxDiff idxmeta pre post) t)

/-! ### the write transaction -/

structure BeState where
  /-- `id2entry` -/
  ents : List SEnt
  maxid : Nat
  /-- `idxmeta_wr.idxkeys` -/
  idxmeta : List (Nat × IType)
  tbl : Tables
  /-- `db_index_version` -/
  idxVer : Int

def Tables.empty : Tables := ⟨[], [], [], [], []⟩

/-- `Backend::new` on an empty database: the name tables exist, no index table does -/
def BeState.init (idxmeta : List (Nat × IType)) : BeState := ⟨[], 0, idxmeta, Tables.empty, 0⟩

def assignIds (maxid : Nat) : List (Nat × Entry) → List SEnt
  | [] => []
  | (u, av) :: r => ⟨maxid + 1, u, av⟩ :: assignIds (maxid + 1) r

/-- `for e in c_entries { entry_index(None, Some(e))? }` -/
def indexAll (idxmeta : List (Nat × IType)) : List SEnt → Tables → Option Tables
  | [], t => some t
  | e :: es, t =>
    match entryIndex idxmeta none (some e) t with
    | none => none
    | some t' => indexAll idxmeta es t'

/-- `create` (l.1134) / `refresh` (l.1192) / the create part of `incremental_apply`:
entries are `(uuid, attributes)` in input order -/
def create (es : List (Nat × Entry)) (s : BeState) : Option BeState :=
  if es.isEmpty then none else
  let c := assignIds s.maxid es
  match indexAll s.idxmeta c s.tbl with
  | none => none
  | some t => some { s with ents := s.ents ++ c, maxid := s.maxid + es.length, tbl := t }

/-- `write_identries` for one entry -/
def putEnt (ents : List SEnt) (e : SEnt) : List SEnt :=
  if ents.any (fun x => x.id = e.id) then ents.map (fun x => if x.id = e.id then e else x) else ents ++ [e]

def indexPairs (idxmeta : List (Nat × IType)) : List (SEnt × SEnt) → Tables → Option Tables
  | [], t => some t
  | (pre, post) :: ps, t =>
    match entryIndex idxmeta (some pre) (some post) t with
    | none => none
    | some t' => indexPairs idxmeta ps t'

/-- `modify` (l.1229) / the update part of `incremental_apply`: `(pre, post)` pairs as supplied by the caller -/
def modify (pairs : List (SEnt × SEnt)) (s : BeState) : Option BeState :=
  if pairs.isEmpty then none else
  let ents := pairs.foldl (fun acc p => putEnt acc p.2) s.ents
  match indexPairs s.idxmeta pairs s.tbl with
  | none => none
  | some t => some { s with ents := ents, tbl := t }

def unindexAll (idxmeta : List (Nat × IType)) : List SEnt → Tables → Option Tables
  | [], t => some t
  | e :: es, t =>
    match entryIndex idxmeta (some e) none t with
    | none => none
    | some t' => unindexAll idxmeta es t'

/-- `reap_tombstones` (l.1398) after the RUV selected `ids`: `delete_identry`, then
`entry_index(Some(e), None)` for each -/
def reap (ids : List Nat) (s : BeState) : Option BeState :=
  let dead := s.ents.filter (fun e => ids.contains e.id)
  match unindexAll s.idxmeta dead s.tbl with
  | none => none
  | some t => some { s with ents := s.ents.filter (fun e => !ids.contains e.id), tbl := t }

/-- `update_idxmeta` (l.1485) -/
def setMeta (m : List (Nat × IType)) (s : BeState) : BeState := { s with idxmeta := m }

/-- `danger_purge_idxs` + `create_idxs` (l.1738): every `idx_*` table is dropped, the four name
tables and one table per `idxmeta` key are created empty -/
def freshTables (idxmeta : List (Nat × IType)) : Tables :=
  ⟨idxmeta.foldl (fun acc k => aset acc k []) [], [], [], [], []⟩

/-- `reindex` (l.1770) -/
def reindex (s : BeState) : Option BeState :=
  match indexAll s.idxmeta s.ents (freshTables s.idxmeta) with
  | none => none
  | some t => some { s with tbl := t }

/-- `upgrade_reindex` (l.1758) -/
def upgradeReindex (v : Int) (s : BeState) : Option BeState :=
  if s.idxVer < v then (reindex s).map (fun s' => { s' with idxVer := v }) else some s

/-- `incremental_prepare` (l.1273) for one uuid: the stored entry the uuid index finds, or a stub
that is indexed but not stored; `none` = `InvalidDbState` -/
def incPrepare (u : Nat) (s : BeState) : Option (BeState × SEnt) :=
  match getIdl s.tbl aUuid .equality (.num u) with
  | some [] =>
    let stub : SEnt := ⟨s.maxid + 1, u, fun _ => []⟩
    match entryIndex s.idxmeta none (some stub) s.tbl with
    | none => none
    | some t => some ({ s with maxid := s.maxid + 1, tbl := t }, stub)
  | some [id] =>
    match s.ents.find? (fun e => e.id = id) with
    | some e => some (s, e)
    | none => none
  | _ => none

/-- `incremental_prepare` + the update part of `incremental_apply` for one incoming entry -/
def incUpdate (u : Nat) (av : Entry) (s : BeState) : Option BeState :=
  match incPrepare u s with
  | none => none
  | some (s1, pre) => modify [(pre, ⟨pre.id, u, av⟩)] s1

/-- `Backend::new` on an existing database (`IdlArcSqlite::setup`, idl_arc_sqlite.rs l.1240): the cached maximum
entry id is re-read from `id2entry` (`SELECT MAX(id)`), so after a restart the id of a reaped entry is used again -/
def reopen (s : BeState) : BeState := { s with maxid := s.ents.foldl (fun m e => max m e.id) 0 }

/-- the committed write operations -/
inductive Op where
  | create (es : List (Nat × Entry))
  | modify (pairs : List (SEnt × SEnt))
  | reap (ids : List Nat)
  | setMeta (m : List (Nat × IType))
  | reindex
  | upgradeReindex (v : Int)
  | incUpdate (u : Nat) (av : Entry)
  | reopen

/-- a failed operation aborts its transaction: nothing is committed -/
def step (s : BeState) : Op → BeState
  | .create es => (create es s).getD s
  | .modify ps => (modify ps s).getD s
  | .reap ids => (reap ids s).getD s
  | .setMeta m => setMeta m s
  | .reindex => (reindex s).getD s
  | .upgradeReindex v => (upgradeReindex v s).getD s
  | .incUpdate u av => (incUpdate u av s).getD s
  | .reopen => reopen s

def run (s : BeState) (ops : List Op) : BeState := ops.foldl step s

/-- the stored entries as C01's `World` -/
def world (s : BeState) : World :=
  ⟨s.ents.map (·.id), fun id => match s.ents.find? (fun e => e.id = id) with
    | some e => e.attrs
    | none => fun _ => []⟩

/-- which index tables exist -/
def tableCfg (t : Tables) : Nat → IType → Bool := fun a it => (aget t.idx (a, it)).isSome

end Kanidm.Index
