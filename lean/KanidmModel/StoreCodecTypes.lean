/-
C12 — types of the tables that `vtranslate storecodec-tables` regenerates from kanidm's source
(`KanidmModel/Generated/StoreCodecTables.lean`). Variants and record slots are numbered by the
translator in source order; the names are carried along for the driver and for readers, the
theorems only look at the numbers.
-/
namespace Kanidm.StoreCodec

/-- One variant→variant conversion pair read from an encoder `match` (in-memory enum → stored
enum) and the decoder `match` going back. `enc`/`dec` are association lists keyed by variant
index; a decoder arm that rejects (`Err`, `None`) is `none`. -/
structure TagPair where
  name : String
  memEnum : String
  dbEnum : String
  memNames : List String
  dbNames : List String
  /-- serde (JSON) name of each stored variant -/
  dbSerde : List String
  /-- the same names interned by the translator: equal strings ⇔ equal numbers -/
  dbSerdeIds : List Nat
  nMem : Nat
  nDb : Nat
  enc : List (Nat × Nat)
  dec : List (Nat × Option Nat)

/-- One arm of a record conversion: source variant, destination variant, and for every slot of
the destination (in its declaration order) the index of the source slot copied into it. -/
structure RecArm where
  src : Nat
  dst : Nat
  flow : List Nat

/-- A record conversion pair (variant tags *and* field flow), e.g. `Kdf ↔ DbPasswordV1`. -/
structure RecPair where
  name : String
  memArity : List Nat
  dbArity : List Nat
  memSlots : List (List String)
  dbSlots : List (List String)
  enc : List RecArm
  dec : List RecArm

/-- How a timestamp field is written: as an integer number of units of `unitNs` nanoseconds
(`time::serde::timestamp` = seconds: `unitNs = 10^9`; RFC 3339 text keeps nanoseconds: 1). -/
structure TimeCodec where
  unitNs : Nat

/-- One arm of the `match` over the stored record versions inside a decoder's loop, as far as an
accumulator (a `let mut` local that ends up in a field of the struct) is concerned. -/
structure DecodeArm where
  /-- the arm's pattern, e.g. `DbValueOauth2Session::V3` -/
  variant : String
  /-- the arm's value carries an element of the value set (it is not `None` / `Err` / diverging) -/
  yields : Bool
  /-- the arm updates the accumulator, directly in the arm (not under a further condition) -/
  updates : Bool

/-- Where one field of `ValueSetX { … }` gets its value from in one struct literal of a decoder.
`kind`: 0 = computed directly from the stored data (an expression, an immutable binding, a
parameter); 1 = a `let mut` accumulator (`uniform` updates in the loop body outside every `match`
arm / `if`, and the arms of the `match` that updates it); 2 = a constant (the stored data does not
reach the field). -/
structure DecodeField where
  field : Nat
  name : String
  kind : Nat
  uniform : Nat
  arms : List DecodeArm
  remark : String

/-- How one decoder reached from `from_db_valueset_v2` builds its value set struct. -/
structure DecodeCtor where
  /-- index of the struct in `valuesetDispatch.memNames` -/
  struct : Nat
  structName : String
  /-- the functions followed from the dispatch, e.g. `from_dbvs2 → from_dbv_iter` -/
  fn : String
  /-- the fields of `pub struct ValueSetX { … }` in declaration order -/
  nFields : Nat
  fieldNames : List String
  /-- the canonical in-memory constructor (`new` / `from_iter`) the decoder goes through, if it does -/
  via : Option String
  /-- otherwise: every `ValueSetX { … }` literal of the decoder, one `DecodeField` per field -/
  literals : List (List DecodeField)

end Kanidm.StoreCodec
