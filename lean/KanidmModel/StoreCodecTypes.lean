/-
C12 — types of the tables that `vtranslate storecodec-tables` regenerates from kanidm's source
(`KanidmModel/Generated/StoreCodecTables.lean`). Variants and record slots are numbered by the
translator in source order; the names are carried along for the driver and for readers, the
theorems only look at the numbers.
-/
namespace Kanidm.StoreCodec

/-- One variant→variant conversion pair read from an encoder `match` (in-memory enum → stored
enum) and the decoder `match` going back. `enc`/`dec` are association lists keyed by variant
index; a decoder arm that rejects (`Err`, `None`) is `none`. -/
structure TagPair where
  name : String
  memEnum : String
  dbEnum : String
  memNames : List String
  dbNames : List String
  /-- serde (JSON) name of each stored variant -/
  dbSerde : List String
  /-- the same names interned by the translator: equal strings ⇔ equal numbers -/
  dbSerdeIds : List Nat
  nMem : Nat
  nDb : Nat
  enc : List (Nat × Nat)
  dec : List (Nat × Option Nat)

/-- One arm of a record conversion: source variant, destination variant, and for every slot of
the destination (in its declaration order) the index of the source slot copied into it. -/
structure RecArm where
  src : Nat
  dst : Nat
  flow : List Nat

/-- A record conversion pair (variant tags *and* field flow), e.g. `Kdf ↔ DbPasswordV1`. -/
structure RecPair where
  name : String
  memArity : List Nat
  dbArity : List Nat
  memSlots : List (List String)
  dbSlots : List (List String)
  enc : List RecArm
  dec : List RecArm

/-- How a timestamp field is written: as an integer number of units of `unitNs` nanoseconds
(`time::serde::timestamp` = seconds: `unitNs = 10^9`; RFC 3339 text keeps nanoseconds: 1). -/
structure TimeCodec where
  unitNs : Nat

end Kanidm.StoreCodec
