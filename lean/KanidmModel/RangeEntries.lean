import KanidmModel.RangeDiff
import KanidmModel.Generated.RangeEntryOps
/-
C10 (extension) — which entries and which attribute changes the supplier sends once the ranges are
decided: `ReplicationUpdateVector::range_to_idl` (repl/ruv.rs 338-381), `BackendTransaction::
retrieve_range` (be/mod.rs 835-861) and `ReplIncrementalEntryV1::new` (repl/proto.rs 265-325).

The RUV holds two indexes: `ranged : server ↦ set of ts` and `ruv : cid ↦ id list`.  The bound kinds of
the `.range((lo, hi))` call and the per-attribute window test are generated from the source.
-/
namespace Kanidm.RangeEntries
open Kanidm.RangeDiff Kanidm.Gen.RangeEntries

structure Cid where
  s : Nat
  ts : Nat
deriving DecidableEq, Repr, Inhabited

/-- `State` of an entry's change state: attribute ↦ (cid, schema.is_replicated attr), or tombstone. -/
inductive EState where
  | live (at_ : Cid) (changes : List (Nat × Cid × Bool))
  | tombstone (at_ : Cid)
deriving DecidableEq, Repr

structure Entry where
  id : Nat
  st : EState
deriving DecidableEq, Repr

abbrev Ranged := List (Nat × List Nat)
abbrev RuvIdx := List (Cid × List Nat)

def lookupTs (m : Ranged) (s : Nat) : Option (List Nat) :=
  match m with
  | [] => none
  | (k, v) :: rest => if k = s then some v else lookupTs rest s

def lookupCid (m : RuvIdx) (c : Cid) : Option (List Nat) :=
  match m with
  | [] => none
  | (k, v) :: rest => if k = c then some v else lookupCid rest c

/-- `range_to_idl`: for every supplied range whose server the RUV knows, every ts of that server inside
the `.range((lo, hi))` bounds, the ids the RUV lists under that cid (none if the cid was trimmed). -/
def rangeToIdl (ranged : Ranged) (ruv : RuvIdx) (ctx : Ruv) : List Nat :=
  ctx.flatMap fun p =>
    match lookupTs ranged p.1 with
    | none => []
    | some tss =>
      (tss.filter fun ts => idlLower ts p.2.tsMin && idlUpper ts p.2.tsMax).flatMap fun ts =>
        match lookupCid ruv ⟨p.1, ts⟩ with
        | some ids => ids
        | none => []

/-- `retrieve_range`: the entries whose id is in the id list. -/
def retrieveRange (ranged : Ranged) (ruv : RuvIdx) (entries : List Entry) (ctx : Ruv) : List Entry :=
  entries.filter fun e => (rangeToIdl ranged ruv ctx).contains e.id

/-- The closure computing `within` in `ReplIncrementalEntryV1::new`, without the schema test. -/
def within (ctx : Ruv) (c : Cid) : Bool :=
  match lookup ctx c.s with
  | some r => attrWithin c.ts r.tsMin r.tsMax
  | none => attrMissingRange

inductive Sent where
  | live (id : Nat) (at_ : Cid) (attrs : List (Nat × Cid))
  | tombstone (id : Nat) (at_ : Cid)
deriving DecidableEq, Repr

/-- `ReplIncrementalEntryV1::new`. -/
def incrEntry (ctx : Ruv) (e : Entry) : Sent :=
  match e.st with
  | .live at_ changes =>
    .live e.id at_ ((changes.filter fun ch => ch.2.2 && within ctx ch.2.1).map fun ch => (ch.1, ch.2.1))
  | .tombstone at_ => .tombstone e.id at_

/-- The entry part of `supplier_provide_changes` after the ranges are chosen. -/
def supplyEntries (ranged : Ranged) (ruv : RuvIdx) (entries : List Entry) (ctx : Ruv) : List Sent :=
  (retrieveRange ranged ruv entries ctx).map (incrEntry ctx)

/-! ### Specification, from the property text -/

/-- A change lies in a supplied range: newer than what the consumer has, up to the supplier's newest. -/
def InRange (ctx : Ruv) (c : Cid) : Prop :=
  ∃ r, lookup ctx c.s = some r ∧ r.tsMin < c.ts ∧ c.ts ≤ r.tsMax

/-- `cid_iter`: the cids under which the RUV indexes an entry. -/
def cids (e : Entry) : List Cid :=
  match e.st with
  | .live _ changes => changes.map fun ch => ch.2.1
  | .tombstone at_ => [at_]

def HasChangeIn (ctx : Ruv) (e : Entry) : Prop := ∃ c, c ∈ cids e ∧ InRange ctx c

/-- RUV-index invariant, soundness: an id listed under a cid is an entry changed at that cid. -/
def IndexSound (ruv : RuvIdx) (entries : List Entry) : Prop :=
  ∀ p ∈ ruv, ∀ id ∈ p.2, ∀ e ∈ entries, e.id = id → p.1 ∈ cids e

/-- RUV-index invariant, completeness: every change of every entry is indexed in both maps. -/
def IndexComplete (ranged : Ranged) (ruv : RuvIdx) (entries : List Entry) : Prop :=
  ∀ e ∈ entries, ∀ c ∈ cids e,
    c.ts ∈ (lookupTs ranged c.s).getD [] ∧ e.id ∈ (lookupCid ruv c).getD []

/-- The supplied upper bounds are the supplier's newest change per server (`ok_ranges_exact`). -/
def Capped (ranged : Ranged) (ctx : Ruv) : Prop :=
  ∀ p ∈ ctx, ∀ ts ∈ (lookupTs ranged p.1).getD [], ts ≤ p.2.tsMax

/-- The supplied ranges are a map (`BTreeMap`): one window per server. -/
def MapLike (ctx : Ruv) : Prop := ∀ p ∈ ctx, lookup ctx p.1 = some p.2

instance (ruv : RuvIdx) (entries : List Entry) : Decidable (IndexSound ruv entries) := by
  unfold IndexSound; exact inferInstance
instance (ranged : Ranged) (ruv : RuvIdx) (entries : List Entry) :
    Decidable (IndexComplete ranged ruv entries) := by
  unfold IndexComplete; exact inferInstance
instance (ranged : Ranged) (ctx : Ruv) : Decidable (Capped ranged ctx) := by
  unfold Capped; exact inferInstance
instance (ctx : Ruv) : Decidable (MapLike ctx) := by
  unfold MapLike; exact inferInstance

end Kanidm.RangeEntries
