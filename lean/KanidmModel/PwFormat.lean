import KanidmModel.Generated.PwFormatTables
/-!
# C30 — the import-format layer of `kanidm_lib_crypto::Password` and the verify decision wrapper

Transcribes (libs/crypto/src/lib.rs):
* `impl TryFrom<&str> for Password` (the prefix `if` chain and the `{tag}` match — both read from the
  generated tables), `parse_django_password`, `parse_ipanthash`, `parse_sambantpassword`,
  `parse_crypt`, `parse_pbkdf2` (+ the `ab64_to_b64!` macro), `parse_argon` (with the PHC string
  rules of `password-hash 0.5`), the DS `{SHA…}`/`{SSHA…}` arms;
* the decoders those call: `base64` 0.23 general-purpose engine (`decode_suffix`: terminal quad,
  padding modes RequireCanonical / RequireNone, `decode_allow_trailing_bits`), `hex::decode`,
  `str::parse::<u32>`;
* `sha_crypt::sha{256,512}_check`'s reading of `$5$`/`$6$` strings (rounds, salt, hash fields);
* `Password::verify_ctx`: length guard, then one primitive per `Kdf` variant (generated table).

Strings are `List Char`, byte strings `List Nat`. Import-free apart from the generated tables.
-/
namespace Kanidm.PwFormat
open Kanidm.Gen.PwFormat

abbrev Bytes := List Nat

/-- `enum PasswordError` (payloads dropped). -/
inductive PwErr where
  | Base64Decoding | InvalidFormat | InvalidKeyLength | InvalidLength | InvalidSaltLength
  | UnsupportedAlgorithm | NoDecoderFound | ParsingFailed
  deriving DecidableEq, Repr

/-- `enum Kdf` as a tagged record: fields a variant does not carry stay at their defaults. -/
structure Kdf where
  tag : KdfTag
  cost : Nat := 0
  m : Nat := 0
  t : Nat := 0
  p : Nat := 0
  v : Nat := 0
  salt : Bytes := []
  hash : Bytes := []
  /-- `h: String` of CRYPT_SHA256 / CRYPT_SHA512 -/
  text : List Char := []
  deriving DecidableEq, Repr

/-- the import is refused with error `e` -/
def refused (e : PwErr) : Except PwErr Kdf := .error e
/-- the import is stored as `k` -/
def stored (k : Kdf) : Except PwErr Kdf := .ok k

/-! ## strings -/

/-- `str::strip_prefix` -/
def stripPrefix : List Char → List Char → Option (List Char)
  | [], s => some s
  | _ :: _, [] => none
  | p :: ps, c :: cs => if p = c then stripPrefix ps cs else none

/-- `str::starts_with` -/
def startsWith (p s : List Char) : Bool := (stripPrefix p s).isSome

/-- `str::split(sep)` (always at least one field). -/
def splitChar (sep : Char) : List Char → List (List Char)
  | [] => [[]]
  | c :: cs =>
    if c = sep then [] :: splitChar sep cs
    else match splitChar sep cs with
      | [] => [[c]]
      | h :: t => (c :: h) :: t

/-- `str::split_once(sep)` -/
def splitOnce (sep : Char) : List Char → Option (List Char × List Char)
  | [] => none
  | c :: cs =>
    if c = sep then some ([], cs)
    else match splitOnce sep cs with
      | none => none
      | some (a, b) => some (c :: a, b)

/-- `str::to_lowercase`, exact on every string whose lower-casing is one of the ASCII tags: ASCII
upper case, and U+212A KELVIN SIGN (the only non-ASCII scalar whose lower case is ASCII). Any other
non-ASCII scalar lower-cases to non-ASCII text, which no tag matches — it is kept as is. -/
def lowerChar (c : Char) : Char :=
  if c.toNat = 0x212A then 'k'
  else if 65 ≤ c.toNat ∧ c.toNat ≤ 90 then Char.ofNat (c.toNat + 32) else c

def lower (s : List Char) : List Char := s.map lowerChar

def isDigit (c : Char) : Bool := 48 ≤ c.toNat && c.toNat ≤ 57

def digitsVal (s : List Char) : Nat := s.foldl (fun acc c => acc * 10 + (c.toNat - 48)) 0

/-- decimal digits only, non-empty, value below `bound` (overflow = error) -/
def parseDigits (bound : Nat) (s : List Char) : Option Nat :=
  if s.isEmpty || !s.all isDigit then none
  else if digitsVal s < bound then some (digitsVal s) else none

/-- `str::parse::<u32>()` / `::<usize>()`: optional leading `+`, then digits. -/
def parseUnsigned (bound : Nat) (s : List Char) : Option Nat :=
  match s with
  | '+' :: rest => parseDigits bound rest
  | _ => parseDigits bound s

def parseU32 (s : List Char) : Option Nat := parseUnsigned (2 ^ 32) s

/-- UTF-8 bytes of a string (`str::as_bytes`). -/
def utf8 (s : List Char) : Bytes := (String.ofList s).toUTF8.toList.map (·.toNat)

/-! ## base64 (crate `base64` 0.23, general-purpose engine) -/

inductive Alphabet where
  | standard | urlSafe | crypt
  deriving DecidableEq, Repr

/-- symbol value of a character -/
def symVal (a : Alphabet) (c : Char) : Option Nat :=
  let n := c.toNat
  match a with
  | .crypt =>
    if n = 46 then some 0 else if n = 47 then some 1
    else if 48 ≤ n ∧ n ≤ 57 then some (n - 46)
    else if 65 ≤ n ∧ n ≤ 90 then some (n - 53)
    else if 97 ≤ n ∧ n ≤ 122 then some (n - 59) else none
  | _ =>
    if 65 ≤ n ∧ n ≤ 90 then some (n - 65)
    else if 97 ≤ n ∧ n ≤ 122 then some (n - 71)
    else if 48 ≤ n ∧ n ≤ 57 then some (n + 4)
    else match a with
      | .standard => if n = 43 then some 62 else if n = 47 then some 63 else none
      | _ => if n = 45 then some 62 else if n = 95 then some 63 else none

/-- the character of a symbol value (< 64) -/
def symChar (a : Alphabet) (v : Nat) : Char :=
  match a with
  | .crypt =>
    if v = 0 then '.' else if v = 1 then '/'
    else if v < 12 then Char.ofNat (v + 46)
    else if v < 38 then Char.ofNat (v + 53) else Char.ofNat (v + 59)
  | _ =>
    if v < 26 then Char.ofNat (v + 65)
    else if v < 52 then Char.ofNat (v + 71)
    else if v < 62 then Char.ofNat (v - 4)
    else match a with
      | .standard => if v = 62 then '+' else '/'
      | _ => if v = 62 then '-' else '_'

inductive PadMode where
  | requireCanonical | requireNone
  deriving DecidableEq, Repr

/-- `decode_suffix` loop over the terminal (≤ 4 character) chunk: `(index, pads, morsels)`;
`none` = InvalidByte. -/
def scanSuffix (a : Alphabet) : List Char → Nat → Nat → List Nat → Option (Nat × List Nat)
  | [], _, pads, ms => some (pads, ms)
  | c :: cs, i, pads, ms =>
    if c = '=' then
      if i < 2 then none else scanSuffix a cs (i + 1) (pads + 1) ms
    else if pads > 0 then none
    else match symVal a c with
      | none => none
      | some v => scanSuffix a cs (i + 1) pads (ms ++ [v])

/-- bytes and left-over (trailing) bits of the terminal chunk's morsels -/
def suffixBytes : List Nat → Bytes × Nat
  | [v0, v1] => ([v0 * 4 + v1 / 16], v1 % 16)
  | [v0, v1, v2] => ([v0 * 4 + v1 / 16, (v1 % 16) * 16 + v2 / 4], v2 % 4)
  | [v0, v1, v2, v3] => ([v0 * 4 + v1 / 16, (v1 % 16) * 16 + v2 / 4, (v2 % 4) * 64 + v3], 0)
  | _ => ([], 0)

def decodeSuffix (a : Alphabet) (pm : PadMode) (allowTrailing : Bool) (suf : List Char) : Option Bytes :=
  match scanSuffix a suf 0 0 [] with
  | none => none
  | some (pads, ms) =>
    if ms.length < 2 then none
    else if pm = .requireCanonical && (pads + ms.length) % 4 != 0 then none
    else if pm = .requireNone && pads > 0 then none
    else
      let (bs, trailing) := suffixBytes ms
      if !allowTrailing && trailing != 0 then none else some bs

/-- `Engine::decode`: complete non-terminal quads, then `decode_suffix` on the last 1–4 characters. -/
def b64Decode (a : Alphabet) (pm : PadMode) (allowTrailing : Bool) : List Char → Option Bytes
  | [] => some []
  | c0 :: c1 :: c2 :: c3 :: c4 :: rest =>
    match symVal a c0, symVal a c1, symVal a c2, symVal a c3 with
    | some v0, some v1, some v2, some v3 =>
      match b64Decode a pm allowTrailing (c4 :: rest) with
      | some bs => some ((v0 * 4 + v1 / 16) :: ((v1 % 16) * 16 + v2 / 4) :: ((v2 % 4) * 64 + v3) :: bs)
      | none => none
    | _, _, _, _ => none
  | suf => decodeSuffix a pm allowTrailing suf

/-- encoder (RFC 4648) over an alphabet, with or without `=` padding -/
def b64Encode (a : Alphabet) (pad : Bool) : Bytes → List Char
  | [] => []
  | [b0] => [symChar a (b0 / 4), symChar a ((b0 % 4) * 16)] ++ (if pad then ['=', '='] else [])
  | [b0, b1] =>
    [symChar a (b0 / 4), symChar a ((b0 % 4) * 16 + b1 / 16), symChar a ((b1 % 16) * 4)] ++ (if pad then ['='] else [])
  | b0 :: b1 :: b2 :: rest =>
    symChar a (b0 / 4) :: symChar a ((b0 % 4) * 16 + b1 / 16) :: symChar a ((b1 % 16) * 4 + b2 / 64)
      :: symChar a (b2 % 64) :: b64Encode a pad rest

/-- `general_purpose::STANDARD.decode` -/
def decodeStd (s : List Char) : Option Bytes := b64Decode .standard .requireCanonical false s

def dotToPlus (c : Char) : Char := if c = '.' then '+' else c
def plusToDot (c : Char) : Char := if c = '+' then '.' else c

/-- the `ab64_to_b64!` macro -/
def ab64ToB64 (s : List Char) : List Char :=
  let s := s.map dotToPlus
  match s.length % 4 with
  | 2 => s ++ ['=', '=']
  | 3 => s ++ ['=']
  | _ => s

/-- parse_pbkdf2's decoder: STANDARD alphabet, canonical padding, trailing bits allowed -/
def decodeAb64 (s : List Char) : Option Bytes := b64Decode .standard .requireCanonical true (ab64ToB64 s)

/-- passlib's adapted base64 writer -/
def ab64Encode (b : Bytes) : List Char :=
  (b64Encode .standard false b).map plusToDot

/-! ## hex (`hex::decode`) -/

def hexVal (c : Char) : Option Nat :=
  let n := c.toNat
  if 48 ≤ n ∧ n ≤ 57 then some (n - 48)
  else if 97 ≤ n ∧ n ≤ 102 then some (n - 87)
  else if 65 ≤ n ∧ n ≤ 70 then some (n - 55) else none

def hexDecode : List Char → Option Bytes
  | [] => some []
  | [_] => none
  | a :: b :: rest =>
    match hexVal a, hexVal b, hexDecode rest with
    | some x, some y, some bs => some ((x * 16 + y) :: bs)
    | _, _, _ => none

def hexDigit (upper : Bool) (v : Nat) : Char :=
  if v < 10 then Char.ofNat (v + 48) else Char.ofNat (v + (if upper then 55 else 87))

def hexEncode (upper : Bool) : Bytes → List Char
  | [] => []
  | b :: rest => hexDigit upper (b / 16) :: hexDigit upper (b % 16) :: hexEncode upper rest

/-! ## the parsers -/

def lookup {β : Type} (k : List Char) : List (List Char × β) → Option β
  | [] => none
  | (k', v) :: t => if k = k' then some v else lookup k t

/-- `parse_django_password` -/
def parseDjango (value : List Char) : Except PwErr Kdf :=
  match splitChar '$' value with
  | [_algo, cost, salt, hash] =>
    match parseU32 cost with
    | none => .error .ParsingFailed
    | some c =>
      match decodeStd hash with
      | none => .error .Base64Decoding
      | some h =>
        if djangoKeyTooShort h.length then .error .InvalidLength
        else .ok { tag := .PBKDF2, cost := c, salt := utf8 salt, hash := h }
  | _ => .error .InvalidLength

/-- `parse_ipanthash`: URL_SAFE_NO_PAD, or else URL_SAFE -/
def parseIpaNtHash (hv : List Char) : Except PwErr Kdf :=
  match b64Decode .urlSafe .requireNone false hv with
  | some h => .ok { tag := .NT_MD4, hash := h }
  | none =>
    match b64Decode .urlSafe .requireCanonical false hv with
    | some h => .ok { tag := .NT_MD4, hash := h }
    | none => .error .Base64Decoding

/-- `parse_sambantpassword` -/
def parseSambaNt (hv : List Char) : Except PwErr Kdf :=
  match hexDecode hv with
  | some h => .ok { tag := .NT_MD4, hash := h }
  | none => .error .ParsingFailed

/-- first matching prefix of `parse_crypt`'s `if` chain: `(variant, rest after the prefix)` -/
def cryptPrefix : List (List Char × KdfTag) → List Char → Option (KdfTag × List Char)
  | [], _ => none
  | (p, k) :: t, s =>
    match stripPrefix p s with
    | some r => some (k, r)
    | none => cryptPrefix t s

/-- `parse_crypt` -/
def parseCrypt (hv : List Char) : Except PwErr Kdf :=
  match cryptPrefix cryptTable hv with
  | some (.CRYPT_MD5, rest) =>
    match splitOnce '$' rest with
    | none => .error .ParsingFailed
    | some (salt, hash) => .ok { tag := .CRYPT_MD5, salt := utf8 salt, hash := utf8 hash }
  | some (k, _) => .ok { tag := k, text := hv }
  | none => .error .UnsupportedAlgorithm

/-- `parse_pbkdf2` -/
def parsePbkdf2 (fmt hv : List Char) : Except PwErr Kdf :=
  match splitChar '$' hv with
  | [cost, salt, hash] =>
    match parseU32 cost with
    | none => .error .ParsingFailed
    | some c =>
      match decodeAb64 salt with
      | none => .error .Base64Decoding
      | some s =>
        match decodeAb64 hash with
        | none => .error .Base64Decoding
        | some h =>
          match lookup fmt pbkdf2Table with
          | none => .error .UnsupportedAlgorithm
          | some (minLen, k) =>
            if h.length < minLen then .error .InvalidKeyLength
            else .ok { tag := k, cost := c, salt := s, hash := h }
  | _ => .error .InvalidLength

/-! ### PHC strings (`password_hash::PasswordHash::parse`, Encoding::B64) and `parse_argon` -/

def phcValueChar (c : Char) : Bool :=
  let n := c.toNat
  (65 ≤ n && n ≤ 90) || (97 ≤ n && n ≤ 122) || (48 ≤ n && n ≤ 57) || n = 47 || n = 43 || n = 46 || n = 45

def phcIdentChar (c : Char) : Bool :=
  let n := c.toNat
  (97 ≤ n && n ≤ 122) || (48 ≤ n && n ≤ 57) || n = 45

/-- `Ident::new` -/
def phcIdentOk (s : List Char) : Bool := 1 ≤ s.length && s.length ≤ 32 && s.all phcIdentChar

/-- `Value::new` -/
def phcValueOk (s : List Char) : Bool := s.length ≤ 64 && s.all phcValueChar

/-- `Value::decimal` -/
def phcDecimal (s : List Char) : Option Nat :=
  if s.isEmpty || !s.all isDigit then none
  else if s.head? = some '0' && s.length > 1 then none
  else parseDigits (2 ^ 32) s

/-- `ParamsString::from_str`: the `(name, value)` pairs, or `none` on any error -/
def phcParams (s : List Char) : Option (List (List Char × List Char)) :=
  if s.length > 127 then none
  else (splitChar ',' s).mapM fun param =>
    match splitChar '=' param with
    | [n, v] => if phcIdentOk n && phcValueOk v then some (n, v) else none
    | _ => none

/-- `Encoding::B64.decode` (base64ct, unpadded, strict) into a 64-byte buffer -/
def phcB64 (s : List Char) : Option Bytes :=
  match b64Decode .standard .requireNone false s with
  | some b => if b.length ≤ 64 then some b else none
  | none => none

/-- `Salt::from_b64` -/
def phcSaltOk (s : List Char) : Bool := 4 ≤ s.length && s.length ≤ 64 && s.all phcValueChar

/-- `Output::decode` -/
def phcOutput (s : List Char) : Option Bytes :=
  match phcB64 s with
  | some b => if 10 ≤ b.length && b.length ≤ 64 then some b else none
  | none => none

structure Phc where
  alg : List Char
  version : Option Nat
  params : List (List Char × List Char)
  salt : Option (List Char)
  hash : Option Bytes

/-- after the algorithm field: `[$v=…][$params][$salt[$hash]]` -/
def phcRest (alg : List Char) (fs : List (List Char)) : Option Phc :=
  -- optional version
  let verStep : Option (Option Nat × List (List Char)) :=
    match fs with
    | f :: rest =>
      if startsWith ['v', '='] f && !f.contains ',' then
        if phcValueOk (f.drop 2) then
          match phcDecimal (f.drop 2) with
          | some v => some (some v, rest)
          | none => none
        else none
      else some (none, fs)
    | [] => some (none, [])
  match verStep with
  | none => none
  | some (ver, fs) =>
    let parStep : Option (List (List Char × List Char) × List (List Char)) :=
      match fs with
      | f :: rest => if f.contains '=' then (phcParams f).map (·, rest) else some ([], fs)
      | [] => some ([], [])
    match parStep with
    | none => none
    | some (params, fs) =>
      match fs with
      | [] => some ⟨alg, ver, params, none, none⟩
      | [s] => if phcSaltOk s then some ⟨alg, ver, params, some s, none⟩ else none
      | [s, h] =>
        if phcSaltOk s then
          match phcOutput h with
          | some hb => some ⟨alg, ver, params, some s, some hb⟩
          | none => none
        else none
      | _ => none

/-- `PasswordHash::parse` -/
def phcParse (s : List Char) : Option Phc :=
  if s.isEmpty then none
  else match splitChar '$' s with
    | [] :: alg :: rest => if phcIdentOk alg then phcRest alg rest else none
    | _ => none

/-- `ParamsString::get_decimal` -/
def phcGetDecimal (name : List Char) : List (List Char × List Char) → Option Nat
  | [] => none
  | (n, v) :: t => if n = name then phcDecimal v else phcGetDecimal name t

/-- `parse_argon` -/
def parseArgon (hv : List Char) : Except PwErr Kdf :=
  match phcParse hv with
  | none => .error .ParsingFailed
  | some phc =>
    if phc.alg ≠ ['a', 'r', 'g', 'o', 'n', '2', 'i', 'd'] then .error .UnsupportedAlgorithm
    else
      let version := phc.version.getD argon2Version
      if version ≠ 16 ∧ version ≠ 19 then .error .ParsingFailed
      else
        match phcGetDecimal ['m'] phc.params, phcGetDecimal ['t'] phc.params, phcGetDecimal ['p'] phc.params with
        | some m, some t, some p =>
          match phc.salt.bind phcB64, phc.hash with
          | some salt, some key => .ok { tag := .ARGON2ID, m := m, t := t, p := p, v := version, salt := salt, hash := key }
          | _, _ => .error .ParsingFailed
        | _, _, _ => .error .ParsingFailed

/-- the `match hash_format.as_str()` of the `{tag}value` branch (tag already lower-cased) -/
def parseTagged (tag hv : List Char) : Except PwErr Kdf :=
  match lookup tag tagTable with
  | none => .error .NoDecoderFound
  | some .pbkdf2 => parsePbkdf2 tag hv
  | some .invalidFormat => .error .InvalidFormat
  | some .argon => parseArgon hv
  | some .crypt => parseCrypt hv
  | some (.ds n k) =>
    match decodeStd hv with
    | none => .error .Base64Decoding
    | some h => if h.length ≠ n then .error .InvalidSaltLength else .ok { tag := k, hash := h }
  | some (.dss n strict k) =>
    match decodeStd hv with
    | none => .error .Base64Decoding
    | some sh =>
      if strict && sh.length ≤ n then .error .InvalidSaltLength
      else if sh.length < n then .error .InvalidLength
      else .ok { tag := k, salt := sh.drop n, hash := sh.take n }

/-- the `{tag}value` branch of `TryFrom<&str>` -/
def parseBraced (value : List Char) : Except PwErr Kdf :=
  match splitOnce '}' value with
  | none => .error .InvalidFormat
  | some (fmt, hv) => parseTagged (lower ((stripPrefix ['{'] fmt).getD fmt)) hv

/-- first matching entry of the leading `if` chain -/
def firstPrefix : List (List Char × Bool × TopParser) → List Char → Option (TopParser × List Char)
  | [], _ => none
  | (p, strip, k) :: t, v =>
    match stripPrefix p v with
    | some r => some (k, if strip then r else v)
    | none => firstPrefix t v

/-- `impl TryFrom<&str> for Password` -/
def parse (value : List Char) : Except PwErr Kdf :=
  match firstPrefix prefixTable value with
  | some (.parse_django_password, v) => parseDjango v
  | some (.parse_ipanthash, v) => parseIpaNtHash v
  | some (.parse_sambantpassword, v) => parseSambaNt v
  | some (.braced, v) => parseBraced v
  | none => .error .NoDecoderFound

/-! ## `sha_crypt::sha{256,512}_check`: how a `$5$` / `$6$` string is read at verify time -/

structure ShaCrypt where
  rounds : Nat
  /-- salt as used (first 16 bytes) -/
  salt : List Char
  hash : List Char
  deriving DecidableEq, Repr

def shaCryptRoundsMin : Nat := 1000
def shaCryptRoundsMax : Nat := 999999999
def shaCryptRoundsDefault : Nat := 5000

/-- `none` = the check returns an error for every cleartext (never valid). `id` is '5' or '6'. -/
def shaCryptRead (id : Char) (h : List Char) : Option ShaCrypt :=
  match splitChar '$' h with
  | [] :: [i] :: f2 :: more =>
    if i ≠ id then none
    else
      let fin (rounds : Nat) (fs : List (List Char)) : Option ShaCrypt :=
        match fs with
        | [salt, hash] =>
          if shaCryptRoundsMin ≤ rounds ∧ rounds ≤ shaCryptRoundsMax then some ⟨rounds, salt.take 16, hash⟩ else none
        | _ => none
      if startsWith ['r', 'o', 'u', 'n', 'd', 's', '='] f2 then
        match parseUnsigned (2 ^ 64) (f2.drop 7) with
        | some r => fin r more
        | none => none
      else fin shaCryptRoundsDefault (f2 :: more)
  | _ => none

/-! ## rendering (the producers' syntax) -/

def natDigitsAux : Nat → Nat → List Char → List Char
  | 0, _, acc => acc
  | fuel + 1, n, acc =>
    let acc := Char.ofNat (n % 10 + 48) :: acc
    if n / 10 = 0 then acc else natDigitsAux fuel (n / 10) acc

/-- decimal rendering -/
def natDigits (n : Nat) : List Char := natDigitsAux (n + 1) n []

def dollar : List (List Char) → List Char
  | [] => []
  | [a] => a
  | a :: rest => a ++ '$' :: dollar rest

def renderDjango (cost : Nat) (salt : List Char) (hash : Bytes) : List Char :=
  dollar [['p','b','k','d','f','2','_','s','h','a','2','5','6'], natDigits cost, salt, b64Encode .standard true hash]

def renderBraced (tag value : List Char) : List Char := '{' :: tag ++ '}' :: value

def renderPbkdf2 (tag : List Char) (cost : Nat) (salt hash : Bytes) : List Char :=
  renderBraced tag (dollar [natDigits cost, ab64Encode salt, ab64Encode hash])

def renderDs (tag : List Char) (hash salt : Bytes) : List Char :=
  renderBraced tag (b64Encode .standard true (hash ++ salt))

def renderSambaNt (upper : Bool) (hash : Bytes) : List Char :=
  ['s','a','m','b','a','N','T','P','a','s','s','w','o','r','d',':',' '] ++ hexEncode upper hash

def renderIpaNtHash (pad : Bool) (hash : Bytes) : List Char :=
  ['i','p','a','N','T','H','a','s','h',':',' '] ++ b64Encode .urlSafe pad hash

def renderCryptMd5 (tag salt hash : List Char) : List Char :=
  renderBraced tag (['$', '1', '$'] ++ salt ++ '$' :: hash)

/-! ## `Password::verify_ctx` (no HSM context) -/

/-- the primitives, abstract: any implementation of the named algorithms -/
structure Prims where
  digest : Hash → Bytes → Bytes
  pbkdf2 : Hash → (pw salt : Bytes) → (cost keyLen : Nat) → Bytes
  md4 : Bytes → Bytes
  /-- UTF-8 cleartext ↦ UTF-16LE bytes -/
  utf16le : Bytes → Bytes
  md5Crypt : (pw salt : Bytes) → Bytes
  shaCryptCheck : Hash → (pw : Bytes) → (h : List Char) → Bool
  /-- `none` = parameter / version / hashing error -/
  argon2id : (pw salt : Bytes) → (m t p v keyLen : Nat) → Option Bytes

inductive VerifyErr where
  | HsmContextMissing | Argon2 | NoArm
  deriving DecidableEq, Repr

def feedBytes (ct salt : Bytes) : List Feed → Bytes
  | [] => []
  | .cleartext :: t => ct ++ feedBytes ct salt t
  | .salt :: t => salt ++ feedBytes ct salt t

/-- run one verify arm -/
def runPrim (P : Prims) (prim : Prim) (k : Kdf) (ct : Bytes) : Except VerifyErr Bool :=
  match prim with
  | .tpmArgon2id => .error .HsmContextMissing
  | .hsmMissing => .error .HsmContextMissing
  | .argon2id =>
    match P.argon2id ct k.salt k.m k.t k.p k.v k.hash.length with
    | some key => .ok (key == k.hash)
    | none => .error .Argon2
  | .pbkdf2 h => .ok (P.pbkdf2 h ct k.salt k.cost k.hash.length == k.hash)
  | .digest h feeds => .ok (P.digest h (feedBytes ct k.salt feeds) == k.hash)
  | .md4Utf16le => .ok (P.md4 (P.utf16le ct) == k.hash)
  | .md5Crypt => .ok (P.md5Crypt ct k.salt == k.hash)
  | .shaCrypt h => .ok (P.shaCryptCheck h ct k.text)

def lookupTag {β : Type} (k : KdfTag) : List (KdfTag × β) → Option β
  | [] => none
  | (k', v) :: t => if k = k' then some v else lookupTag k t

/-- `Password::verify_ctx(cleartext, None)` -/
def verify (P : Prims) (k : Kdf) (ct : Bytes) : Except VerifyErr Bool :=
  if tooLong ct.length then .ok false
  else match lookupTag k.tag verifyTable with
    | some prim => runPrim P prim k ct
    | none => .error .NoArm

/-- what each stored format *is* (format definitions, written by hand — not read from kanidm):
the primitive an independent implementation of that format runs. -/
def specPrim : KdfTag → Prim
  | .TPM_ARGON2ID => .hsmMissing
  | .ARGON2ID => .argon2id
  | .PBKDF2 => .pbkdf2 .Sha256
  | .PBKDF2_SHA1 => .pbkdf2 .Sha1
  | .PBKDF2_SHA512 => .pbkdf2 .Sha512
  | .SHA1 => .digest .Sha1 [.cleartext]
  | .SSHA1 => .digest .Sha1 [.cleartext, .salt]
  | .SHA256 => .digest .Sha256 [.cleartext]
  | .SSHA256 => .digest .Sha256 [.cleartext, .salt]
  | .SHA512 => .digest .Sha512 [.cleartext]
  | .SSHA512 => .digest .Sha512 [.cleartext, .salt]
  | .NT_MD4 => .md4Utf16le
  | .CRYPT_MD5 => .md5Crypt
  | .CRYPT_SHA256 => .shaCrypt .Sha256
  | .CRYPT_SHA512 => .shaCrypt .Sha512

/-- an independent implementation of the stored format accepts `ct` -/
def refAccepts (P : Prims) (k : Kdf) (ct : Bytes) : Except VerifyErr Bool :=
  runPrim P (specPrim k.tag) k ct

/-- storage round trip of the variant tag: `to_dbpasswordv1` then `TryFrom<DbPasswordV1>` -/
def dbRoundTrip (k : KdfTag) : Option KdfTag :=
  (lookupTag k toDb).bind fun d => lookupTag d fromDb

end Kanidm.PwFormat
