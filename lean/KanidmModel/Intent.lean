import KanidmModel.Generated.IntentOps
/-!
# Model of the credential-reset link ("intent token") state machine (C37)

Transcription of `server/lib/src/idm/credupdatesession.rs`:
`build_credential_update_intent` (behind `init_credential_update_intent`),
`exchange_intent_credential_update`, `init_credential_update`, `create_credupdate_session`,
`expire_credential_update_sessions`, `credential_update_commit_common`,
`commit_credential_update`, `cancel_credential_update`, `revoke_credential_update_intent`,
`get_current_session` + `credential_primary_set_password`; of `enum IntentTokenState`
(`value.rs`) and of the way `core/src/actors/v1_write.rs` wraps each of them in one
`proxy_write` transaction that is committed iff the function returned `Ok` (so an `Err` leaves
the stored links *and* the in-memory session map untouched).

* Time (`Duration`) is a `Nat` of nanoseconds. Every operation carries its own `ct`; nothing in
  the model assumes time to be monotone.
* A session id is `uuid_from_duration(ct + MAXIMUM_CRED_UPDATE_TTL, sid)` where `sid` is drawn at
  random by every `proxy_write`; it is an explicit input of the operations that create sessions.
* Link ids (`readable_password_from_random`, 2^112) are modelled as fresh: `init` allocates
  `nextLink`. The search by link id runs over all accounts, as in the code.
* The session map is `BptreeMap<Uuid, _>`: insert replaces, `split_off_lt` drops smaller keys.
* Credentials: one abstract primary credential value per account (`creds`), the session's working
  copy `primary`; `can_commit` is modelled for the policy-free, passkey-free case only; password
  quality, access rights and the JWE token encryption are outside the model (see props/C37.json).

Every constant, comparison, `match` arm table and written state used below comes from
`Generated/IntentOps.lean`, regenerated from the source on every run.
-/
namespace Kanidm.Intent
open Kanidm.Gen.Intent

/-- Nanoseconds per second. -/
def NS : Nat := 1000000000

/-- `MAXIMUM_CRED_UPDATE_TTL` as a `Duration`. -/
def credUpdateTtl : Nat := credUpdateTtlSecs * NS

/-- `enum IntentTokenState` (the `perms` payload is carried unchanged by every transition and is
not modelled). -/
inductive LState
  | valid (maxTtl : Nat)
  | inProgress (maxTtl : Nat) (sess : SessId) (sessTtl : Nat)
  | consumed (maxTtl : Nat)
  deriving DecidableEq, Repr

def LState.maxTtl : LState → Nat
  | .valid m => m
  | .inProgress m _ _ => m
  | .consumed m => m

def LState.tag : LState → Tag
  | .valid _ => .valid
  | .inProgress _ _ _ => .inProgress
  | .consumed _ => .consumed

def LState.sess? : LState → Option SessId
  | .inProgress _ s _ => some s
  | _ => none

/-- One value of the `credential_update_intent_token` attribute of account `acct`. -/
structure Link where
  id : Nat
  acct : Nat
  st : LState
  deriving DecidableEq, Repr

/-- `struct CredentialUpdateSession` (the parts the property turns on). -/
structure Sess where
  id : SessId
  link : Option Nat
  acct : Nat
  primary : Option Nat
  deriving DecidableEq, Repr

/-- `struct CredentialUpdateSessionTokenInner { sessionid, max_ttl }`. -/
structure Token where
  sess : SessId
  maxTtl : Nat
  deriving DecidableEq, Repr

structure State where
  links : List Link
  sessions : List Sess
  creds : List (Nat × Nat)
  nextLink : Nat
  deriving DecidableEq, Repr

def State.empty : State := ⟨[], [], [], 0⟩

inductive Res
  | link (id expiry : Nat)
  | token (tok : Token)
  | pwset
  | committed (link : Option Nat) (acct : Nat) (cred : Option Nat)
  | cancelled (link : Option Nat)
  | revoked
  | err (e : Err)
  deriving DecidableEq, Repr

inductive Op
  /-- `init_credential_update_intent` -/
  | init (acct : Nat) (ttl : Option Nat) (ct : Nat)
  /-- `exchange_intent_credential_update` in a transaction whose random `sid` is `sid` -/
  | exchange (link : Nat) (ct : Nat) (sid : Nat)
  /-- `init_credential_update` (a session without a link) -/
  | direct (acct : Nat) (ct : Nat) (sid : Nat)
  /-- `credential_primary_set_password` -/
  | setpw (tok : Token) (v : Nat) (ct : Nat)
  /-- `commit_credential_update` -/
  | commit (tok : Token) (ct : Nat)
  /-- `cancel_credential_update` -/
  | cancel (tok : Token) (ct : Nat)
  /-- `revoke_credential_update_intent` -/
  | revoke (link : Nat) (ct : Nat)
  deriving DecidableEq, Repr

/-! ## Helpers -/

/-- Bytewise `Uuid` order of session ids. -/
def sessLt (a b : SessId) : Bool :=
  decide (a.t < b.t) || (decide (a.t = b.t) && decide (a.sid < b.sid))

def getCred (a : Nat) (creds : List (Nat × Nat)) : Option Nat :=
  (creds.find? (fun p => p.1 == a)).map (·.2)

/-- `Modify::Purged(PrimaryCredential)` followed by `Modify::Present` when the session holds one. -/
def setCred (a : Nat) (v : Option Nat) (creds : List (Nat × Nat)) : List (Nat × Nat) :=
  match v with
  | none => creds.filter (fun p => p.1 != a)
  | some x => (a, x) :: creds.filter (fun p => p.1 != a)

/-- The `IntentTokenState` value a `Modify::Present` writes, by variant tag. -/
def mkState (t : Tag) (maxTtl : Nat) (sess : SessId) (sessTtl : Nat) : Option LState :=
  match t with
  | .valid => some (.valid maxTtl)
  | .inProgress => some (.inProgress maxTtl sess sessTtl)
  | .consumed => some (.consumed maxTtl)
  | .absent => none

/-- `Modify::Removed(id)` + `Modify::Present(id, new)` on account `acct`. -/
def setLink (acct id : Nat) (t : Tag) (sess : SessId) (sessTtl : Nat) (links : List Link) : List Link :=
  links.filterMap (fun l =>
    if l.id == id && l.acct == acct then
      (mkState t l.st.maxTtl sess sessTtl).map (fun st => { l with st := st })
    else some l)

/-- `account.credential_update_intent_tokens.get(id)` -/
def linkOf (links : List Link) (acct id : Nat) : Option Link :=
  links.find? (fun l => l.id == id && l.acct == acct)

def tagOf : Option Link → Tag
  | none => .absent
  | some l => l.st.tag

/-- The session-id test of a `checkSession` arm on the stored state (a state without a session
id cannot reach the test in the source; it counts as a conflict). -/
def conflictOf (f : SessId → SessId → Bool) (l? : Option Link) (tok : SessId) : Bool :=
  match l?.bind (fun l => l.st.sess?) with
  | some s => f s tok
  | none => true

/-- Run one generated arm: `some e` = the function returns `Err(e)`, `none` = it goes on to write.
(`skip` only occurs in `revoke`, where it is handled separately.) -/
def gate (arm : Arm) (conflict : Bool) : Option Err :=
  match arm with
  | .reject e => some e
  | .proceed => none
  | .checkSession e => if conflict then some e else none
  | .skip => some .invalidState

/-- `expire_credential_update_sessions(ct)` in a transaction with `sid`. -/
def expire (sessions : List Sess) (ct sid : Nat) : List Sess :=
  sessions.filter (fun se => !(sessLt se.id ⟨expireSplitTime ct, sid⟩))

/-- `cred_update_sessions.insert(sessionid, session)` -/
def insertSess (se : Sess) (sessions : List Sess) : List Sess :=
  sessions.filter (fun x => x.id != se.id) ++ [se]

/-- `create_credupdate_session` (from "Point of no return" on). -/
def createSession (s : State) (id : SessId) (link : Option Nat) (acct ct sid : Nat) : List Sess × Token :=
  (insertSess ⟨id, link, acct, getCred acct s.creds⟩ (expire s.sessions ct sid),
   ⟨id, tokenMaxTtl ct credUpdateTtl⟩)

/-- `mttl.clamp(MINIMUM_INTENT_TTL, MAXIMUM_INTENT_TTL)` of `max_ttl.unwrap_or(DEFAULT_INTENT_TTL)` -/
def clampTtl (ttl : Option Nat) : Nat :=
  let m := ttl.getD (defaultIntentTtlSecs * NS)
  if m < minIntentTtlSecs * NS then minIntentTtlSecs * NS
  else if m > maxIntentTtlSecs * NS then maxIntentTtlSecs * NS else m

/-! ## The operations -/

/-- `init_credential_update_intent` → `build_credential_update_intent`. -/
def doInit (s : State) (acct : Nat) (ttl : Option Nat) (ct : Nat) : State × Res :=
  let maxTtl := intentMaxTtl ct (clampTtl ttl)
  let kept := s.links.filter (fun l => !(l.acct == acct && purgeOld ct l.st.maxTtl))
  ({ s with links := kept ++ [⟨s.nextLink, acct, .valid maxTtl⟩], nextLink := s.nextLink + 1 },
   .link s.nextLink maxTtl)

/-- `exchange_intent_credential_update`. -/
def doExchange (s : State) (id ct sid : Nat) : State × Res :=
  match s.links.filter (fun l => l.id == id) with
  | [] => (s, .err .wait)
  | [l] =>
    match gate (exchangeArm l.st.tag) false with
    | some e => (s, .err e)
    | none =>
      if intentExpired ct l.st.maxTtl then (s, .err .sessionExpired)
      else
        let sessId : SessId := ⟨exchangeSessTime ct credUpdateTtl, sid⟩
        let links' := setLink l.acct id exchangeWrites sessId (exchangeSessTtl ct credUpdateTtl) s.links
        let r := createSession s sessId (some id) l.acct ct sid
        ({ s with links := links', sessions := r.1 }, .token r.2)
  | _ => (s, .err .invalidState)

/-- `init_credential_update`. -/
def doDirect (s : State) (acct ct sid : Nat) : State × Res :=
  let r := createSession s ⟨directSessTime ct credUpdateTtl, sid⟩ none acct ct sid
  ({ s with sessions := r.1 }, .token r.2)

/-- `get_current_session` + `credential_primary_set_password` (the session objects are shared
`Arc<Mutex<_>>`s: the update is in place). -/
def doSetpw (s : State) (tok : Token) (v ct : Nat) : State × Res :=
  if tokenExpiredRead ct tok.maxTtl then (s, .err .sessionExpired)
  else
    match s.sessions.find? (fun se => se.id == tok.sess) with
    | none => (s, .err .invalidState)
    | some _ =>
      ({ s with sessions := s.sessions.map (fun se =>
          if se.id == tok.sess then { se with primary := some v } else se) }, .pwset)

/-- `credential_update_commit_common`: token expiry, then `cred_update_sessions.remove`. -/
def commitCommon (s : State) (tok : Token) (ct : Nat) : Except Err (Sess × List Sess) :=
  if tokenExpired ct tok.maxTtl then .error .sessionExpired
  else
    match s.sessions.find? (fun se => se.id == tok.sess) with
    | none => .error .invalidState
    | some se => .ok (se, s.sessions.filter (fun x => x.id != tok.sess))

/-- `CredentialUpdateSession::can_commit` for an account under credential policy `Any` that has no
passkeys: the session must hold a primary credential (`NoValidCredentials` otherwise). -/
def canCommit (se : Sess) : Bool := se.primary.isSome

/-- `commit_credential_update`. -/
def doCommit (s : State) (tok : Token) (ct : Nat) : State × Res :=
  match commitCommon s tok ct with
  | .error e => (s, .err e)
  | .ok (se, rest) =>
    if !canCommit se then (s, .err .cu0004SessionInconsistent) else
    match se.link with
    | none =>
      ({ s with sessions := rest, creds := setCred se.acct se.primary s.creds },
       .committed none se.acct se.primary)
    | some lid =>
      let l? := linkOf s.links se.acct lid
      match gate (commitArm (tagOf l?)) (conflictOf commitConflict l? tok.sess) with
      | some e => (s, .err e)
      | none =>
        ({ s with sessions := rest,
                  links := setLink se.acct lid commitWrites tok.sess 0 s.links,
                  creds := setCred se.acct se.primary s.creds },
         .committed (some lid) se.acct se.primary)

/-- `cancel_credential_update`. -/
def doCancel (s : State) (tok : Token) (ct : Nat) : State × Res :=
  match commitCommon s tok ct with
  | .error e => (s, .err e)
  | .ok (se, rest) =>
    match se.link with
    | none => ({ s with sessions := rest }, .cancelled none)
    | some lid =>
      let l? := linkOf s.links se.acct lid
      match gate (cancelArm (tagOf l?)) (conflictOf cancelConflict l? tok.sess) with
      | some e => (s, .err e)
      | none =>
        ({ s with sessions := rest,
                  links := setLink se.acct lid cancelWrites tok.sess 0 s.links },
         .cancelled (some lid))

/-- `revoke_credential_update_intent`, the `filter_map` closure on one entry holding the id: the
arm decides whether the entry gets a modify list. -/
def revokeTouches (l : Link) (id : Nat) : Bool :=
  l.id == id && (match revokeArm l.st.tag with | .proceed => true | _ => false)

/-- `revoke_credential_update_intent`: every entry holding the id, arm by arm; an empty batch makes
`internal_batch_modify` return `EmptyRequest`. -/
def doRevoke (s : State) (id : Nat) : State × Res :=
  if s.links.any (fun l => revokeTouches l id) then
    ({ s with links := s.links.filterMap (fun l =>
        if revokeTouches l id then
          (mkState revokeWrites l.st.maxTtl ⟨0, 0⟩ 0).map (fun st => { l with st := st })
        else some l) }, .revoked)
  else (s, .err .emptyRequest)

def step (s : State) : Op → State × Res
  | .init acct ttl ct => doInit s acct ttl ct
  | .exchange id ct sid => doExchange s id ct sid
  | .direct acct ct sid => doDirect s acct ct sid
  | .setpw tok v ct => doSetpw s tok v ct
  | .commit tok ct => doCommit s tok ct
  | .cancel tok ct => doCancel s tok ct
  | .revoke id _ => doRevoke s id

/-- The event log of running `ops` from `s`. -/
def trace (s : State) : List Op → List (Op × Res)
  | [] => []
  | op :: ops => (op, (step s op).2) :: trace (step s op).1 ops

/-- The state after running `ops` from `s`. -/
def run (s : State) : List Op → State
  | [] => s
  | op :: ops => run (step s op).1 ops

end Kanidm.Intent
