/-
C16 — referential integrity (`server/lib/src/plugins/refint.rs`, the cascade/recycle parts of
`server/delete.rs` and `server/recycle.rs`, the `ref_cache` rule of `schema.rs`).

The model transcribes what the code does.  Uuids, attribute ids, claim names and session ids
are naturals.  Only uuid-bearing valuesets are kept on an entry; payloads that refint never
looks at (scope strings, claim values, password hashes, session times) are dropped.
Revoked sessions are inert for refint (`as_ref_uuid_iter`, `contains` skip them, `remove` can only
revoke them again); the code trims them lazily once their revocation is older than the changelog
window (`ValueSetOauth2Session::trim` on every `invalidate`, also by other plugins' writes), which
the model does not follow — the driver and the harness therefore do not display revoked sessions.

* `VS`                 — `ValueSetRefer` / `ValueSetOauthScopeMap` / `ValueSetApplicationPassword`
                         (a set of uuid keys), `ValueSetUuid` (a plain uuid set: **not** a
                         reference), `ValueSetOauthClaimMap` (claim ↦ set of group uuids, a nested
                         reference), `ValueSetOauth2Session` (session id ↦ rs uuid, revoked flag).
* `VS.refs`            — `as_ref_uuid_iter` (for sessions: the rs uuid of every non-revoked session).
* `VS.contains/remove` — the `PartialValue::Refer(u)` arms of `contains` / `remove`.
* `existFast/existSlow`— `check_uuids_exist_fast/slow` (Inclusion semantics of `be/mod.rs`: every
                         term must be in the uuid index — which still lists recycled and tombstoned
                         entries — then the masked entries are dropped from the union and the
                         number found is compared with the number of distinct uuids asked for).
* `postModifyInner`    — `post_modify_inner` (= post_create / post_modify / post_batch_modify).
* `removeReferences`   — `remove_references` (= post_delete, and the repl fix-up).
* `opCreate … opRepl`  — the server operations around those hooks.
-/
import KanidmModel.Generated.RefintOps
namespace Kanidm.Refint
open Kanidm.Gen.Refint

/-! ## data -/

inductive St where
  | live | recycled | tombstone
deriving DecidableEq, Repr, Inhabited

/-- Syntaxes whose valueset is a set of uuid keys. -/
inductive KSyn where
  | refer | scopeMap | appPwd | plainUuid
deriving DecidableEq, Repr, Inhabited

/-- One `Oauth2Session` value: `sid ↦ { rs_uuid, state }` (`revoked` = `SessionState::RevokedAt`). -/
structure Sess where
  sid : Nat
  rs : Nat
  revoked : Bool
deriving DecidableEq, Repr, Inhabited

inductive VS where
  | keys (k : KSyn) (ks : List Nat)
  | claims (m : List (Nat × List Nat))
  | sessions (m : List Sess)
deriving DecidableEq, Repr, Inhabited

def KSyn.syn : KSyn → Syn
  | .refer => .referenceUuid
  | .scopeMap => .oauthScopeMap
  | .appPwd => .applicationPassword
  | .plainUuid => .other

def VS.syn : VS → Syn
  | .keys k _ => k.syn
  | .claims _ => .oauthClaimMap
  | .sessions _ => .oauth2Session

/-- `as_ref_uuid_iter`.  For sessions: the rs uuid of every session that is not revoked
(`sessionRefsSkipRevoked`, read from valueset/session.rs; before that repair revoked sessions
were listed too and masked a new active session to the same, dead, resource server). -/
def VS.refs : VS → List Nat
  | .keys .plainUuid _ => []
  | .keys _ ks => ks
  | .claims m => m.flatMap (·.2)
  | .sessions m => (m.filter (fun x => !(sessionRefsSkipRevoked && x.revoked))).map (·.rs)

/-- The references the property speaks about: as `refs`, but a revoked session is the
tombstone of a value (kept only so that its revocation cid replicates) and no longer refers. -/
def VS.active : VS → List Nat
  | .keys .plainUuid _ => []
  | .keys _ ks => ks
  | .claims m => m.flatMap (·.2)
  | .sessions m => (m.filter (fun x => !x.revoked)).map (·.rs)

/-- Session ids of the value (they share the uuid namespace with entries). -/
def VS.sids : VS → List Nat
  | .sessions m => m.map (·.sid)
  | _ => []

/-- `contains(&PartialValue::Refer(u))`. -/
def VS.contains (u : Nat) : VS → Bool
  | .keys .plainUuid _ => false
  | .keys _ ks => ks.contains u
  | .claims m => m.any (fun c => c.2.contains u)
  | .sessions m => m.any (fun x => x.sid == u) || m.any (fun x => x.rs == u && !x.revoked)

/-- Is `u` one of the equality index keys of the value (`generate_idx_eq_keys`)?  For sessions
the keys are every session id and every rs uuid, revoked sessions included — so the indexed
search of `remove_references` selects more entries than `contains` would. -/
def VS.idxHas (u : Nat) : VS → Bool
  | .keys .plainUuid _ => false
  | .keys _ ks => ks.contains u
  | .claims m => m.any (fun c => c.2.contains u)
  | .sessions m => m.any (fun x => x.sid == u || x.rs == u)

def revokeSid (u : Nat) (x : Sess) : Sess := if x.sid == u then { x with revoked := true } else x
def revokeRs (u : Nat) (x : Sess) : Sess := if x.rs == u then { x with revoked := true } else x

/-- `remove(&PartialValue::Refer(u), cid)`.  Sessions: a session whose *id* is `u` is revoked and
nothing else happens; otherwise every session bound to resource server `u` is revoked (the
`rs_filter` bloom test is a superset test and is not modelled).  Claim maps are trimmed. -/
def VS.remove (u : Nat) : VS → VS
  | .keys .plainUuid ks => .keys .plainUuid ks
  | .keys k ks => .keys k (ks.filter (· != u))
  | .claims m => .claims ((m.map (fun c => (c.1, c.2.filter (· != u)))).filter (fun c => !c.2.isEmpty))
  | .sessions m =>
    if m.any (fun x => x.sid == u) then .sessions (m.map (revokeSid u))
    else .sessions (m.map (revokeRs u))

def VS.isEmpty : VS → Bool
  | .keys _ ks => ks.isEmpty
  | .claims m => m.isEmpty
  | .sessions m => m.isEmpty

def VS.removeAll (us : List Nat) (vs : VS) : VS := us.foldl (fun v u => v.remove u) vs

/-! ## attributes the code names -/

def aMember : Nat := 0
def aDynMember : Nat := 1
def aMemberOf : Nat := 2
def aDirectMemberOf : Nat := 3
def aRefers : Nat := 4
def aRdmo : Nat := 5        -- recycled_directmemberof
def aCascade : Nat := 6     -- cascade_deleted (Uuid syntax)

structure Entry where
  uuid : Nat
  st : St
  /-- class `dyngroup` -/
  dyn : Bool
  /-- attributes the entry's classes require (`systemmust`), enforced on live entries only -/
  must : List Nat
  attrs : List (Nat × VS)
deriving DecidableEq, Repr, Inhabited

abbrev State := List Entry

def Entry.get (e : Entry) (a : Nat) : Option VS := (e.attrs.find? (·.1 == a)).map (·.2)

def Entry.erase (e : Entry) (a : Nat) : Entry := { e with attrs := e.attrs.filter (·.1 != a) }

/-- `set_ava_set` (an empty set removes the attribute). -/
def Entry.set (e : Entry) (a : Nat) (vs : VS) : Entry :=
  if vs.isEmpty then e.erase a
  else if e.attrs.any (·.1 == a) then { e with attrs := e.attrs.map (fun p => if p.1 == a then (a, vs) else p) }
  else { e with attrs := e.attrs ++ [(a, vs)] }

/-- `get_ava_single_refer(Attribute::Refers)`. -/
def Entry.refersTarget (e : Entry) : Option Nat :=
  match e.get aRefers with
  | some (.keys .refer [r]) => some r
  | _ => none

/-- `get_ava_single_uuid(Attribute::CascadeDeleted)`. -/
def Entry.cascadeOf (e : Entry) : Option Nat :=
  match e.get aCascade with
  | some (.keys .plainUuid [r]) => some r
  | _ => none

/-- `Entry::validate` as far as it matters here: a live entry holds its `must` attributes
(recycled and conflict entries are exempt). -/
def Entry.schemaOk (e : Entry) : Bool :=
  e.st != .live || e.must.all (fun a => e.attrs.any (·.1 == a))

def find (s : State) (u : Nat) : Option Entry := s.find? (·.uuid == u)
def isLive (s : State) (u : Nat) : Bool := s.any (fun e => e.uuid == u && e.st == .live)
/-- The uuid equality index lists every stored entry, whatever its state. -/
def inIndex (s : State) (u : Nat) : Bool := s.any (fun e => e.uuid == u)

/-- Replace the entry with the same uuid, or append. -/
def upsert (s : State) (e : Entry) : State :=
  if inIndex s e.uuid then s.map (fun x => if x.uuid == e.uuid then e else x) else s ++ [e]

def upsertAll (s : State) (es : List Entry) : State := es.foldl upsert s

/-! ## the reference sets refint looks at -/

/-- `update_reference_set`: is this attribute of this entry collected? -/
def Entry.collected (e : Entry) (p : Nat × VS) : Bool :=
  inRefCache p.2.syn
    && !(skipDynMemberOnDynGroup && e.dyn && p.1 == aDynMember)
    && !(skipMemberOf && p.1 == aMemberOf)

/-- `update_reference_set` for one entry (`as_ref_uuid_iter` of every collected attribute). -/
def Entry.rawRefs (e : Entry) : List Nat := (e.attrs.filter e.collected).flatMap (·.2.refs)

def refSet (es : List Entry) : List Nat := es.flatMap Entry.rawRefs

/-- `cand_references_to_uuid_filter`. -/
def newRefs (pre : Option (List Entry)) (post : List Entry) : List Nat :=
  let prev := match pre with | some p => refSet p | none => []
  if newRefsAreDifference then (refSet post).filter (fun u => !prev.contains u) else refSet post

/-- `sort_unstable(); dedup()` -/
def insertSorted (x : Nat) : List Nat → List Nat
  | [] => [x]
  | y :: ys => if x < y then x :: y :: ys else if x == y then y :: ys else y :: insertSorted x ys

def sortDedup (l : List Nat) : List Nat := l.foldr insertSorted []

/-- `check_uuids_exist_fast`. -/
def existFast (s : State) (us : List Nat) : Bool :=
  if us.isEmpty then true
  else
    let distinct := sortDedup us
    let found :=
      if distinct.all (inIndex s) then
        s.filter (fun e => distinct.contains e.uuid && (!existsFastHidesMasked || e.st == .live))
      else []
    fastAllFound found.length distinct.length

/-- `check_uuids_exist_slow`: the uuids that are missing. -/
def existSlow (s : State) (us : List Nat) : List Nat :=
  us.filter (fun u => slowMissingWhen (s.any (fun e => e.uuid == u && (!existsSlowHidesMasked || e.st == .live))))

/-- `check_refers_to_target_loop_fast`: is some `refers` target itself a referring entry?
Inclusion over the terms `uuid = u ∧ ¬ pres(refers)`. -/
def loopFast (s : State) (targets : List Nat) : Bool :=
  if targets.isEmpty then false
  else
    let term (u : Nat) (e : Entry) : Bool := e.uuid == u && (e.get aRefers).isNone
    let allTerms := targets.all (fun u => s.any (term u))
    let b := allTerms && s.any (fun e => e.st == .live && targets.any (fun u => term u e))
    !b

inductive Err where
  | refint | refLoop | noMatch | uuidExists | denied | invalid
deriving DecidableEq, Repr, Inhabited

/-- `post_modify_inner`, evaluated on the state in which the candidates are already written. -/
def postModifyInner (s : State) (pre : Option (List Entry)) (post : List Entry) : Option Err :=
  if refuseWhen (existFast s (newRefs pre post)) then some .refint
  else if loopFast s (post.filterMap Entry.refersTarget) then some .refLoop
  else none

/-! ## `remove_references` -/

/-- Does the `f_or [ r_type = Refer(u) ]` search select the entry?  Every term is an indexed
equality, so the candidate set comes from the index and is not re-tested. -/
def Entry.matchesAny (us : List Nat) (e : Entry) : Bool :=
  e.attrs.any (fun p => inRefCache p.2.syn && us.any (fun u => p.2.idxHas u))

/-- `remove_avas` on every reference-typed attribute. -/
def Entry.strip (us : List Nat) (e : Entry) : Entry :=
  { e with attrs := e.attrs.filterMap (fun p =>
      if removeSweepsEveryRefType && inRefCache p.2.syn then
        let v := p.2.removeAll us
        if v.isEmpty then none else some (p.1, v)
      else some p) }

def Entry.inWorkSet (us : List Nat) (e : Entry) : Bool :=
  (removeSearchesAllStates || e.st == .live) && e.matchesAny us

def removeRefsState (s : State) (us : List Nat) : State :=
  s.map (fun e => if e.inWorkSet us then e.strip us else e)

/-- `remove_references`; `none` = `internal_apply_writable` met a schema violation (a live entry
would lose an attribute it must have). -/
def removeReferences (s : State) (us : List Nat) : Option State :=
  if s.any (fun e => e.inWorkSet us && !(e.strip us).schemaOk) then none
  else some (removeRefsState s us)

/-! ## operations -/

inductive Res where
  | ok (s : State)
  | err (e : Err)
deriving DecidableEq, Repr, Inhabited

def Res.state (s0 : State) : Res → State
  | .ok s => s
  | .err _ => s0

def nodupNat : List Nat → Bool
  | [] => true
  | x :: xs => !xs.contains x && nodupNat xs

/-- `internal_create` of entries (live).  Base refuses a uuid that exists in any state. -/
def opCreate (s : State) (es : List Entry) : Res :=
  let es := es.map (fun e => { e with st := .live })
  let us := es.map (·.uuid)
  if es.isEmpty then .err .noMatch
  else if !nodupNat us || us.any (inIndex s) then .err .uuidExists
  else if es.any (fun e => !e.schemaOk) then .err .invalid
  else
    let s1 := s ++ es
    match postModifyInner s1 none es with
    | some e => .err e
    | none => .ok s1

/-- A value handed to `Modify::Present`. -/
inductive Val where
  | key (k : KSyn) (u : Nat)
  | claim (name : Nat) (u : Nat)
  | claimName (name : Nat)
  | sess (x : Sess)
deriving DecidableEq, Repr, Inhabited

inductive Mod where
  | present (a : Nat) (v : Val)
  | removed (a : Nat) (u : Nat)     -- `Modify::Removed(a, PartialValue::Refer(u))`
  | purged (a : Nat)
deriving DecidableEq, Repr, Inhabited

def Val.fresh : Val → VS
  | .key k u => .keys k [u]
  | .claim n u => .claims [(n, [u])]
  | .claimName n => .claims [(n, [])]
  | .sess x => .sessions [x]

/-- `insert_checked`; `none` = `InvalidValueState` (value of another syntax). -/
def VS.insert : VS → Val → Option VS
  | .keys k ks, .key k' u => if k = k' then some (.keys k (if ks.contains u then ks else ks ++ [u])) else none
  | .claims m, .claim n u =>
    if m.any (·.1 == n) then
      some (.claims (m.map (fun c => if c.1 == n then (n, if c.2.contains u then c.2 else c.2 ++ [u]) else c)))
    else some (.claims (m ++ [(n, [u])]))
  | .claims m, .claimName n => if m.any (·.1 == n) then some (.claims m) else some (.claims (m ++ [(n, [])]))
  | .sessions m, .sess x =>
    if m.any (·.sid == x.sid) then
      -- replaced only when the new state has higher priority (revocation of an active session)
      some (.sessions (m.map (fun y => if y.sid == x.sid && x.revoked && !y.revoked then x else y)))
    else some (.sessions (m ++ [x]))
  | _, _ => none

/-- `purge(cid)`: sessions cannot be purged, they are all revoked and kept. -/
def VS.purge : VS → Option VS
  | .sessions m => some (.sessions (m.map (fun x => { x with revoked := true })))
  | _ => none

def applyMod (e : Entry) : Mod → Option Entry
  | .present a v =>
    match e.get a with
    | none => some { e with attrs := e.attrs ++ [(a, v.fresh)] }
    | some vs =>
      match vs.insert v with
      | some vs' => some { e with attrs := e.attrs.map (fun p => if p.1 == a then (a, vs') else p) }
      | none => none
  | .removed a u =>
    match e.get a with
    | none => some e
    | some vs => some (e.set a (vs.remove u))
  | .purged a =>
    match e.get a with
    | none => some e
    | some vs =>
      match vs.purge with
      | some vs' => some (e.set a vs')
      | none => some (e.erase a)

def applyMods (e : Entry) : List Mod → Option Entry
  | [] => some e
  | m :: ms => match applyMod e m with | some e' => applyMods e' ms | none => none

/-- `internal_modify_uuid` (the target must be live: `filter!`). -/
def opModify (s : State) (u : Nat) (mods : List Mod) : Res :=
  match s.find? (fun e => e.uuid == u && e.st == .live) with
  | none => .ok s     -- internal identity: "no candidates match filter ... continuing"
  | some e =>
    match applyMods e mods with
    | none => .err .invalid
    | some e' =>
      if !e'.schemaOk then .err .invalid
      else
      let s1 := s.map (fun x => if x.uuid == u && x.st == .live then e' else x)
      match postModifyInner s1 (some [e]) [e'] with
      | some er => .err er
      | none => .ok s1

/-- The `directmemberof` stash handed to `opDelete` for entry `u`. -/
def stashOf (stash : List (Nat × List Nat)) (u : Nat) : List Nat :=
  match stash.find? (·.1 == u) with | some p => p.2 | none => []

/-- memberof `pre_delete` + `to_recycled` (+ the `cascade_deleted` stash of delete.rs). -/
def recycle (stash : List (Nat × List Nat)) (cascade : Bool) (e : Entry) : Entry :=
  let e1 := if cascade then
      match e.refersTarget with
      | some r => { e with attrs := (e.erase aCascade).attrs ++ [(aCascade, .keys .plainUuid [r])] }
      | none => e
    else e
  let dmo := stashOf stash e.uuid
  let e2 := (e1.erase aMemberOf).erase aDirectMemberOf
  let e3 := if dmo.isEmpty then e2.erase aRdmo else (e2.erase aRdmo).set aRdmo (.keys .refer dmo)
  { e3 with st := .recycled }

/-- The uuids `delete` selects: live entries among `us` (`filter!`). -/
def deleteTargets (s : State) (us : List Nat) : List Nat :=
  (s.filter (fun e => e.st == .live && us.contains e.uuid)).map (·.uuid)

/-- delete.rs: live entries whose `refers` names a candidate are deleted with it. -/
def deleteCascade (s : State) (tu : List Nat) : List Nat :=
  if cascadeDeletesReferrers then
    (s.filter (fun e => e.st == .live &&
      (match e.refersTarget with | some r => tu.contains r | none => false))).map (·.uuid)
  else []

def recycleAll (s : State) (stash : List (Nat × List Nat)) (tu cu : List Nat) : State :=
  s.map (fun e =>
    if e.st == .live && tu.contains e.uuid then recycle stash false e
    else if e.st == .live && cu.contains e.uuid then recycle stash true e
    else e)

/-- `delete` of the live entries among `us`; `stash u` = the `directmemberof` of `u` that the
memberof plugin moves to `recycled_directmemberof` (an input: memberof is C17's model). -/
def opDelete (s : State) (us : List Nat) (stash : List (Nat × List Nat)) : Res :=
  let tu := deleteTargets s us
  if tu.isEmpty then .err .noMatch
  else
    let cu := deleteCascade s tu
    -- debug assertion of delete.rs: the cascade set is disjoint from the candidates
    if cu.any (tu.contains ·) then .err .invalid
    else
      let s1 := recycleAll s stash tu cu
      if postDeleteRemovesCandidates then
        match removeReferences s1 (tu ++ cu) with
        | some s2 => .ok s2
        | none => .err .invalid
      else .ok s1

/-- `to_revived` after the `refers` restore of `revive_recycled`. -/
def reviveEntry (e : Entry) : Entry :=
  let e1 := match e.cascadeOf with
    | some r => (e.erase aRefers).set aRefers (.keys .refer [r])
    | none => e
  let e2 := (e1.erase aCascade).erase aRdmo
  { e2 with st := .live }

/-- One `internal_modify(filter_all!(uuid = g), [Present(member, u) …])` of the re-add loop. -/
def readd (s : State) (g : Nat) (members : List Nat) : Res :=
  match find s g with
  | none => .ok s     -- internal identity: an empty candidate set is not an error
  | some ge =>
    if ge.st == .tombstone then .err .invalid
    else
      match applyMods ge (members.map (fun u => Mod.present aMember (.key .refer u))) with
      | none => .err .invalid
      | some ge' =>
        if !ge'.schemaOk then .err .invalid
        else
        let s1 := s.map (fun x => if x.uuid == g then ge' else x)
        match postModifyInner s1 (some [ge]) [ge'] with
        | some er => .err er
        | none => .ok s1

def readdAll (s : State) : List (Nat × List Nat) → Res
  | [] => .ok s
  | (g, ms) :: rest =>
    match readd s g ms with
    | .ok s1 => readdAll s1 rest
    | .err e => .err e

/-- The candidates of `revive_recycled`: the recycled entries among `us` (`filter_rec!`) and the
recycled entries whose `cascade_deleted` names one of them. -/
def reviveCands (s : State) (us : List Nat) : List Entry :=
  let pre0 := s.filter (fun e => e.st == .recycled && us.contains e.uuid)
  let pu := pre0.map (·.uuid)
  pre0 ++ s.filter (fun e => e.st == .recycled && !pu.contains e.uuid &&
    (match e.cascadeOf with | some r => pu.contains r | none => false))

def reviveState (s : State) (cu : List Nat) : State :=
  s.map (fun e => if e.st == .recycled && cu.contains e.uuid then reviveEntry e else e)

/-- `dm_mods`: group ↦ members to put back, in ascending group order. -/
def reviveMods (pre : List Entry) : List (Nat × List Nat) :=
  let groups := sortDedup (pre.flatMap (fun e => match e.get aRdmo with | some vs => vs.refs | none => []))
  groups.map (fun g =>
    (g, (pre.filter (fun e => match e.get aRdmo with | some vs => vs.refs.contains g | none => false)).map (·.uuid)))

/-- `revive_recycled` (non-internal identity: an empty candidate set is an error). -/
def opRevive (s : State) (us : List Nat) : Res :=
  let pre := reviveCands s us
  if pre.isEmpty then .err .noMatch
  else
    let post := pre.map reviveEntry
    let s1 := reviveState s (pre.map (·.uuid))
    if post.any (fun e => !e.schemaOk) then .err .invalid
    else
    match postModifyInner s1 (some pre) post with
    | some er => .err er
    | none => readdAll s1 (reviveMods pre)

/-- `purge_recycled` with every recycled entry past the recycle-bin age: `to_tombstone`. -/
def opPurgeRecycled (s : State) : Res :=
  .ok (s.map (fun e => if e.st == .recycled then { e with st := .tombstone, attrs := [], dyn := false, must := [] } else e))

/-- `purge_tombstones` with every tombstone past the changelog age: reaped. -/
def opPurgeTombstones (s : State) : Res :=
  .ok (s.filter (fun e => e.st != .tombstone))

/-- `to_conflict` -/
def toConflict (e : Entry) : Entry := { e with st := .recycled }

/-- The db entry a replicated candidate is merged over; an unknown uuid gets a stub without
attributes (which `mask_recycled_ts` counts as live). -/
def preOf (s : State) (c : Entry) : Entry :=
  match find s c.uuid with
  | some e => e
  | none => { uuid := c.uuid, st := .live, dyn := false, must := [], attrs := [] }

/-- `post_repl_incremental_conflict`: live entries that `refers` to a conflict uuid. -/
def conflictHits (s1 : State) (conflicts : List Nat) : List Nat :=
  if conflicts.isEmpty then [] else
    (s1.filter (fun e => e.st == .live &&
      (match e.refersTarget with | some r => conflicts.contains r | none => false))).map (·.uuid)

def conflictState (s1 : State) (hit : List Nat) : State :=
  s1.map (fun e => if hit.contains e.uuid then toConflict e else e)

/-- `post_repl_incremental`: the uuids handed to `remove_references`. -/
def replRemoveSet (s s2 : State) (cand : List Entry) (conf2 : List Nat) : List Nat :=
  let pre := cand.map (preOf s)
  let uuids := newRefs (some pre) cand
  let missing := if existFast s2 uuids then [] else existSlow s2 uuids
  let inactive := cand.filterMap (fun c =>
    if becameInactive ((preOf s c).st == .live) (c.st == .live) then some c.uuid else none)
  (if replRemovesMissing then missing else [])
    ++ (if replRemovesConflicts then conf2 else [])
    ++ (if replRemovesInactive then inactive else [])

/-- The consumer's incremental apply as refint sees it: `cand` are the merged entries written by
`incremental_apply` (any state, any content — the merge itself is not modelled), `conflicts` the
uuid-conflict survivors.  Then `post_repl_incremental_conflict` and `post_repl_incremental`. -/
def opRepl (s : State) (cand : List Entry) (conflicts : List Nat) : Res :=
  let s1 := upsertAll s cand
  let hit := conflictHits s1 conflicts
  let s2 := conflictState s1 hit
  let rm := replRemoveSet s s2 cand (conflicts ++ hit)
  if rm.isEmpty then .ok s2
  else match removeReferences s2 rm with
    | some s3 => .ok s3
    | none => .err .invalid

inductive Op where
  | create (es : List Entry)
  | modify (u : Nat) (mods : List Mod)
  | delete (us : List Nat) (stash : List (Nat × List Nat))
  | revive (us : List Nat)
  | purgeRecycled
  | purgeTombstones
  | repl (cand : List Entry) (conflicts : List Nat)
deriving Repr, Inhabited

def step (s : State) : Op → Res
  | .create es => opCreate s es
  | .modify u m => opModify s u m
  | .delete us st => opDelete s us st
  | .revive us => opRevive s us
  | .purgeRecycled => opPurgeRecycled s
  | .purgeTombstones => opPurgeTombstones s
  | .repl c k => opRepl s c k

/-- A refused operation leaves the committed state unchanged (the write transaction is dropped). -/
def apply (s : State) (op : Op) : State := (step s op).state s

def run (s : State) (ops : List Op) : State := ops.foldl apply s

end Kanidm.Refint
