import KanidmModel.Generated.MemberOfOps
/-!
# Model of the memberof plugin (C17)

Transcription of `server/lib/src/plugins/memberof.rs` (what the code DOES, including its
defects), of the parts of `refint.rs`, `server/delete.rs` and `server/recycle.rs` that decide
which entries memberof sees, at the granularity of whole uuid sets:

* `moOf`/`dmoOf`          — `do_group_memberof` (24-95): the search for live groups listing the
                            entry, `dmo` = their uuids, `mo` = their *stored* memberof, merged with dmo;
* `roundStep`             — one iteration of the `while` loop of `apply_memberof` (315-426): every
                            live group of the work set is recomputed from the state *before* the
                            iteration (the stripe is written after the `for`), a changed group
                            enqueues its members;
* `applyGroups`           — the `while` loop, fuelled (`none` = the loop did not finish);
* `leafUpd`               — `do_leaf_memberof` (97-294);
* `opCreate/opSet/opDelete/opRevive` — post_create_inner, post_modify_inner, pre_delete +
                            refint::remove_references + post_delete, revive_recycled.

Uuids are naturals; uuid sets (`BTreeSet<Uuid>`, `ValueSetRefer`) are ascending lists.
The operators regenerated from the source live in `Generated/MemberOfOps.lean`.
-/
namespace Kanidm.MemberOf
open Kanidm.Gen.MemberOf

/-! ## uuid sets -/

/-- `BTreeSet::insert`. -/
def ins (a : Nat) : List Nat → List Nat
  | [] => [a]
  | b :: l => if a < b then a :: b :: l else if a = b then b :: l else b :: ins a l

/-- `BTreeSet::extend`. -/
def union (xs ys : List Nat) : List Nat := xs.foldr ins ys

def norm (xs : List Nat) : List Nat := union xs []

/-- `a.difference(b)`. -/
def sdiff (a b : List Nat) : List Nat := a.filter (fun x => !b.contains x)

/-- `ValueSet` equality (`pre.get_ava_set(..) != tgte.get_ava_set(..)`), as set equality. -/
def seteq (a b : List Nat) : Bool := a.all (fun x => b.contains x) && b.all (fun x => a.contains x)

def applySetOp : SetOp → List Nat → List Nat → List Nat
  | .symmetricDifference, a, b => union (sdiff a b) (sdiff b a)
  | .difference, a, b => sdiff a b
  | .intersection, a, b => a.filter (fun x => b.contains x)
  | .union, a, b => union a b

/-! ## entries and states -/

structure Entry where
  id : Nat
  /-- class group (else a leaf: person, service account, ...) -/
  grp : Bool
  /-- live (true) or recycled (false) -/
  live : Bool
  member : List Nat
  mo : List Nat
  dmo : List Nat
  /-- recycled_directmemberof -/
  rdmo : List Nat
deriving DecidableEq, Repr, Inhabited

abbrev State := List Entry

def find (s : State) (x : Nat) : Option Entry := s.find? (fun e => e.id == x)

def isLive (s : State) (x : Nat) : Bool :=
  match find s x with
  | some e => e.live
  | none => false

/-- The search of `do_group_memberof` / `do_leaf_memberof`: live entries of class group
whose `member` (or `dynmember`) contains `x`. -/
def isPar (x : Nat) (g : Entry) : Bool := g.grp && g.live && g.member.contains x

def parents (s : State) (x : Nat) : List Entry := s.filter (isPar x)

/-- Union of the parents' stored memberof. -/
def inherited (ps : List Entry) : List Nat := ps.foldr (fun g acc => union g.mo acc) []

def dmoOf (s : State) (x : Nat) : List Nat := norm ((parents s x).map (·.id))

/-- `do_group_memberof`: memberof of a group = parents' stored memberof, merged with dmo. -/
def moOf (s : State) (x : Nat) : List Nat :=
  union (if mergeDmoIntoMo then dmoOf s x else []) (inherited (parents s x))

/-- `do_leaf_memberof`: memberof of a leaf = its groups, extended by their stored memberof. -/
def leafMoOf (s : State) (x : Nat) : List Nat :=
  union (dmoOf s x) (if leafInheritsGroupMo then inherited (parents s x) else [])

/-- "Did we change?" of `apply_memberof` / "Only write if a change occurred" of the leaf pass. -/
def changed (e : Entry) (dmo mo : List Nat) : Bool :=
  changedComb (!seteq e.mo mo) (!seteq e.dmo dmo)

def groupDirty (s : State) (w : List Nat) (e : Entry) : Bool :=
  e.grp && e.live && w.contains e.id && changed e (dmoOf s e.id) (moOf s e.id)

def groupUpd (s : State) (w : List Nat) (e : Entry) : Entry :=
  if groupDirty s w e then { e with mo := moOf s e.id, dmo := dmoOf s e.id } else e

/-- One iteration of the `while` loop of `apply_memberof`: new state and next work set. -/
def roundStep (s : State) (w : List Nat) : State × List Nat :=
  (s.map (groupUpd s w),
   if enqueueMembersOnChange then
     (s.filter (groupDirty s w)).foldr (fun e acc => union e.member acc) []
   else [])

/-- The `while !affected_uuids.is_empty()` loop; `all` is `all_affected_uuids`. -/
def applyGroups : Nat → State → List Nat → List Nat → Option (State × List Nat)
  | _, s, [], all => some (s, all)
  | 0, _, _ :: _, _ => none
  | n + 1, s, a :: w, all =>
    applyGroups n (roundStep s (a :: w)).1 (roundStep s (a :: w)).2
      (union (roundStep s (a :: w)).2 all)

def leafDirty (s : State) (all : List Nat) (e : Entry) : Bool :=
  !e.grp && e.live && all.contains e.id && changed e (dmoOf s e.id) (leafMoOf s e.id)

def leafUpd (s : State) (all : List Nat) (e : Entry) : Entry :=
  if leafDirty s all e then { e with mo := leafMoOf s e.id, dmo := dmoOf s e.id } else e

/-- `apply_memberof(qs, affected_uuids)`. -/
def applyMemberOf (fuel : Nat) (s : State) (aff : List Nat) : Option State :=
  match applyGroups fuel s aff aff with
  | none => none
  | some (s', all) => some (s'.map (leafUpd s' all))

/-! ## operations -/

inductive Op where
  /-- internal_create of one entry (group with members, or a leaf) -/
  | create (id : Nat) (grp : Bool) (members : List Nat)
  /-- internal_modify of one group: purge member, then present each of `members` -/
  | setMembers (g : Nat) (members : List Nat)
  /-- internal_delete with a filter matching these uuids -/
  | delete (ids : List Nat)
  /-- revive_recycled of one uuid by a recycle-bin administrator (no recycled match = error) -/
  | revive (id : Nat)
deriving DecidableEq, Repr

inductive Res where
  | ok (s : State)
  /-- the operation returned an error: the write transaction is dropped -/
  | err
  /-- `apply_memberof` did not finish within the fuel -/
  | diverge
deriving DecidableEq, Repr

def setMem (s : State) (g : Nat) (nw : List Nat) : State :=
  s.map (fun e => if e.id == g then { e with member := nw } else e)

/-- `post_modify_inner`: the candidate plus the changed members. -/
def modifyAffected (g : Nat) (old nw : List Nat) : List Nat :=
  g :: (if old.isEmpty || nw.isEmpty then union old nw else applySetOp modifyDeltaOp old nw)

/-- modify of `member` on an entry found by uuid; refint has already accepted it. -/
def applyMod (fuel : Nat) (s : State) (g : Nat) (old nw : List Nat) : Res :=
  match applyMemberOf fuel (setMem s g nw) (modifyAffected g old nw) with
  | none => .diverge
  | some s' => .ok s'

def opCreate (fuel : Nat) (s : State) (id : Nat) (grp : Bool) (members : List Nat) : Res :=
  let ms := if grp then norm members else []
  if (find s id).isSome then .err
  else if !(ms.all (fun m => m == id || isLive s m)) then .err
  else
    match applyMemberOf fuel (s ++ [⟨id, grp, true, ms, [], [], []⟩]) (id :: ms) with
    | none => .diverge
    | some s' => .ok s'

def opSet (fuel : Nat) (s : State) (g : Nat) (members : List Nat) : Res :=
  match find s g with
  | none => .ok s
  | some e =>
    if !e.live then .ok s
    else if !e.grp then .err
    else if !((sdiff (norm members) e.member).all (fun m => m == g || isLive s m)) then .err
    else applyMod fuel s g e.member (norm members)

/-- `pre_delete` + `to_recycled`. -/
def recycle (t : List Nat) (e : Entry) : Entry :=
  if t.contains e.id then
    { e with live := false,
             rdmo := if preDeleteStashesDmo then e.dmo else e.rdmo,
             dmo := [],
             mo := if preDeletePurgesMo then [] else e.mo }
  else e

/-- `refint::remove_references`: every reference attribute of every entry, recycled included. -/
def unref (t : List Nat) (e : Entry) : Entry :=
  { e with member := sdiff e.member t, mo := sdiff e.mo t, dmo := sdiff e.dmo t, rdmo := sdiff e.rdmo t }

/-- `post_delete`: the members of the deleted groups. -/
def deleteAffected (s : State) (t : List Nat) : List Nat :=
  (s.filter (fun e => t.contains e.id && e.grp)).foldr (fun e acc => union e.member acc) []

def opDelete (fuel : Nat) (s : State) (ids : List Nat) : Res :=
  let t := (norm ids).filter (isLive s)
  if t.isEmpty then .err
  else
    match applyMemberOf fuel ((s.map (recycle t)).map (unref t)) (deleteAffected s t) with
    | none => .diverge
    | some s' => .ok s'

/-- the `internal_modify(filter_all uuid = g, Present member x)` of `revive_recycled`. -/
def addMemberAny (fuel : Nat) (s : State) (g x : Nat) : Res :=
  match find s g with
  | none => .ok s
  | some e => applyMod fuel s g e.member (ins x e.member)

def reviveMods (fuel : Nat) (x : Nat) : List Nat → State → Res
  | [], s => .ok s
  | g :: gs, s =>
    match addMemberAny fuel s g x with
    | .ok s' => reviveMods fuel x gs s'
    | r => r

/-- Every live leaf.  Accounts and persons are dynamic members of the built-in dynamic groups
`idm_all_persons` / `idm_all_accounts`; those groups are therefore in the
recycled_directmemberof of every deleted leaf. -/
def leafIds (s : State) : List Nat := (s.filter (fun e => !e.grp && e.live)).map (·.id)

/-- `revive_recycled`, after the entry is live again: one `internal_modify` per group of
recycled_directmemberof, in uuid order.  For a leaf the built-in dynamic groups come first
(their uuids are the lowest): a modify of a dynamic group makes `DynGroup::post_modify`
re-evaluate it (`apply_dyngroup_change`) and mark *all* its members affected, so every live
leaf is recomputed; then the static groups. -/
def reviveTail (fuel : Nat) (x : Nat) (e : Entry) (s' : State) : Res :=
  if e.grp then reviveMods fuel x e.rdmo s'
  else
    match applyMemberOf fuel s' (leafIds s') with
    | none => .diverge
    | some s'' => reviveMods fuel x e.rdmo s''

def opRevive (fuel : Nat) (s : State) (x : Nat) : Res :=
  match find s x with
  | none => .err
  | some e =>
    if e.live then .err
    else
      match applyMemberOf fuel
          (s.map (fun e' => if e'.id == x then { e' with live := true, rdmo := [] } else e')) [x] with
      | none => .diverge
      | some s' => reviveTail fuel x e s'

def step (fuel : Nat) (s : State) : Op → Res
  | .create id grp ms => opCreate fuel s id grp ms
  | .setMembers g ms => opSet fuel s g ms
  | .delete ids => opDelete fuel s ids
  | .revive x => opRevive fuel s x

/-- A history of committed operations from state `s`; an operation that errors leaves the
state unchanged, one that does not finish has no resulting state. -/
def run (fuel : Nat) : State → List Op → Option State
  | s, [] => some s
  | s, op :: ops =>
    match step fuel s op with
    | .ok s' => run fuel s' ops
    | .err => run fuel s ops
    | .diverge => none

/-! ## reference closure (the specification side, executable for the driver) -/

/-- Groups from which `x` is reached in at most `k+1` member links between live groups. -/
def closureIter (s : State) (x : Nat) : Nat → List Nat
  | 0 => dmoOf s x
  | k + 1 =>
    union (closureIter s x k)
      ((closureIter s x k).foldr (fun p acc => union (dmoOf s p) acc) [])

def closure (s : State) (x : Nat) : List Nat := closureIter s x s.length

end Kanidm.MemberOf
