/-
C27 — enumerations shared by the generated tables (`Generated/AuthSessionTables.lean`)
and the hand model (`AuthSession.lean`).  Constructor names are the Rust variant
names with the first letter lower-cased, so the translator can emit them verbatim.
Import-free.
-/
namespace Kanidm.AuthSession

/-- `enum CredHandler` (authsession/mod.rs:139), variant names only. -/
inductive HKind where
  | anonymous | password | passwordTotp | passwordBackupCode | passwordSecurityKey
  | passkey | attestedPasskey | oAuth2Trust
deriving DecidableEq, Repr, Inhabited

/-- `kanidm_proto::v1::AuthMech`. -/
inductive Mech where
  | anonymous | password | passwordBackupCode | passwordTotp | passwordSecurityKey
  | passkey | oAuth2Trust
deriving DecidableEq, Repr, Inhabited

/-- `enum AuthCredential` (idm/authentication.rs:111), variant names only. -/
inductive CredKind where
  | anonymous | password | totp | securityKey | backupCode | passkey
  | oAuth2AuthorisationResponse | oAuth2AccessTokenResponse
  | oAuth2AccessTokenIntrospectResponse
deriving DecidableEq, Repr, Inhabited

/-- The `CredHandler::build_from_*` constructors called by `AuthSession::new`. -/
inductive Builder where
  | passwordTotp | passwordBackupCode | passwordSecurityKey | passwordOnly
  | setAttestedPk | setPasskey
deriving DecidableEq, Repr, Inhabited

def HKind.all : List HKind :=
  [.anonymous, .password, .passwordTotp, .passwordBackupCode, .passwordSecurityKey,
   .passkey, .attestedPasskey, .oAuth2Trust]

def Mech.all : List Mech :=
  [.anonymous, .password, .passwordBackupCode, .passwordTotp, .passwordSecurityKey,
   .passkey, .oAuth2Trust]

end Kanidm.AuthSession
