/-
C40 — enumerations shared by the generated tables (`Generated/LdapGatewayOps.lean`) and the hand
model (`LdapGateway.lean`).  Import-free (core Lean only).

* `WireOp`      = `ldap3_proto::proto::LdapOp` (proto.rs), `BindRequest` split by its credential kind
                  (`LdapBindCred::Simple` / `SASL`) and `ExtendedRequest` split by whether its OID is
                  the "Who am I?" OID — the two distinctions `ServerOps::try_from` makes.
* `ServerOp`    = `ldap3_proto::simple::ServerOps`.
* `Handler`     = the three private handlers of `LdapServer` that `do_op` can call.
* `TxnCtor`     = the transaction constructors of `IdmServer` (idm/server.rs).
* `QsKind`      = which `QueryServer` transaction such a constructor opens.
* `RespKind`    = `LdapResponseState` (idm/ldap.rs).
* `SessionKind` = `LdapSession` (idm/ldap.rs).
* `IdentFn`     = the identity builders `validate_ldap_session` dispatches to.
* `BindPath`    = the places of the bind code that build an `LdapBoundToken`.
* `AppCheck`    = the checks of `application_auth_ldap`, in the order the code makes them.
-/
namespace Kanidm.Ldap

inductive WireOp where
  | bindSimple | bindSasl | bindResponse | unbindRequest
  | searchRequest | searchResultEntry | searchResultDone | searchResultReference
  | modifyRequest | modifyResponse | addRequest | addResponse | delRequest | delResponse
  | modifyDNRequest | modifyDNResponse | compareRequest | compareResult | abandonRequest
  | extendedWhoami | extendedOther | extendedResponse | intermediateResponse
deriving DecidableEq, Repr, Inhabited

def WireOp.all : List WireOp :=
  [.bindSimple, .bindSasl, .bindResponse, .unbindRequest, .searchRequest, .searchResultEntry,
   .searchResultDone, .searchResultReference, .modifyRequest, .modifyResponse, .addRequest,
   .addResponse, .delRequest, .delResponse, .modifyDNRequest, .modifyDNResponse, .compareRequest,
   .compareResult, .abandonRequest, .extendedWhoami, .extendedOther, .extendedResponse,
   .intermediateResponse]

/-- The requests of RFC 4511 that ask the server to change directory content (update operations,
section 4.6–4.9) plus every extended operation other than "Who am I?" (password modify, start
TLS, cancel, …). -/
def WireOp.isUpdate : WireOp → Bool
  | .modifyRequest | .addRequest | .delRequest | .modifyDNRequest | .extendedOther => true
  | _ => false

inductive ServerOp where
  | simpleBind | search | unbind | compare | whoami
deriving DecidableEq, Repr, Inhabited

def ServerOp.all : List ServerOp := [.simpleBind, .search, .unbind, .compare, .whoami]

inductive Handler where
  | doBind | doSearch | doCompare
deriving DecidableEq, Repr, Inhabited

inductive TxnCtor where
  | auth | proxyRead | proxyWrite
deriving DecidableEq, Repr, Inhabited

inductive QsKind where
  | read | write
deriving DecidableEq, Repr, Inhabited

inductive RespKind where
  | unbind | disconnect | bind | respond | multiPart | bindMultiPart
deriving DecidableEq, Repr, Inhabited

def RespKind.all : List RespKind := [.unbind, .disconnect, .bind, .respond, .multiPart, .bindMultiPart]

inductive SessionKind where
  | unixBind | userAuthToken | apiToken | applicationPasswordBind
deriving DecidableEq, Repr, Inhabited

inductive IdentFn where
  | ldapUuid | uat | apit
deriving DecidableEq, Repr, Inhabited

inductive BindPath where
  | anonymous | unix | application | tokenUat | tokenApi
deriving DecidableEq, Repr, Inhabited

inductive AppCheck where
  | notAnonymous | validTime | appExists | memberOfLinkedGroup | verifyPassword
deriving DecidableEq, Repr, Inhabited

inductive DelayedKind where
  | unixPwUpgrade | other
deriving DecidableEq, Repr, Inhabited

/-- `LdapResultCode`s the gateway produces. -/
inductive Code where
  | success | invalidCredentials | constraintViolation | invalidAttributeSyntax
  | unwillingToPerform | other | operationsError | protocolError | noSuchObject
  | compareTrue | compareFalse
deriving DecidableEq, Repr, Inhabited

/-- `AccessScope` (server/identity.rs). -/
inductive Scope where
  | readOnly | readWrite | synchronise
deriving DecidableEq, Repr, Inhabited

/-- `ApiTokenPurpose` (proto). -/
inductive ApiPurpose where
  | readOnly | readWrite | synchronise
deriving DecidableEq, Repr, Inhabited

end Kanidm.Ldap
