import KanidmModel.ProtoFilter
/-
C41 model: a concrete `Env` — the slice of the schema and of the two value parsers
(`clone_partialvalue`, server/mod.rs l.822; `resolve_scim_json_get`, l.1045) that the harness
exercises. The theorems of C41 quantify over every `Env`; this instance is what the driver runs and
what the correspondence stream compares with the real server (the harness first checks that the
real schema gives every attribute below the same syntax and multivalue flag).

  atom  attribute            syntax (SyntaxType id)        multivalue
  0     class                Utf8StringInsensitive (1)     yes
  1     name                 Utf8StringIname (14)          no
  2     description          Utf8String (0)                no
  3     displayname          Utf8String (0)                no
  4     mail                 EmailAddress (17)             yes
  5     gidnumber            Uint32 (12)                   no
  6     uuid                 Uuid (2)                      no
  7     spn                  SecurityPrincipalName (11)    no
  8     authsession_expiry   Uint32 (12)                   no
  99    anything else        — (not in the schema)

Values: Iutf8 / Iname = lower-cased text; Utf8 / EmailAddress = the text; Uint32 = what
`str::parse::<u32>` accepts (optional `+`, decimal digits, < 2³²); Uuid = the 128-bit number of a
hyphenated lower-case uuid, anything else `UUID_DOES_NOT_EXIST` (name lookup — `name_to_uuid` —
is outside the model: the harness never uses an existing name as a uuid assertion); Spn =
`name@realm` text with non-empty sides.
Import-free apart from the C41 model (core Lean only).
-/
namespace Kanidm.ProtoFilter
open Kanidm.Filter

inductive SynKind where
  | iutf8 | iname | utf8 | email | uint32 | uuid | spn
  deriving DecidableEq, Repr, Inhabited

structure AttrRow where
  name : List Nat
  atom : Nat
  syn : Nat
  multi : Bool
  kind : SynKind

def stdAttrs : List AttrRow := [
  ⟨[99, 108, 97, 115, 115], 0, 1, true, .iutf8⟩,
  ⟨[110, 97, 109, 101], 1, 14, false, .iname⟩,
  ⟨[100, 101, 115, 99, 114, 105, 112, 116, 105, 111, 110], 2, 0, false, .utf8⟩,
  ⟨[100, 105, 115, 112, 108, 97, 121, 110, 97, 109, 101], 3, 0, false, .utf8⟩,
  ⟨[109, 97, 105, 108], 4, 17, true, .email⟩,
  ⟨[103, 105, 100, 110, 117, 109, 98, 101, 114], 5, 12, false, .uint32⟩,
  ⟨[117, 117, 105, 100], 6, 2, false, .uuid⟩,
  ⟨[115, 112, 110], 7, 11, false, .spn⟩,
  ⟨[97, 117, 116, 104, 115, 101, 115, 115, 105, 111, 110, 95, 101, 120, 112, 105, 114, 121], 8, 12, false, .uint32⟩]

def rowOfName (n : List Nat) : Option AttrRow := stdAttrs.find? (fun r => r.name == n)
def rowOfAtom (a : Nat) : Option AttrRow := stdAttrs.find? (fun r => r.atom == a)

/-- decimal digits → number -/
def digitsVal : List Nat → Option Nat
  | [] => none
  | ds => ds.foldl (fun acc d => match acc with
      | none => none
      | some n => if 48 ≤ d ∧ d ≤ 57 then some (n * 10 + (d - 48)) else none) (some 0)

/-- `str::parse::<u32>` -/
def parseU32 (s : List Nat) : Option Nat :=
  let body := match s with | 43 :: rest => rest | _ => s
  match digitsVal body with
  | some n => if n < 4294967296 then some n else none
  | none => none

def hexDigit (c : Nat) : Option Nat :=
  if 48 ≤ c ∧ c ≤ 57 then some (c - 48)
  else if 97 ≤ c ∧ c ≤ 102 then some (c - 87)
  else none

/-- a hyphenated lower-case uuid (8-4-4-4-12) as a number -/
def parseUuid (s : List Nat) : Option Nat :=
  if s.length = 36 ∧ s[8]? = some 45 ∧ s[13]? = some 45 ∧ s[18]? = some 45 ∧ s[23]? = some 45 then
    (s.filter (· != 45)).foldl (fun acc c => match acc, hexDigit c with
      | some n, some d => some (n * 16 + d)
      | _, _ => none) (some 0)
  else none

/-- `UUID_DOES_NOT_EXIST` = 00000000-0000-0000-0000-fffffffffffe -/
def uuidDoesNotExist : Nat := 281474976710654

/-- `SPN_RE` on a text with at most one `@`: non-empty name, `@`, non-empty realm -/
def parseSpn (s : List Nat) : Option (List Nat) :=
  match s.span (· != 64) with
  | (n, 64 :: r) => if !n.isEmpty && !r.isEmpty && !r.contains 64 then some s else none
  | _ => none

def parseKind (k : SynKind) (raw : List Nat) : Except TErr Val :=
  match k with
  | .iutf8 | .iname => .ok (.str (raw.map lowerByte))
  | .utf8 | .email => .ok (.str raw)
  | .uint32 => match parseU32 raw with | some n => .ok (.num n) | none => .error .invalidAttribute
  | .uuid => .ok (.num ((parseUuid (raw.map lowerByte)).getD uuidDoesNotExist))
  | .spn => match parseSpn raw with | some s => .ok (.str s) | none => .error .invalidAttribute

/-- `resolve_scim_json_get` on the modelled syntaxes: strings for the three text syntaxes and uuid,
everything else (EmailAddress, Uint32, Spn; a non-string JSON value) is `InvalidAttribute` -/
def scimKind (k : SynKind) (j : J) : Except TErr Val :=
  match k, j with
  | .iutf8, .str s | .iname, .str s => .ok (.str (s.map lowerByte))
  | .utf8, .str s => .ok (.str s)
  | .uuid, .str s => .ok (.num ((parseUuid (s.map lowerByte)).getD uuidDoesNotExist))
  | _, _ => .error .invalidAttribute

def stdEnv : Env where
  atom := fun n => match rowOfName n with | some r => r.atom | none => 99
  ldapVal := fun a raw => match rowOfAtom a with
    | some r => parseKind r.kind raw
    | none => .error .invalidAttributeName
  scimVal := fun a j => match rowOfAtom a with
    | some r => scimKind r.kind j
    | none => .error .invalidAttributeName
  spnA := 7
  syn := fun a => (rowOfAtom a).map (fun r => (r.syn, r.multi))

end Kanidm.ProtoFilter
