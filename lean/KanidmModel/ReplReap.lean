import KanidmModel.ReplMerge
import KanidmModel.RangeDiff
import KanidmModel.Generated.ReapOps
/-!
# C09 — tombstone lifecycle, update-vector trimming and the refusal protocol

Transcribes, from `/repo/server/lib/src`:

* `repl/entry.rs`   `EntryChangeState::can_delete`;
* `server/recycle.rs` `purge_recycled` (recycled entries last modified before `cid - RECYCLEBIN_MAX_AGE`
                    become tombstones at the transaction cid), `purge_tombstones`;
* `be/mod.rs`       `reap_tombstones` (anchor at the transaction cid, `trim_up_to(trim_cid)`, delete the
                    tombstones with `can_delete(trim_cid)`);
* `repl/ruv.rs`     `trim_up_to` (every cid strictly below the trim cid leaves `data` and `ranged`, a
                    server left without timestamps leaves `ranged`), `filter_ruv_range`,
                    `current_ruv_range` (first / last timestamp per server);
* `server/mod.rs`   `trim_cid = cid.sub_secs(CHANGELOG_MAX_AGE)` (`repl/cid.rs` `sub_secs`);
* `repl/supplier.rs` the decision of `supplier_provide_changes` is C10's `supplierDecide`
                    (imported), fed with the consumer's `current_ruv_range` and the supplier's
                    `filter_ruv_range(trim_cid)`.

Entry states and their merge are C08's (`KanidmModel/ReplMerge.lean`).  The comparison operators, the
order anchor-then-trim and the two windows are generated (`Generated/ReapOps.lean`, item
`repl-reap-ops`).  The update vector is the list of cids it indexes; timestamps are `Nat` nanoseconds.
-/
namespace Kanidm.ReplReap
open Kanidm.Cid (Cid cidLt)
open Kanidm.ReplMerge
open Kanidm.RangeDiff (Range Ruv Decision supplierDecide)
open Kanidm.Gen.ReapOps

/-- `ReplicationUpdateVector.data` (its keys); `ranged` is derived from it. -/
abbrev RuvData := List Cid

/-- timestamps are `Duration`s in nanoseconds -/
def nanosPerSec : Nat := 1000000000

/-- `Cid::sub_secs`: `self.ts.checked_sub(Duration::from_secs(secs))`; `None` = `Err(InvalidReplChangeId)`. -/
def subSecs (c : Cid) (secs : Nat) : Option Cid :=
  if c.ts < secs * nanosPerSec then none else some ⟨c.ts - secs * nanosPerSec, subSecsServer⟩

/-- the trim cid of a transaction whose cid is `c` -/
def trimCid (c : Cid) : Option Cid := subSecs c changelogMaxAge

def minList : List Nat → Nat
  | [] => 0
  | x :: xs => xs.foldl Nat.min x

def maxList : List Nat → Nat
  | [] => 0
  | x :: xs => xs.foldl Nat.max x

/-- the timestamps `ranged` holds for server `s` -/
def tsOf (d : RuvData) (s : Nat) : List Nat := (d.filter (fun c => c.sUuid == s)).map (·.ts)

/-- `current_ruv_range`: per server with at least one timestamp, first and last -/
def rangesOf (d : RuvData) : Ruv :=
  (sortDedup (d.map (·.sUuid))).map (fun s => (s, ⟨minList (tsOf d s), maxList (tsOf d s)⟩))

/-- `trim_up_to(trim)` on the keys of `data` (and, derived, on `ranged`) -/
def trimUpTo (trim : Cid) (d : RuvData) : RuvData :=
  d.filter (fun c => !(trimRemoves cidLt c trim))

/-- `filter_ruv_range(trim)`: what a supplier compares the consumer's ranges against -/
def filterView (trim : Cid) (r : Ruv) : Ruv :=
  r.filter (fun e => !(filterDrops e.2.tsMax trim.ts))

/-- `insert_change(cid, ..)` on the keys -/
def insertCid (c : Cid) (d : RuvData) : RuvData := if d.contains c then d else d ++ [c]

/-- `can_delete(trim)` -/
def canDelete (trim : Cid) : St → Bool
  | .tomb a => canDeleteTomb cidLt a trim
  | .live _ => canDeleteLive

structure Server where
  sid : Nat
  ents : List (Nat × St)
  ruv : RuvData
deriving DecidableEq, Repr

/-- `purge_tombstones` under transaction cid `now` (its trim cid is `trim`): anchor, trim, delete. -/
def reap (now trim : Cid) (s : Server) : Server :=
  let anchored := if purgeAnchorsAtTxnCid then insertCid now s.ruv else s.ruv
  let d := if anchorBeforeTrim then trimUpTo trim anchored else insertCid now (trimUpTo trim s.ruv)
  { s with ruv := d, ents := s.ents.filter (fun e => !(canDelete trim e.2)) }

/-- class attribute and the value atoms the harness uses for "recycled" class sets -/
def attrClass : Nat := 0

/-- `purge_recycled` on one entry: a recycled entry (`recycled st` decides on its class value) whose
last-modified cid is before `cutoff` becomes a tombstone at `now`. -/
def purgeRecycledEntry (recycled : St → Bool) (now cutoff : Cid) (st : St) : St :=
  match st with
  | .tomb a => .tomb a
  | .live e =>
    if recycled st && recycleExpired cidLt (lastMod st) cutoff then
      (if purgeRecycledTombstonesAtTxnCid then .tomb now else .live e)
    else .live e

/-- The supplier's side of one incremental replication: the reply, or the windows it supplies.
`consumer` = the consumer's `current_ruv_range`; the supplier looks at its own vector through
`filter_ruv_range(trim)` where `trim` is the trim cid of its read transaction. -/
def supplyDecision (consumer : Ruv) (supplierRuv : RuvData) (supplierTrim : Cid) : Decision :=
  supplierDecide consumer (filterView supplierTrim (rangesOf supplierRuv))

end Kanidm.ReplReap
