import KanidmModel.Generated.SessionOrd
/-!
# Model of the replicated valueset merges that carry revocations (property C11)

Transcribed from `/repo/server/lib/src`:

* `valueset/session.rs`  `ValueSetSession::{repl_merge_valueset, trim}`,
  `ValueSetOauth2Session::{repl_merge_valueset, trim}`
* `valueset/key_internal.rs` `ValueSetKeyInternal::{repl_merge_valueset, trim}`
* `valueset/auditlogstring.rs` `ValueSetAuditLogString::{repl_merge_valueset, remove_oldest}`
* `entry.rs` `Entry::merge_state`: which side is `self` (= "newer") of `repl_merge_valueset`
  (`take_left = cid_left > cid_right`), resulting attribute cid.

The comparison of `SessionState`s (`SState.cmp`, arm by arm), the `KeyStatus` order, every
comparison operator used by the loops/trims and the two limits are **generated** from the
source (`Generated/SessionOrd.lean`); the loop shapes here are hand transcribed and tied by
the correspondence harness (`harness/hlib/src/bin/c11.rs`).

A `BTreeMap<K, V>` is an association list `List (Nat × V)` with distinct keys (hypothesis
`KeysNodup` where a theorem needs it); everything is observed through `lookup`, the driver
prints maps sorted by key.  `Cid`s, `OffsetDateTime`s, session ids and key ids are naturals
(the harness maps them order-preservingly).
-/
namespace Kanidm.SessionMerge
open Kanidm.Gen.SessionOrd

/-- `BTreeMap::get`. -/
def lookup {α : Type} : List (Nat × α) → Nat → Option α
  | [], _ => none
  | (k', v) :: tl, k => if k = k' then some v else lookup tl k

/-- Loop body of every `repl_merge_valueset` here, for one `(k_other, v_other)` of the older map:
```
if let Some(v_self) = map.get_mut(k_other) { if REPL(v_other, v_self) { *v_self = v_other.clone() } }
else { map.insert(*k_other, v_other.clone()) }
``` -/
def mergeOne {α : Type} (repl : α → α → Bool) : List (Nat × α) → Nat → α → List (Nat × α)
  | [], k, v => [(k, v)]
  | (k', v') :: tl, k, v =>
    if k = k' then (k', if repl v v' then v else v') :: tl
    else (k', v') :: mergeOne repl tl k v

/-- `let mut map = self.map.clone(); for (k_other, v_other) in b.iter() { … }` -/
def coreMerge {α : Type} (repl : α → α → Bool) (newer older : List (Nat × α)) : List (Nat × α) :=
  older.foldl (fun m e => mergeOne repl m e.1 e.2) newer

/-! ## Login sessions (`ValueSetSession`) and OAuth2 sessions (`ValueSetOauth2Session`) -/

/-- A session value: its `state`, `issued_at` (used by the forced trim) and every other field
(label, cred id, scope, type, issuer, ext metadata / parent, rs_uuid) as one opaque payload. -/
structure Sess where
  state : SState
  issued : Nat
  payload : Nat
  deriving DecidableEq, Repr

abbrev SMap := List (Nat × Sess)

/-- `v_other.state > v_self.state` (generated operator over the generated `cmp`). -/
def sessRepl (older newer : Sess) : Bool := sessReplace older.state newer.state
def o2Repl (older newer : Sess) : Bool := o2Replace older.state newer.state

/-- The merge loop of `ValueSetSession::repl_merge_valueset`, before `trim`. -/
def smergeCore (newer older : SMap) : SMap := coreMerge sessRepl newer older
def o2mergeCore (newer older : SMap) : SMap := coreMerge o2Repl newer older

/-- The `retain` closure of `trim`: `RevokedAt(cid) if cid < trim_cid => false, _ => true`. -/
def keepSess (trimTest : Nat → Nat → Bool) (t : Nat) (s : Sess) : Bool :=
  match s.state with
  | .revokedAt c => !(trimTest c t)
  | _ => true

def trimRevoked (trimTest : Nat → Nat → Bool) (t : Nat) (m : SMap) : SMap :=
  m.filter (fun e => keepSess trimTest t e.2)

/-- `BTreeMap<OffsetDateTime, Uuid>::insert` on a list sorted by `issued_at` (later insert of an
equal time replaces the session id, as `collect()` into a `BTreeMap` does). -/
def timeIdxInsert : List (Nat × Nat) → Nat → Nat → List (Nat × Nat)
  | [], t, k => [(t, k)]
  | (t', k') :: tl, t, k =>
    if t < t' then (t, k) :: (t', k') :: tl
    else if t = t' then (t', k) :: tl
    else (t', k') :: timeIdxInsert tl t k

/-- Insertion sort by session id: the iteration order of `self.map.iter()`. -/
def insertByKey {α : Type} (e : Nat × α) : List (Nat × α) → List (Nat × α)
  | [] => [e]
  | x :: tl => if e.1 ≤ x.1 then e :: x :: tl else x :: insertByKey e tl

def sortByKey {α : Type} (m : List (Nat × α)) : List (Nat × α) := m.foldr insertByKey []

/-- Second half of `ValueSetSession::trim`: when more than `SESSION_MAXIMUM` sessions remain,
index them by `issued_at` and remove the first `len - SESSION_MAXIMUM` of that index. -/
def forceTrim (m : SMap) : SMap :=
  if m.length > sessionMaximum then
    let idx := (sortByKey m).foldl (fun idx e => timeIdxInsert idx e.2.issued e.1) []
    let victims := (idx.take (m.length - sessionMaximum)).map (·.2)
    m.filter (fun e => !(victims.contains e.1))
  else m

/-- `ValueSetSession::trim`. -/
def sessTrimAll (t : Nat) (m : SMap) : SMap := forceTrim (trimRevoked sessTrim t m)

/-- `ValueSetSession::repl_merge_valueset(&self = newer, older, trim_cid)`. -/
def sessReplMerge (newer older : SMap) (t : Nat) : SMap := sessTrimAll t (smergeCore newer older)

/-- `ValueSetOauth2Session::repl_merge_valueset` (its `trim` has no size limit; the derived
`rs_filter` bit set is not modelled). -/
def o2ReplMerge (newer older : SMap) (t : Nat) : SMap := trimRevoked o2Trim t (o2mergeCore newer older)

/-! ## Internal keys (`ValueSetKeyInternal`) -/

structure KeyData where
  status : KeyStatus
  statusCid : Nat
  payload : Nat      -- usage, valid_from, der
  deriving DecidableEq, Repr

abbrev KMap := List (Nat × KeyData)

/-- `v_other.status > v_self.status`. -/
def keyRepl (older newer : KeyData) : Bool := keyReplace older.status newer.status

def kmergeCore (newer older : KMap) : KMap := coreMerge keyRepl newer older

/-- `KeyStatus::Revoked if &key_internal.status_cid < trim_cid => false, _ => true`. -/
def keepKey (t : Nat) (d : KeyData) : Bool :=
  match d.status with
  | .revoked => !(keyTrim d.statusCid t)
  | _ => true

def keyTrimAll (t : Nat) (m : KMap) : KMap := m.filter (fun e => keepKey t e.2)

def keyReplMerge (newer older : KMap) (t : Nat) : KMap := keyTrimAll t (kmergeCore newer older)

/-! ## Attribute-level role choice (`Entry::merge_state`, both sides present) -/

/-- `let take_left = cid_left > cid_right;` then `vs_left.repl_merge_valueset(vs_right, trim)`
if `take_left`, else `vs_right.repl_merge_valueset(vs_left, trim)`; the attribute keeps the
cid of the side taken. `f newer older trim`. -/
def attrMerge {β : Type} (f : β → β → Nat → β) (t : Nat) (l r : Nat × β) : Nat × β :=
  if takeLeft l.1 r.1 then (l.1, f l.2 r.2 t) else (r.1, f r.2 l.2 t)

/-! ## Audit log (`ValueSetAuditLogString`): `BTreeMap<Cid, String>` -/

abbrev AMap := List (Nat × Nat)

/-- `BTreeMap::insert` (overwrites). -/
def insertOver {α : Type} : List (Nat × α) → Nat → α → List (Nat × α)
  | [], k, v => [(k, v)]
  | (k', v') :: tl, k, v => if k = k' then (k', v) :: tl else (k', v') :: insertOver tl k v

/-- `mergemaps!(a, b)`: every `(k, v)` of `b` inserted into `a`. -/
def mergemaps {α : Type} (a b : List (Nat × α)) : List (Nat × α) :=
  b.foldl (fun m e => insertOver m e.1 e.2) a

/-- Number of entries with a strictly larger cid. -/
def above {α : Type} (m : List (Nat × α)) (k : Nat) : Nat := (m.filter (fun e => k < e.1)).length

/-- `while self.map.len() > CAP { self.map.pop_first(); }` on a map with distinct keys: exactly
the entries with fewer than `CAP` larger keys remain. -/
def removeOldest (cap : Nat) (m : AMap) : AMap := m.filter (fun e => above m e.1 < cap)

/-- The same loop written literally (`pop_first` = drop the least key), with fuel; used by the
driver next to `removeOldest` (they must agree — `removeOldest_eq_loop` is checked per request). -/
def popFirst (m : AMap) : AMap :=
  match (sortByKey m) with
  | [] => []
  | _ :: tl => tl

def removeOldestLoop (cap : Nat) : Nat → AMap → AMap
  | 0, m => m
  | fuel + 1, m => if m.length > cap then removeOldestLoop cap fuel (popFirst m) else m

/-- `ValueSetAuditLogString::repl_merge_valueset(&self = newer, older, _)`:
`map = older.clone(); mergemaps!(map, self.map); remove_oldest()`. -/
def auditReplMerge (newer older : AMap) (_t : Nat) : AMap :=
  removeOldest auditCapacity (mergemaps older newer)

end Kanidm.SessionMerge
