import KanidmModel.Generated.CodecOps
/-
C14 — model of the replication wire codec (server/core/src/repl/codec.rs).

* `decodeStep`  = `decode_length_checked_json` up to (not including) JSON parsing: the checks in
  source order, each operator / constant / early-return kind taken from the generated module
  (i.e. from the source text as it is now), the `split_at`s, the final trim/advance.
* `decode`      = the same including the (abstract) payload parser; the buffer is advanced even
  when the payload does not parse, exactly as the Rust code computes `res` first and trims after.
* `encode`      = `encode_length_checked_json`: `dst ++ len(payload) as 8 big-endian bytes ++ payload`.
* `Conn`/`feed` = what `tokio_util::codec::Framed{,Read}` does with a `Decoder`: append the bytes
  read to the buffer, call `decode` until it asks for more; a decode error ends the stream
  (both call sites in repl/mod.rs drop the connection on `Some(Err(_))`).

A buffer is a `List UInt8` (`BytesMut` contents; capacity is not modelled: the capacity
recycling at `CODEC_BYTESMUT_ALLOCATION_LIMIT` only swaps an *empty* buffer).
Lengths are `Nat`; `usize`/`u64` casts in the source are lossless on the 64-bit targets kanidm
supports and buffers are < 2^64 bytes (assumption recorded in props/C14.json).
-/
namespace Kanidm.Codec
open Kanidm.Gen.Codec

abbrev Bytes := List UInt8

/-! ### Length header -/

/-- `k` bytes, most significant first, of `n` (`n as uK` truncation = `n % 256^k`). -/
def beEncode : Nat → Nat → Bytes
  | 0, _ => []
  | k + 1, n => beEncode k (n / 256) ++ [UInt8.ofNat (n % 256)]

/-- Big-endian value of a byte string. -/
def beDecode (l : Bytes) : Nat := l.foldl (fun acc b => acc * 256 + b.toNat) 0

/-- `to_{be,le}_bytes` of a `k`-byte unsigned integer. -/
def encodeLen (e : Endian) (k n : Nat) : Bytes :=
  match e with
  | .big => beEncode k n
  | .little => (beEncode k n).reverse

/-- `from_{be,le}_bytes`. -/
def decodeLen (e : Endian) (l : Bytes) : Nat :=
  match e with
  | .big => beDecode l
  | .little => beDecode l.reverse

/-! ### Decoder -/

/-- Errors the decoder reports. `invalidInput` = `ErrorKind::InvalidInput` "empty request",
`outOfMemory` = `ErrorKind::OutOfMemory` "request too large", `badPayload` = "JSON decode error". -/
inductive Fault where
  | invalidInput | outOfMemory | other | badPayload | panic
deriving DecidableEq, Repr

/-- Outcome of the framing part of one `decode` call. -/
inductive Step where
  | needMore                                  -- `Ok(None)`, buffer untouched
  | err (e : Fault)                           -- `Err(_)` before anything is consumed, buffer untouched
  | frame (payload : Bytes) (rest : Bytes)    -- one frame taken; `rest` is the buffer afterwards
  | panic                                     -- `split_at`/`copy_from_slice`/`assert_eq!` would panic
deriving DecidableEq, Repr

def earlyStep : Early → Step
  | .needMore => .needMore
  | .errInvalidInput => .err .invalidInput
  | .errOutOfMemory => .err .outOfMemory
  | .errOther => .err .other

/-- First check (in source order) whose condition holds. -/
def firstHit : List (Bool × Early) → Option Early
  | [] => none
  | (c, r) :: rest => if c then some r else firstHit rest

/-- `decode_length_checked_json` up to the JSON parse. -/
def decodeStep (max : Nat) (src : Bytes) : Step :=
  if hdrShort src.length then earlyStep hdrShortRet
  -- `src.split_at(8)` panics if `8 > src.len()`
  else if src.length < hdrSplit then .panic
  else
    let hdr := src.take hdrSplit
    let json := src.drop hdrSplit
    -- `assert_eq!(len_be_bytes.len(), src_len_bytes.len())`, `copy_from_slice`, and the
    -- `[u8; N]` argument type of `from_be_bytes`
    if lenArr ≠ hdr.length ∨ decLenBytes ≠ lenArr then .panic
    else
      let reqLen := decodeLen decEndian hdr
      match firstHit (postChecks reqLen max json.length src.length) with
      | some r => earlyStep r
      | none =>
        -- `json_bytes.split_at(req_len as usize)` panics if `req_len > json_bytes.len()`
        if json.length < payloadSplit reqLen then .panic
        else
          let payload := json.take (payloadSplit reqLen)
          let rest := if exactTrim src.length reqLen then [] else src.drop (advanceBy reqLen)
          -- `src.advance(n)` panics if `n > src.len()`
          if ¬ exactTrim src.length reqLen ∧ src.length < advanceBy reqLen then .panic
          else .frame payload rest

/-- Outcome of one full `decode` call with payload parser `parse`. -/
inductive Out (M : Type) where
  | needMore
  | err (e : Fault)
  | msg (m : M)
deriving Repr

/-- One `Decoder::decode` call: outcome and the buffer afterwards. -/
def decode {M : Type} (parse : Bytes → Option M) (max : Nat) (src : Bytes) : Out M × Bytes :=
  match decodeStep max src with
  | .needMore => (.needMore, src)
  | .err e => (.err e, src)
  | .panic => (.err .panic, src)
  | .frame payload rest =>
    match parse payload with
    | some m => (.msg m, rest)
    | none => (.err .badPayload, rest)

/-! ### Encoder -/

/-- One frame: length header then payload. -/
def frameOf (payload : Bytes) : Bytes :=
  encodeLen encEndian encLenBytes payload.length ++ payload

/-- `encode_length_checked_json`: the frame is appended to whatever `dst` already holds. -/
def encode {M : Type} (print : M → Bytes) (m : M) (dst : Bytes) : Bytes :=
  dst ++ frameOf (print m)

/-- The byte stream produced by writing `msgs` in order to an empty connection. -/
def encodeAll {M : Type} (print : M → Bytes) (msgs : List M) : Bytes :=
  msgs.foldl (fun dst m => encode print m dst) []

/-! ### The `Framed` read loop -/

/-- Result of draining a buffer: messages decoded in order, remaining buffer, terminal error. -/
structure Drained (M : Type) where
  msgs : List M
  buf : Bytes
  fault : Option Fault
deriving Repr

/-- Call `decode` until it returns `Ok(None)` or an error. Every decoded frame removes at least
one byte, so `fuel = src.length + 1` calls always suffice (`drain_eq` in the lemma file is the
fuel-free recursion equation). -/
def drainF {M : Type} (parse : Bytes → Option M) (max : Nat) : Nat → Bytes → Drained M
  | 0, src => ⟨[], src, none⟩
  | fuel + 1, src =>
    match decode parse max src with
    | (.needMore, b) => ⟨[], b, none⟩
    | (.err e, b) => ⟨[], b, some e⟩
    | (.msg m, b) =>
      let d := drainF parse max fuel b
      ⟨m :: d.msgs, d.buf, d.fault⟩

def drain {M : Type} (parse : Bytes → Option M) (max : Nat) (src : Bytes) : Drained M :=
  drainF parse max (src.length + 1) src

/-- Read side of a connection: bytes received but not yet decoded, and whether the stream has
ended with a decode error. -/
structure Conn where
  buf : Bytes := []
  fault : Option Fault := none
deriving DecidableEq, Repr

/-- One read of `chunk` bytes from the socket: returns the new state and the messages yielded. -/
def feed {M : Type} (parse : Bytes → Option M) (max : Nat) (c : Conn) (chunk : Bytes) :
    Conn × List M :=
  match c.fault with
  | some _ => (c, [])
  | none =>
    let d := drain parse max (c.buf ++ chunk)
    (⟨d.buf, d.fault⟩, d.msgs)

/-- A whole schedule of reads. -/
def feedAll {M : Type} (parse : Bytes → Option M) (max : Nat) :
    Conn → List Bytes → Conn × List M
  | c, [] => (c, [])
  | c, chunk :: rest =>
    let (c', ms) := feed parse max c chunk
    let (c'', ms') := feedAll parse max c' rest
    (c'', ms ++ ms')

end Kanidm.Codec
