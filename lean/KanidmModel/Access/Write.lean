import KanidmModel.Filter.Optimise
import KanidmModel.Generated.AccessProtected
/-
C24 — write access: modify / batch modify / create / delete / revive.

Transcribes, arm by arm,
  * `/repo/server/lib/src/server/access/mod.rs`
      `resolve_access_conditions` (l.168), `modify_related_acp` (l.494), `modify_allow_operation`
      (l.527), `batch_modify_allow_operation` (l.553), `modify_allow_operation_per_entry` (l.585),
      `create_allow_operation` (l.744), `delete_related_acp` (l.835), `delete_allow_operation` (l.865)
  * `access/modify.rs`  `apply_modify_access`, `modify_ident_test`, `modify_pres_test`,
      `modify_sync_constrain`, `modify_protected_attrs`, `modify_protected_entry_attrs`,
      `modify_migration_attrs`
  * `access/create.rs`  `apply_create_access`, `create_filter_entry`, `protected_filter_entry`,
      `migration_filter_entry`, `message_queue`
  * `access/delete.rs`  `apply_delete_access`, `delete_filter_entry`, `protected_filter_entry`
  * `access/migration.rs` `migration_entry_attrs`
  * `server/modify.rs` `modify_pre_apply` (l.29–127: empty request, candidates, access, the
      recycled/tombstone mask guard), `server/delete.rs` `delete` (l.9–50), `server/create.rs`
      `create` (l.10–45), `server/recycle.rs` `revive_recycled` (l.100–162)

Every class table, the per-class constraint table, the sync base set, the migration tables, the
uuid comparisons of the three protected gates, the stripped class tables, the scope gates and the
origin gate of `modify_ident_test` are NOT written here: they are `Kanidm.Gen.Access.*`,
regenerated from the Rust source by `vtranslate access-protected` on every run.

Atoms: attributes and classes are naturals (position of the variant in `Attribute` /
`EntryClass`; names the enums do not know are numbered from 1000 by the harness); uuids are
naturals (the 128-bit value, so `<=` is the byte order `Uuid: Ord` uses). `BTreeSet`s are lists
read through membership only.
-/
namespace Kanidm.Access.Write
open Kanidm.Filter
open Kanidm.Gen.Access

/-! ### sets -/
/-- `a.is_disjoint(b)` -/
def disjoint (a b : List Nat) : Bool := a.all (fun x => !b.contains x)
/-- `a.is_subset(b)` -/
def subset (a b : List Nat) : Bool := a.all (fun x => b.contains x)
/-- `&a & &b` -/
def inter (a b : List Nat) : List Nat := a.filter (fun x => b.contains x)
/-- `a.sub(&b)` / repeated `remove` -/
def minus (a b : List Nat) : List Nat := a.filter (fun x => !b.contains x)
/-- `imo.intersection(groups).next().is_some()` -/
def intersects (a b : List Nat) : Bool := a.any (fun x => b.contains x)

/-! ### identity (server/identity.rs) -/

inductive Role where
  | system | migration | accountRequest | messageQueue
  deriving DecidableEq, Repr, Inhabited

inductive Scope where
  | readOnly | readWrite | synchronise
  deriving DecidableEq, Repr, Inhabited

/-- `IdentType`; `user` carries what the access code reads from the account's entry:
its uuid and `get_ava_refer(MemberOf)` (`none` = attribute absent). -/
inductive Origin where
  | internal (r : Role)
  | synch (u : Nat)
  | user (uuid : Nat) (memberof : Option (List Nat))
  deriving Repr, Inhabited

structure Ident where
  origin : Origin
  scope : Scope
  deriving Repr, Inhabited

/-- `InternalRole::get_uuid` -/
def Role.uuid : Role → Nat
  | .system => uuidSystem
  | .migration => uuidInternalMigration
  | .accountRequest => uuidInternalAccountRequest
  | .messageQueue => uuidInternalMessageQueue

/-- `Identity::get_uuid` -/
def Ident.uuid (id : Ident) : Nat :=
  match id.origin with
  | .internal r => r.uuid
  | .user u _ => u
  | .synch u => u

/-- `Identity::get_memberof` -/
def Ident.memberof (id : Ident) : Option (List Nat) :=
  match id.origin with
  | .internal _ | .synch _ => none
  | .user _ mo => mo

/-- `Identity::is_internal` -/
def Ident.isInternal (id : Ident) : Bool :=
  match id.origin with
  | .internal _ => true
  | _ => false

/-- numbering used by the generated gate tables -/
def Scope.code : Scope → Nat
  | .readOnly => 0 | .readWrite => 1 | .synchronise => 2

def Origin.code : Origin → Nat
  | .internal .system => 0
  | .internal .migration => 1
  | .internal .accountRequest => 2
  | .internal .messageQueue => 3
  | .synch _ => 4
  | .user _ _ => 5

/-! ### entries -/

/-- A committed entry as the access code reads it. -/
structure Ent where
  /-- `get_uuid()` -/
  uuid : Nat
  /-- `get_ava_as_iutf8(Attribute::Class)` -/
  classes : Option (List Nat)
  /-- `get_ava_refer(Attribute::EntryManagedBy)` -/
  managedBy : Option (List Nat)
  /-- `get_ava_single_refer(Attribute::SyncParentUuid)` -/
  syncParent : Option Nat
  /-- the attribute map the target filters are evaluated on -/
  fe : Filter.Entry

/-- An entry about to be created (`Entry<EntryInit, EntryNew>`). -/
structure NewEnt where
  /-- `get_uuid()` — optional before creation -/
  uuid : Option Nat
  classes : Option (List Nat)
  /-- `attr_keys()` / `get_ava_names()` -/
  attrs : List Nat
  fe : Filter.Entry

/-! ### profiles (access/profiles.rs) -/

inductive Receiver where
  | none
  | group (gs : List Nat)
  | entryManager

/-- `AccessControlProfile`: receiver and target (`none` = `AccessControlTarget::None`). -/
structure Profile where
  receiver : Receiver
  target : Option FC

structure AcpModify where
  acp : Profile
  presAttrs : List Nat
  remAttrs : List Nat
  presClasses : List Nat
  remClasses : List Nat

structure AcpCreate where
  acp : Profile
  attrs : List Nat
  classes : List Nat

structure AcpDelete where
  acp : Profile

inductive RCond where
  | groupChecked | entryManager
  deriving DecidableEq, Repr

def attrConsts : AttrConsts := ⟨A.Uuid, A.Name⟩

/-- `resolve_access_conditions` (mod.rs l.168). `Filter::resolve` = `resolve_no_idx` then
`fast_optimise` (meaning preserving, C02) — only the former is modelled. -/
def resolveAccessConditions (id : Ident) (p : Profile) : Option (RCond × F) :=
  let rc : Option RCond :=
    match p.receiver with
    | .group gs =>
      let groupCheck := (id.memberof.map (fun imo => intersects imo gs)).getD false
      if groupCheck then some .groupChecked else none
    | .entryManager => some .entryManager
    | .none => none
  match rc with
  | none => none
  | some rc =>
    match p.target with
    | some f => (FC.resolveNoIdx attrConsts (.num id.uuid) f).map (fun t => (rc, t))
    | none => none

/-- A profile after `resolve_access_conditions` (`AccessControl*Resolved`). -/
structure Resolved (α : Type) where
  acp : α
  rcond : RCond
  target : F

def related {α : Type} (prof : α → Profile) (id : Ident) (acps : List α) : List (Resolved α) :=
  acps.filterMap fun a =>
    (resolveAccessConditions id (prof a)).map fun c => ⟨a, c.1, c.2⟩

/-- `modify_related_acp` -/
def modifyRelatedAcp (id : Ident) (acps : List AcpModify) : List (Resolved AcpModify) :=
  related (·.acp) id acps
def createRelatedAcp (id : Ident) (acps : List AcpCreate) : List (Resolved AcpCreate) :=
  related (·.acp) id acps
/-- `delete_related_acp` -/
def deleteRelatedAcp (id : Ident) (acps : List AcpDelete) : List (Resolved AcpDelete) :=
  related (·.acp) id acps

/-- `entry.entry_match_no_index(f_res)` -/
def targetMatches (f : F) (fe : Filter.Entry) : Bool := f.matches ValSem.std fe

/-- The entry-manager test of modify (modify.rs l.132–154) and delete (delete.rs l.114–137):
no `entry_managed_by` ⇒ the profile does not apply. -/
def entryManagerCheck (id : Ident) (managedBy : Option (List Nat)) : Bool :=
  match managedBy with
  | none => false
  | some ems =>
    let groupCheck := (id.memberof.map (fun imo => intersects imo ems)).getD false
    let userCheck := ems.contains id.uuid
    groupCheck || userCheck

/-! ### modify (access/modify.rs) -/

inductive Basic where
  | deny | grant | ignore
  deriving DecidableEq, Repr

/-- `AccessModResult` -/
inductive ModRes where
  | deny
  | ignore
  | constrain (pres rem : List Nat) (presCls remCls : Option (List Nat))
  | allow (pres rem presCls remCls : List Nat)

/-- `modify_ident_test` (modify.rs l.243): the origin arms and the scope arms are the generated
tables `modifyOriginGate` / `modifyScopeDenied`. -/
def modifyIdentTest (id : Ident) : Basic :=
  match modifyOriginGate id.origin.code with
  | 0 => .deny
  | 1 => .grant
  | _ => if modifyScopeDenied id.scope.code then .deny else .ignore

/-- `migration_entry_attrs` (migration.rs l.42). -/
def migrationEntryAttrs (classes : List Nat) : List Nat × List Nat :=
  migrationTable.foldl
    (fun (acc : List Nat × List Nat) row =>
      if classes.contains row.1 then
        (acc.1 ++ row.2.2, match row.2.1 with | some r => r | none => acc.2)
      else acc)
    (migrationBaseAttrs, [])

/-- `modify_migration_attrs` (modify.rs l.483). -/
def modifyMigrationAttrs (id : Ident) (e : Ent) : ModRes :=
  match id.origin with
  | .internal .migration =>
    match e.classes with
    | some classes =>
      let classes := minus classes migrationIgnoreClasses
      if !classes.isEmpty && subset classes migrationEntryClasses then
        let r := migrationEntryAttrs classes
        if r.1.isEmpty then .deny else .allow r.1 r.1 r.2 r.2
      else .deny
    | none => .deny
  | _ => .ignore

/-- `constrain_attrs` of `modify_protected_entry_attrs` (modify.rs l.401–467): the attributes the
protected rules leave open on an entry with these classes. -/
def protectedOpenAttrs (classes : List Nat) : List Nat :=
  protectedConstrainTable.foldl
    (fun acc row => if classes.contains row.1 then acc ++ row.2 else acc) []

/-- `modify_protected_entry_attrs` (modify.rs l.391). -/
def modifyProtectedEntryAttrs (classes : List Nat) : ModRes :=
  if !disjoint classes lockedEntryClasses then .deny
  else
    let constrainAttrs := protectedOpenAttrs classes
    if constrainAttrs.isEmpty then .deny
    else .constrain constrainAttrs constrainAttrs none none

/-- `modify_protected_attrs` (modify.rs l.359). -/
def modifyProtectedAttrs (id : Ident) (e : Ent) : ModRes :=
  match id.origin with
  | .internal .system | .synch _ => .ignore
  | _ =>
    match e.classes with
    | some classes =>
      if modifyAnonCmp e.uuid uuidAnonymous && disjoint classes modifyGateClasses then .ignore
      else modifyProtectedEntryAttrs classes
    | none => .ignore

/-- `modify_sync_constrain` (modify.rs l.307). `agreements` = `sync_agreements` map. -/
def modifySyncConstrain (id : Ident) (e : Ent) (agreements : List (Nat × List Nat)) : ModRes :=
  match id.origin with
  | .internal _ => .ignore
  | .synch _ => .ignore
  | .user _ _ =>
    let isSync := (e.classes.map (fun cs => cs.contains C.SyncObject)).getD false
    if !isSync then .ignore
    else
      match e.syncParent with
      | some su =>
        let set := syncConstrainBase ++ ((agreements.lookup su).getD [])
        .constrain set set none none
      | none => .deny

/-- the `filter_map` closure of `apply_modify_access` (l.124–170) -/
def modifyScoped (id : Ident) (e : Ent) (r : Resolved AcpModify) : Bool :=
  (match r.rcond with
   | .groupChecked => true
   | .entryManager => entryManagerCheck id e.managedBy)
  && targetMatches r.target e.fe

/-- What `ModifyResult::Allow` carries. -/
structure ModAllow where
  pres : List Nat
  rem : List Nat
  presCls : List Nat
  remCls : List Nat

inductive ModifyResult where
  | deny | grant | allow (a : ModAllow)

/-- `if !c.is_empty() { &c & &a } else { a }` -/
def constrainWith (c a : List Nat) : List Nat := if !c.isEmpty then inter c a else a

/-- `apply_modify_access` (modify.rs l.28). -/
def applyModifyAccess (id : Ident) (relatedAcp : List (Resolved AcpModify))
    (agreements : List (Nat × List Nat)) (e : Ent) : ModifyResult :=
  let t := modifyIdentTest id
  let denied0 := t == .deny
  let grant := t == .grant
  let mig := modifyMigrationAttrs id e
  let denied1 := denied0 || (match mig with | .deny => true | _ => false)
  let migAllow : ModAllow := match mig with
    | .allow p r pc rc => ⟨p, r, pc, rc⟩
    | _ => ⟨[], [], [], []⟩
  let prot := modifyProtectedAttrs id e
  let denied2 := denied1 || (match prot with | .deny => true | _ => false)
  let protCon : ModAllow := match prot with
    | .constrain p r pc rc => ⟨p, r, pc.getD [], rc.getD []⟩
    | _ => ⟨[], [], [], []⟩
  if !grant && !denied2 then
    let sync := modifySyncConstrain id e agreements
    let denied3 := match sync with | .deny => true | _ => false
    let syncCon : List Nat × List Nat := match sync with
      | .constrain p r _ _ => (p, r)
      | _ => ([], [])
    let scopedAcp := (relatedAcp.filter (modifyScoped id e)).map (·.acp)
    -- modify_pres_test: always `Allow` of the unions
    let allowPres := migAllow.pres ++ scopedAcp.flatMap (·.presAttrs)
    let allowRem := migAllow.rem ++ scopedAcp.flatMap (·.remAttrs)
    let allowPresCls := migAllow.presCls ++ scopedAcp.flatMap (·.presClasses)
    let allowRemCls := migAllow.remCls ++ scopedAcp.flatMap (·.remClasses)
    if denied3 then .deny
    else
      .allow {
        pres := constrainWith (protCon.pres ++ syncCon.1) allowPres
        rem := constrainWith (protCon.rem ++ syncCon.2) allowRem
        presCls := minus (constrainWith protCon.presCls allowPresCls) modifyStripPres
        remCls := minus (constrainWith protCon.remCls allowRemCls) modifyStripRem }
  else if denied2 then .deny
  else .grant

/-- `Modify<ModifyValid>`; `v` / `vs` are class atoms and are only read when `a` is `class`. -/
inductive Mod where
  | present (a : Nat) (v : Nat)
  | removed (a : Nat) (v : Nat)
  | purged (a : Nat)
  | set (a : Nat) (vs : List Nat)
  | assert (a : Nat) (v : Nat)
  deriving Repr, DecidableEq, Inhabited

/-- `requested_pres` (mod.rs l.602) -/
def requestedPres (ml : List Mod) : List Nat :=
  ml.filterMap fun m => match m with
    | .present a _ | .set a _ | .assert a _ => some a
    | .removed _ _ | .purged _ => none

/-- `requested_rem` (mod.rs l.610) -/
def requestedRem (ml : List Mod) : List Nat :=
  ml.filterMap fun m => match m with
    | .removed a _ | .purged a | .set a _ => some a
    | .present _ _ | .assert _ _ => none

/-- The class loop (mod.rs l.623–669): `none` = one of its `return false`. -/
def requestedClasses (e : Ent) : List Mod → Option (List Nat × List Nat)
  | [] => some ([], [])
  | m :: rest =>
    match requestedClasses e rest with
    | none =>
      -- a later `return false` still fires unless an earlier one did: either way `false`
      none
    | some (p, r) =>
      match m with
      | .present a v => if a == A.Class then some (v :: p, r) else some (p, r)
      | .removed a v => if a == A.Class then some (p, v :: r) else some (p, r)
      | .set a vs =>
        if a == A.Class then
          match e.classes with
          | some cur => some (minus vs cur ++ p, minus cur vs ++ r)
          | none => none
        else some (p, r)
      | .purged _ | .assert _ _ => some (p, r)

/-- `modify_allow_operation_per_entry` (mod.rs l.585). -/
def modifyAllowPerEntry (id : Ident) (relatedAcp : List (Resolved AcpModify))
    (agreements : List (Nat × List Nat)) (e : Ent) (ml : List Mod) : Bool :=
  let disallow := ml.any fun m => match m with | .purged a => a == A.Class | _ => false
  if disallow then false
  else
    let reqPres := requestedPres ml
    let reqRem := requestedRem ml
    match requestedClasses e ml with
    | none => false
    | some (reqPresCls, reqRemCls) =>
      if reqPres.isEmpty && reqRem.isEmpty then false
      else
        match applyModifyAccess id relatedAcp agreements e with
        | .deny => false
        | .grant => true
        | .allow a =>
          subset reqPres a.pres && subset reqRem a.rem
            && subset reqPresCls a.presCls && subset reqRemCls a.remCls

/-- `modify_allow_operation` (mod.rs l.527). -/
def modifyAllowOperation (id : Ident) (acps : List AcpModify) (agreements : List (Nat × List Nat))
    (entries : List Ent) (ml : List Mod) : Bool :=
  let rel := modifyRelatedAcp id acps
  entries.all fun e => modifyAllowPerEntry id rel agreements e ml

/-- `batch_modify_allow_operation` (mod.rs l.553): `none` = no modlist for that uuid. -/
def batchModifyAllowOperation (id : Ident) (acps : List AcpModify)
    (agreements : List (Nat × List Nat)) (entries : List (Ent × Option (List Mod))) : Bool :=
  let rel := modifyRelatedAcp id acps
  entries.all fun p =>
    match p.2 with
    | none => false
    | some ml => modifyAllowPerEntry id rel agreements p.1 ml

/-! ### create (access/create.rs) -/

inductive IRes where
  | deny | grant | ignore
  | allow (pres presCls : List Nat)

/-- `protected_filter_entry` (create.rs l.271). -/
def createProtectedFilterEntry (id : Ident) (e : NewEnt) : IRes :=
  match id.origin with
  | .internal .system | .internal .accountRequest | .internal .messageQueue => .ignore
  | .synch _ => .deny
  | .internal .migration | .user _ _ =>
    if (e.uuid.map (fun u => createAnonCmp u uuidAnonymous)).getD false then .deny
    else
      match e.classes with
      | some classes => if disjoint classes createGateClasses then .ignore else .deny
      | none => .ignore

/-- `message_queue` (create.rs l.337). -/
def createMessageQueue (id : Ident) (e : NewEnt) : IRes :=
  match id.origin with
  | .internal .messageQueue =>
    if (e.classes.map (fun cs => cs.contains C.OutboundMessage)).getD false then
      .allow messageQueueCreateAttrs messageQueueCreateClasses
    else .deny
  | _ => .ignore

/-- `migration_filter_entry` (create.rs l.310). -/
def createMigrationFilterEntry (id : Ident) (e : NewEnt) : IRes :=
  match id.origin with
  | .internal .migration =>
    match e.classes with
    | some classes =>
      let classes := minus classes migrationIgnoreClasses
      if subset classes migrationEntryClasses then
        let r := migrationEntryAttrs classes
        if r.1.isEmpty then .deny else .allow r.1 r.2
      else .deny
    | none => .deny
  | _ => .ignore

/-- the `any` closure of `create_filter_entry` (l.207–262) -/
def createProfileCovers (e : NewEnt) (createClasses : List Nat) (r : Resolved AcpCreate) : Bool :=
  (match r.rcond with
   | .groupChecked => true
   | .entryManager => false)
  && targetMatches r.target e.fe
  && subset e.attrs r.acp.attrs
  && subset createClasses r.acp.classes

/-- `create_filter_entry` (create.rs l.120). -/
def createFilterEntry (id : Ident) (relatedAcp : List (Resolved AcpCreate)) (e : NewEnt) : IRes :=
  match id.origin with
  | .internal .system => .grant
  | .internal .migration => .ignore
  | .internal .accountRequest => .allow accountRequestCreateAttrs accountRequestCreateClasses
  | .internal .messageQueue => .ignore
  | .synch _ => .deny
  | .user _ _ =>
    if createScopeDenied id.scope.code then .deny
    else
      match e.classes with
      | none => .deny
      | some createClasses =>
        if relatedAcp.any (createProfileCovers e createClasses) then .grant else .ignore

inductive CreateResult where
  | deny | grant
  | allow (pres presCls : List Nat)

def IRes.isDeny : IRes → Bool | .deny => true | _ => false
def IRes.isGrant : IRes → Bool | .grant => true | _ => false
def IRes.allowPres : IRes → List Nat | .allow p _ => p | _ => []
def IRes.allowCls : IRes → List Nat | .allow _ c => c | _ => []

/-- `apply_create_access` (create.rs l.29). The constrain sets are never filled there. -/
def applyCreateAccess (id : Ident) (relatedAcp : List (Resolved AcpCreate)) (e : NewEnt) :
    CreateResult :=
  let p := createProtectedFilterEntry id e
  let mq := createMessageQueue id e
  let mg := createMigrationFilterEntry id e
  let cf := createFilterEntry id relatedAcp e
  let denied := p.isDeny || mq.isDeny || mg.isDeny || cf.isDeny
  let grant := mq.isGrant || mg.isGrant || cf.isGrant
  if denied then .deny
  else if grant then .grant
  else
    .allow (mq.allowPres ++ mg.allowPres ++ cf.allowPres)
      (minus (mq.allowCls ++ mg.allowCls ++ cf.allowCls) createStripPres)

/-- the per-entry closure of `create_allow_operation` (mod.rs l.776–823) -/
def createAllowPerEntry (id : Ident) (relatedAcp : List (Resolved AcpCreate)) (e : NewEnt) : Bool :=
  match e.classes with
  | none => false
  | some requestedPresClasses =>
    match applyCreateAccess id relatedAcp e with
    | .deny => false
    | .grant => true
    | .allow pres presCls => subset e.attrs pres && subset requestedPresClasses presCls

/-- `create_allow_operation` (mod.rs l.744). -/
def createAllowOperation (id : Ident) (acps : List AcpCreate) (entries : List NewEnt) : Bool :=
  let rel := createRelatedAcp id acps
  entries.all (createAllowPerEntry id rel)

/-! ### delete (access/delete.rs) -/

/-- `protected_filter_entry` (delete.rs l.171). -/
def deleteProtectedFilterEntry (id : Ident) (e : Ent) : Basic :=
  match id.origin with
  | .internal .system => .ignore
  | .synch _ => .deny
  | .internal .accountRequest | .internal .messageQueue => .deny
  | .internal .migration | .user _ _ =>
    if deleteAnonCmp e.uuid uuidAnonymous then .deny
    else
      match e.classes with
      | some classes => if disjoint classes deleteGateClasses then .ignore else .deny
      | none => .ignore

/-- the `any` closure of `delete_filter_entry` (l.107–162) -/
def deleteScoped (id : Ident) (e : Ent) (r : Resolved AcpDelete) : Bool :=
  (match r.rcond with
   | .groupChecked => true
   | .entryManager => entryManagerCheck id e.managedBy)
  && targetMatches r.target e.fe

/-- `delete_filter_entry` (delete.rs l.52). -/
def deleteFilterEntry (id : Ident) (relatedAcp : List (Resolved AcpDelete)) (e : Ent) : Basic :=
  match id.origin with
  | .internal .system => .grant
  | .internal .migration =>
    let valid := (e.classes.map fun classes =>
      subset (minus classes migrationIgnoreClasses) migrationEntryClasses).getD false
    if valid then .grant else .deny
  | .internal .accountRequest | .internal .messageQueue => .deny
  | .synch _ => .deny
  | .user _ _ =>
    if deleteScopeDenied id.scope.code then .deny
    else if relatedAcp.any (deleteScoped id e) then .grant else .ignore

/-- `apply_delete_access` (delete.rs l.21): `true` = `DeleteResult::Grant`. -/
def applyDeleteAccess (id : Ident) (relatedAcp : List (Resolved AcpDelete)) (e : Ent) : Bool :=
  let p := deleteProtectedFilterEntry id e
  let d := deleteFilterEntry id relatedAcp e
  let denied := p == .deny || d == .deny
  let grant := d == .grant
  if denied then false else if grant then true else false

/-- `delete_allow_operation` (mod.rs l.865). -/
def deleteAllowOperation (id : Ident) (acps : List AcpDelete) (entries : List Ent) : Bool :=
  let rel := deleteRelatedAcp id acps
  entries.all (applyDeleteAccess id rel)

/-! ### the operations around the access decision -/

/-- What the caller of a write operation observes from the part modelled here. -/
inductive OpResult where
  /-- `Err(OperationError::EmptyRequest)` -/
  | emptyRequest
  /-- `Err(OperationError::NoMatchingEntries)` -/
  | noMatchingEntries
  /-- `Err(OperationError::AccessDenied)` -/
  | accessDenied
  /-- internal identity with no candidates: `Ok` without doing anything -/
  | nothingToDo
  /-- every check modelled here passed; plugins, schema and the backend run next -/
  | proceed
  deriving DecidableEq, Repr

/-- `mask_recycled_ts().is_none()` (entry.rs l.3157) -/
def maskedTs (classes : Option (List Nat)) : Bool :=
  match classes with
  | some cls => cls.contains C.Tombstone || cls.contains C.Recycled
  | none => false

/-- `mask_recycled().is_none()` (entry.rs l.3175) -/
def isRecycled (classes : Option (List Nat)) : Bool :=
  match classes with
  | some cls => cls.contains C.Recycled
  | none => false

/-- `mask_tombstone().is_none()` (entry.rs l.3191) -/
def isTombstone (classes : Option (List Nat)) : Bool :=
  match classes with
  | some cls => cls.contains C.Tombstone
  | none => false

/-- The effect of `apply_modlist` on the class attribute (entry.rs `apply_modlist`):
an emptied value set removes the attribute. -/
def applyClassMods (classes : Option (List Nat)) : List Mod → Option (List Nat)
  | [] => classes
  | m :: rest =>
    let next : Option (List Nat) :=
      match m with
      | .present a v =>
        if a == A.Class then
          (match classes with
           | some cs => some (if cs.contains v then cs else cs ++ [v])
           | none => some [v])
        else classes
      | .removed a v =>
        if a == A.Class then
          (match classes with
           | some cs => let cs' := cs.filter (· != v); if cs'.isEmpty then none else some cs'
           | none => none)
        else classes
      | .purged a => if a == A.Class then none else classes
      | .set a vs => if a == A.Class then (if vs.isEmpty then none else some vs) else classes
      | .assert _ _ => classes
    applyClassMods next rest

/-- `modify_pre_apply` (server/modify.rs l.29–127). `candidates` is what
`impersonate_search_valid` returned (C23's subject). -/
def modifyOp (id : Ident) (acps : List AcpModify) (agreements : List (Nat × List Nat))
    (candidates : List Ent) (ml : List Mod) : OpResult :=
  if ml.isEmpty then .emptyRequest
  else if candidates.isEmpty then
    (if id.isInternal then .nothingToDo else .noMatchingEntries)
  else if !modifyAllowOperation id acps agreements candidates ml then .accessDenied
  else if candidates.any (fun e => maskedTs e.classes != maskedTs (applyClassMods e.classes ml))
  then .accessDenied
  else .proceed

/-- `delete` (server/delete.rs l.9–50): access is checked before the emptiness of the
candidate set. -/
def deleteOp (id : Ident) (acps : List AcpDelete) (candidates : List Ent) : OpResult :=
  if !deleteAllowOperation id acps candidates then .accessDenied
  else if candidates.isEmpty then .noMatchingEntries
  else if candidates.any (fun e => isTombstone e.classes) then .accessDenied
  else .proceed

/-- `create` (server/create.rs l.10–45): the request entries are checked as given. -/
def createOp (id : Ident) (acps : List AcpCreate) (entries : List NewEnt) : OpResult :=
  if entries.isEmpty then .emptyRequest
  else if !createAllowOperation id acps entries then .accessDenied
  else if entries.any (fun e => maskedTs e.classes) then .accessDenied
  else .proceed

/-- the fixed modlist of `revive_recycled` (recycle.rs l.134) -/
def reviveModlist : List Mod := [.removed A.Class C.Recycled]

/-- `revive_recycled` (server/recycle.rs l.100–162). -/
def reviveOp (id : Ident) (acps : List AcpModify) (agreements : List (Nat × List Nat))
    (candidates : List Ent) : OpResult :=
  if candidates.isEmpty then
    (if id.isInternal then .nothingToDo else .noMatchingEntries)
  else if !modifyAllowOperation id acps agreements candidates reviveModlist then .accessDenied
  else if candidates.all (fun e => !isRecycled e.classes) then .accessDenied
  else .proceed

end Kanidm.Access.Write
