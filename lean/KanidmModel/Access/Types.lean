import KanidmModel.Filter.Optimise
/-
Shared access-control data types (C23 search, C24 modify/create/delete).

Transcribes the data of
  * `/repo/server/lib/src/server/identity.rs`  — `InternalRole`, `AccessScope`, `IdentType`, `Identity`
    and the accessors the access code uses (`get_uuid`, `get_memberof`, `access_scope`)
  * `/repo/server/lib/src/server/access/profiles.rs` — `AccessControlReceiver`, `AccessControlTarget`,
    `AccessControlProfile`, `AccessControlReceiverCondition`, `AccessControlTargetCondition`
  * `/repo/server/lib/src/server/access/mod.rs` l.168 — `resolve_access_conditions`

Atoms: attributes are naturals (`Attr.*` for the attributes the access code names, the harness
numbers every other attribute from `Attr.firstFree` upwards); values are `Filter.Val`
(`.num` = uuid / reference as a 128-bit number, `.str` = bytes of the normalised string).
An entry is its uuid (`entry.valid.uuid`, what `get_uuid()` returns) plus the attribute map of the
shared filter model (`Filter.Entry`, `[]` = attribute absent).

Import-free apart from the shared filter model (core Lean only).
-/
namespace Kanidm.Access
open Kanidm.Filter

/-! ### Attribute atoms -/
namespace Attr
@[reducible] def Class : Nat := 0
@[reducible] def Uuid : Nat := 1
@[reducible] def Name : Nat := 2
@[reducible] def DisplayName : Nat := 3
@[reducible] def MemberOf : Nat := 4
@[reducible] def DirectMemberOf : Nat := 5
@[reducible] def EntryManagedBy : Nat := 6
@[reducible] def OAuth2RsScopeMap : Nat := 7
@[reducible] def OAuth2RsOriginLanding : Nat := 8
@[reducible] def Image : Nat := 9
@[reducible] def LinkedGroup : Nat := 10
@[reducible] def SyncParentUuid : Nat := 11
@[reducible] def SyncCredentialPortal : Nat := 12
@[reducible] def Member : Nat := 13
@[reducible] def Description : Nat := 14
@[reducible] def Spn : Nat := 15
/-- first atom the harness may hand out for attributes not named above -/
@[reducible] def firstFree : Nat := 64

/-- kanidm's attribute name (`Attribute::as_str`) ↦ atom; the drivers publish this table to the
harness (`atoms` request), which numbers its attributes with it. -/
def names : List (String × Nat) :=
  [("class", Class), ("uuid", Uuid), ("name", Name), ("displayname", DisplayName),
   ("memberof", MemberOf), ("directmemberof", DirectMemberOf),
   ("entry_managed_by", EntryManagedBy), ("oauth2_rs_scope_map", OAuth2RsScopeMap),
   ("oauth2_rs_origin_landing", OAuth2RsOriginLanding), ("image", Image),
   ("linked_group", LinkedGroup), ("sync_parent_uuid", SyncParentUuid),
   ("sync_credential_portal", SyncCredentialPortal), ("member", Member),
   ("description", Description), ("spn", Spn)]
end Attr

/-- `AttrConsts` of the shared filter model for this numbering. -/
def consts : AttrConsts := ⟨Attr.Uuid, Attr.Name⟩

/-! ### Entries -/

/-- A committed entry: `valid.uuid` and the attribute map. -/
structure DbEntry where
  uuid : Val
  attrs : Entry

/-- `entry.get_ava_as_iutf8(Attribute::Class)` as a list (`[]` when absent). -/
def DbEntry.classes (e : DbEntry) : List Val := e.attrs Attr.Class

/-! ### Identity (identity.rs) -/

/-- `InternalRole` (identity.rs l.70). -/
inductive InternalRole where
  | system | migration | accountRequest | messageQueue
  deriving DecidableEq, Repr, Inhabited

/-- `InternalRole::get_uuid` (l.97): UUID_SYSTEM, UUID_INTERNAL_MIGRATION,
UUID_INTERNAL_ACCOUNT_REQUEST, UUID_INTERNAL_MESSAGE_QUEUE (constants/uuids.rs). -/
def InternalRole.uuid : InternalRole → Val
  | .system => .num 0xffffff000000
  | .migration => .num 0xffffff000082
  | .accountRequest => .num 0xffffff000084
  | .messageQueue => .num 0xffffff000085

/-- `AccessScope` (l.24). -/
inductive Scope where
  | readOnly | readWrite | synchronise
  deriving DecidableEq, Repr, Inhabited

/-- `IdentType` (l.110): `User` carries the account's own committed entry. -/
inductive Origin where
  | user (e : DbEntry)
  | synch (u : Val)
  | internal (r : InternalRole)

/-- `Identity` (l.146), the fields access decisions read. -/
structure Identity where
  origin : Origin
  scope : Scope

/-- `Identity::get_uuid` (l.318). -/
def Identity.uuid (id : Identity) : Val :=
  match id.origin with
  | .internal r => r.uuid
  | .user e => e.uuid
  | .synch u => u

/-- `Identity::get_memberof` (l.372): `None` for Internal / Synch, else
`entry.get_ava_refer(Attribute::MemberOf)` (`None` when the attribute is absent). -/
def Identity.memberOf (id : Identity) : Option (List Val) :=
  match id.origin with
  | .internal _ | .synch _ => none
  | .user e => if (e.attrs Attr.MemberOf).isEmpty then none else some (e.attrs Attr.MemberOf)

/-- `Identity::is_internal`. -/
def Identity.isInternal (id : Identity) : Bool :=
  match id.origin with
  | .internal _ => true
  | _ => false

/-! ### Access control profiles (profiles.rs) -/

/-- `AccessControlReceiver` (profiles.rs l.402). -/
inductive Receiver where
  | none
  | group (gs : List Val)
  | entryManager

/-- `AccessControlTarget` (profiles.rs l.421). -/
inductive Target where
  | none
  | scope (f : FC)

/-- `AccessControlProfile` (l.431) without name / uuid (not read by any decision). -/
structure Profile where
  receiver : Receiver
  target : Target

/-- `AccessControlReceiverCondition` (l.409). -/
inductive ReceiverCond where
  | groupChecked
  | entryManager
  deriving DecidableEq, Repr

/-- `imo.intersection(groups).next().is_some()` -/
def intersects (a b : List Val) : Bool := a.any (fun x => b.contains x)

/-- `resolve_access_conditions` (access/mod.rs l.168): receiver pre-check against the identity's
`memberof`, target filter resolved for the identity (`Filter::resolve(ident, None, cache)` =
`resolve_no_idx` followed by `fast_optimise`, which C02 proves meaning-preserving and which is
therefore left out). `AccessControlTargetCondition::Scope` is represented by its resolved filter. -/
def resolveAccessConditions (id : Identity) (p : Profile) : Option (ReceiverCond × F) :=
  let rc : Option ReceiverCond :=
    match p.receiver with
    | .group gs =>
      let groupCheck := ((id.memberOf).map (fun imo => intersects imo gs)).getD false
      if groupCheck then some .groupChecked else none
    | .entryManager => some .entryManager
    | .none => none
  match rc with
  | none => none
  | some rc =>
    match p.target with
    | .scope f => (FC.resolveNoIdx consts id.uuid f).map (fun t => (rc, t))
    | .none => none

/-- The entry-manager test shared by search / modify / delete (`search.rs` l.176–197):
`entry.get_ava_refer(EntryManagedBy)?`, then group or user check. -/
def entryManagerCheck (id : Identity) (e : DbEntry) : Bool :=
  let ems := e.attrs Attr.EntryManagedBy
  if ems.isEmpty then false
  else
    let groupCheck := ((id.memberOf).map (fun imo => intersects imo ems)).getD false
    let userCheck := ems.contains id.uuid
    groupCheck || userCheck

/-- Receiver condition evaluated on one entry. -/
def ReceiverCond.holds (rc : ReceiverCond) (id : Identity) (e : DbEntry) : Bool :=
  match rc with
  | .groupChecked => true
  | .entryManager => entryManagerCheck id e

/-- `a.is_disjoint(b)` on attribute sets. -/
def disjoint (a b : List Nat) : Bool := a.all (fun x => !b.contains x)

/-- `a.is_subset(b)` on attribute sets. -/
def subset (a b : List Nat) : Bool := a.all (fun x => b.contains x)

/-- `a & b` on attribute sets. -/
def inter (a b : List Nat) : List Nat := a.filter (fun x => b.contains x)

end Kanidm.Access
