import KanidmModel.Access.Search
/-
C23 (extension) — the *effective access* report of a search, transcribed.

  * `access/mod.rs` `entry_effective_permission_check` (l.937), search part (l.947–954):
      `match apply_search_access(ident, search_related_acp, entry)
         { Deny => Access::Deny, Grant => Access::Grant, Allow(s) => Access::Allow(s) }`
      ↦ `entryEffectiveSearch`
  * `access/mod.rs` `search_filter_entry_attributes` (l.380) with `se.effective_access_check = true`:
      every released (reduced) entry carries the report computed with the *same* related-ACP set
      (`search_related_acp(&se.ident, se.attrs.as_ref())`, i.e. trimmed by the requested attributes)
      ↦ `searchFilterEntryAttributesEff`
  * `server/mod.rs` `search_ext` ↦ `searchExtEff`
-/
namespace Kanidm.Access
open Kanidm.Filter
open Kanidm.Gen

/-- Search part of `entry_effective_permission_check` (access/mod.rs l.947). -/
def entryEffectiveSearch (id : Identity) (related : List SearchResolved) (e : DbEntry) : SearchResult :=
  match applySearchAccess id related e with
  | .deny => .deny
  | .grant => .grant
  | .allow allowed => .allow allowed

/-- `search_filter_entry_attributes` with `effective_access_check = true`: each released entry is
paired with its effective search access. `none` = `Err(InvalidState)`. -/
def searchFilterEntryAttributesEff (id : Identity) (acps : List SearchAcp) (reqAttrs : Option (List Nat))
    (entries : List DbEntry) : Option (List (DbEntry × SearchResult)) :=
  match id.origin with
  | .internal _ => none
  | .synch _ => none
  | .user _ =>
    let related := searchRelatedAcp id acps reqAttrs
    some (entries.filterMap (fun e =>
      match applySearchAccess id related e with
      | .deny => none
      | .grant => none
      | .allow allowed =>
        some (reduceAttributes e (AccessSearch.reduceAttrs reqAttrs allowed),
              entryEffectiveSearch id related e)))

/-- `search_ext` for an event with `effective_access_check = true`. -/
def searchExtEff (db : List DbEntry) (acps : List SearchAcp) (id : Identity) (filter filterOrig : FC)
    (reqAttrs : Option (List Nat)) : Option (List (DbEntry × SearchResult)) :=
  match search db acps id filter filterOrig with
  | none => none
  | some entries => searchFilterEntryAttributesEff id acps reqAttrs entries

end Kanidm.Access
