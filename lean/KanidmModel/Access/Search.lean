import KanidmModel.Access.Types
import KanidmModel.Generated.AccessSearchTables
/-
C23 — the search access path, transcribed.

  * `access/search.rs`
      `search_filter_entry` (l.84)               ↦ `searchFilterEntry`
      `search_oauth2_filter_entry` (l.223)       ↦ `searchOauth2FilterEntry`
      `search_applications_filter_entry` (l.271) ↦ `searchApplicationsFilterEntry`
      `search_sync_account_filter_entry` (l.317) ↦ `searchSyncAccountFilterEntry`
      `apply_search_access` (l.17)               ↦ `applySearchAccess`
  * `access/mod.rs`
      `search_related_acp` (l.223)               ↦ `searchRelatedAcp`
      `filter_entries` (l.310)                   ↦ `filterEntries`
      `search_filter_entry_attributes` (l.380)   ↦ `searchFilterEntryAttributes`
  * `access/profiles.rs` `AccessControlSearch::try_from` (l.26): memberof ⇒ directmemberof ↦ `SearchAcp.ofRaw`
  * `server/mod.rs` `search` (l.355), `search_ext` (l.334), `exists` (l.410)
      ↦ `search`, `searchExt`, `exists`
  * `filter.rs` `get_attr_set` (l.847) ↦ `FC.attrSet`; `new_ignore_hidden` / `new_recycled` are
    generated (`Gen.AccessSearch.ignoreHidden` / `recycledOnly`)
  * `entry.rs` `reduce_attributes` (l.1938) ↦ `reduceAttributes`

The backend (`be.search(lims, &vfr)`, `be.exists`) is represented by its specification: the
entries of the database matching the resolved filter (C01/C02 are the properties about that);
resource limits are not modelled (the harness runs with limits that are not hit, or treats a
`ResourceLimit` error as "nothing disclosed").

Tables (released attribute sets, class names, migration class lists, the anonymous uuid, the
decisions of `filter_entries`, the reduction, the related-acp trim, the hidden/recycled wrappers)
come from `KanidmModel/Generated/AccessSearchTables.lean`.
-/
namespace Kanidm.Access
open Kanidm.Filter
open Kanidm.Gen

/-- `AccessControlSearch` (profiles.rs l.20). -/
structure SearchAcp where
  acp : Profile
  attrs : List Nat

/-- `AccessControlSearch::try_from` (profiles.rs l.37–50): "Ability to search memberof, implies the
ability to read directmemberof". `raw` = the values of `acp_search_attr`. -/
def SearchAcp.ofRaw (p : Profile) (raw : List Nat) : SearchAcp :=
  ⟨p, if raw.contains Attr.MemberOf then Attr.DirectMemberOf :: raw else raw⟩

/-- `AccessControlSearchResolved` (profiles.rs l.13). -/
structure SearchResolved where
  attrs : List Nat
  rc : ReceiverCond
  target : F

/-- `AccessSrchResult` (access/mod.rs l.104). -/
inductive SrchResult where
  | deny
  | grant
  | ignore
  | allow (attrs : List Nat)

/-- `SearchResult` (search.rs l.11). -/
inductive SearchResult where
  | deny
  | grant
  | allow (attrs : List Nat)

/-- `search_related_acp` (access/mod.rs l.223). -/
def searchRelatedAcp (id : Identity) (acps : List SearchAcp) (req : Option (List Nat)) :
    List SearchResolved :=
  let related := acps.filterMap (fun acs =>
    (resolveAccessConditions id acs.acp).map (fun ct => (⟨acs.attrs, ct.1, ct.2⟩ : SearchResolved)))
  match req with
  | some r => related.filter (fun acs => AccessSearch.relatedKeeps acs.attrs r)
  | none => related

/-- Migration arm of `search_filter_entry`:
`classes.sub(&MIGRATION_IGNORE_CLASSES).is_subset(&MIGRATION_ENTRY_CLASSES)`, `false` without class. -/
def validMigrationClass (e : DbEntry) : Bool :=
  let cs := e.classes
  if cs.isEmpty then false
  else (cs.filter (fun c => !AccessSearch.migrationIgnoreClasses.contains c)).all
        (fun c => AccessSearch.migrationEntryClasses.contains c)

/-- The closure of `search_filter_entry` (l.166–214): `Some(attrs)` iff receiver and target hold. -/
def acpRelease (id : Identity) (e : DbEntry) (acs : SearchResolved) : Option (List Nat) :=
  if !(acs.rc.holds id e) then none
  else if !(acs.target.matches ValSem.std e.attrs) then none
  else some acs.attrs

/-- `search_filter_entry` (search.rs l.84). -/
def searchFilterEntry (id : Identity) (related : List SearchResolved) (e : DbEntry) : SrchResult :=
  match id.origin with
  | .internal .system => .grant
  | .internal .accountRequest =>
    if e.classes.contains AccessSearch.accountRequestClass then .grant else .deny
  | .internal .migration => if validMigrationClass e then .grant else .deny
  | .internal .messageQueue => .deny
  | .synch _ => .deny
  | .user _ =>
    match id.scope with
    | .synchronise => .deny
    | .readOnly | .readWrite =>
      .allow ((related.filterMap (acpRelease id e)).flatten)

/-- `search_oauth2_filter_entry` (search.rs l.223). -/
def searchOauth2FilterEntry (id : Identity) (e : DbEntry) : SrchResult :=
  match id.origin with
  | .internal _ | .synch _ => .ignore
  | .user ue =>
    if AccessSearch.oauth2ExcludesAnonymous && ue.uuid == AccessSearch.uuidAnonymous then .ignore
    else
      let containsO2Rs := e.classes.contains AccessSearch.oauth2Class0
      let containsO2ScopeMember :=
        match id.memberOf with
        | some mo => (e.attrs Attr.OAuth2RsScopeMap).any (fun k => mo.contains k)
        | none => false
      if containsO2Rs && containsO2ScopeMember then .allow AccessSearch.oauth2Released else .ignore

/-- `search_applications_filter_entry` (search.rs l.271). `get_ava_single_refer` = exactly one value. -/
def searchApplicationsFilterEntry (id : Identity) (e : DbEntry) : SrchResult :=
  match id.origin with
  | .internal _ | .synch _ => .ignore
  | .user ue =>
    if AccessSearch.applicationExcludesAnonymous && ue.uuid == AccessSearch.uuidAnonymous then .ignore
    else
      let containsApplication := e.classes.contains AccessSearch.applicationClass0
      let containsLinkedGroup :=
        match e.attrs Attr.LinkedGroup with
        | [g] => ((id.memberOf).map (fun mo => mo.contains g)).getD false
        | _ => false
      if containsApplication && containsLinkedGroup then .allow AccessSearch.applicationReleased
      else .ignore

/-- `search_sync_account_filter_entry` (search.rs l.317). -/
def searchSyncAccountFilterEntry (id : Identity) (e : DbEntry) : SrchResult :=
  match id.origin with
  | .internal _ | .synch _ => .ignore
  | .user ue =>
    if AccessSearch.syncAccountExcludesAnonymous && ue.uuid == AccessSearch.uuidAnonymous then .ignore
    else
      let isUserSyncAccount :=
        ue.classes.contains AccessSearch.syncAccountClass0 && ue.classes.contains AccessSearch.syncAccountClass1
      if isUserSyncAccount then
        let isTargetSyncAccount := e.classes.contains AccessSearch.syncAccountClass2
        if isTargetSyncAccount then
          let syncSourceMatch :=
            match ue.attrs Attr.SyncParentUuid with
            | [p] => p == e.uuid
            | _ => false
          if syncSourceMatch then .allow AccessSearch.syncAccountReleased else .ignore
        else .ignore
      else .ignore

/-- The accumulator of `apply_search_access`: `(denied, grant, allow)`. -/
structure Acc where
  denied : Bool
  grant : Bool
  allow : List Nat

/-- One `match module(..) { Deny => denied = true, Grant => grant = true, Ignore => {}, Allow{attr} => allow.append(attr) }`. -/
def Acc.step (a : Acc) : SrchResult → Acc
  | .deny => { a with denied := true }
  | .grant => { a with grant := true }
  | .ignore => a
  | .allow attrs => { a with allow := a.allow ++ attrs }

/-- The final decision of `apply_search_access` (`constrain` is always empty). -/
def Acc.finish (a : Acc) : SearchResult :=
  if a.denied then .deny else if a.grant then .grant else .allow a.allow

/-- The four modules, in call order. -/
def moduleResults (id : Identity) (related : List SearchResolved) (e : DbEntry) : List SrchResult :=
  [searchFilterEntry id related e, searchOauth2FilterEntry id e,
   searchApplicationsFilterEntry id e, searchSyncAccountFilterEntry id e]

/-- `apply_search_access` (search.rs l.17). -/
def applySearchAccess (id : Identity) (related : List SearchResolved) (e : DbEntry) : SearchResult :=
  ((moduleResults id related e).foldl Acc.step ⟨false, false, []⟩).finish

mutual
/-- `FilterComp::get_attr_set` (filter.rs l.847). -/
def FC.attrSet : FC → List Nat
  | .eq a _ | .cnt a _ | .stw a _ | .enw a _ | .pres a | .lessThan a _ | .invalid a => [a]
  | .or l | .and l | .inclusion l => FC.attrSetList l
  | .andnot f => FC.attrSet f
  | .selfUuid => [AccessSearch.selfUuidAttr]
def FC.attrSetList : List FC → List Nat
  | [] => []
  | f :: fs => FC.attrSet f ++ FC.attrSetList fs
end

/-- `filter_entries` (access/mod.rs l.310). -/
def filterEntries (id : Identity) (acps : List SearchAcp) (filterOrig : FC) (entries : List DbEntry) :
    List DbEntry :=
  let requested := FC.attrSet filterOrig
  if requested.isEmpty then []
  else
    let related := searchRelatedAcp id acps none
    entries.filter (fun e =>
      match applySearchAccess id related e with
      | .deny => AccessSearch.filterEntriesDeny
      | .grant => AccessSearch.filterEntriesGrant
      | .allow allowed => AccessSearch.filterEntriesAllow requested allowed)

/-- `Entry::reduce_attributes` (entry.rs l.1938): keep exactly the allowed attributes. -/
def reduceAttributes (e : DbEntry) (allowed : List Nat) : DbEntry :=
  ⟨e.uuid, fun a => if allowed.contains a then e.attrs a else []⟩

/-- `search_filter_entry_attributes` (access/mod.rs l.380); `none` = `Err(InvalidState)`. -/
def searchFilterEntryAttributes (id : Identity) (acps : List SearchAcp) (reqAttrs : Option (List Nat))
    (entries : List DbEntry) : Option (List DbEntry) :=
  match id.origin with
  | .internal _ => none
  | .synch _ => none
  | .user _ =>
    let related := searchRelatedAcp id acps reqAttrs
    some (entries.filterMap (fun e =>
      match applySearchAccess id related e with
      | .deny => none
      | .grant => none
      | .allow allowed => some (reduceAttributes e (AccessSearch.reduceAttrs reqAttrs allowed))))

/-- The resolved form of an event's filter (`Filter::resolve`; slopes / optimisation do not change
what matches, C02). Resolution never fails (`SelfUuid` resolves for every identity). -/
def resolveFilter (id : Identity) (f : FC) : Option F := FC.resolveNoIdx consts id.uuid f

/-- Specification of `be.search(lims, &vfr)`: the stored entries matching the resolved filter. -/
def backendSearch (db : List DbEntry) (vfr : F) : List DbEntry :=
  db.filter (fun e => vfr.matches ValSem.std e.attrs)

/-- `QueryServerTransaction::search` (server/mod.rs l.355); `none` = resolve error. -/
def search (db : List DbEntry) (acps : List SearchAcp) (id : Identity) (filter filterOrig : FC) :
    Option (List DbEntry) :=
  match resolveFilter id filter with
  | none => none
  | some vfr => some (filterEntries id acps filterOrig (backendSearch db vfr))

/-- `QueryServerTransaction::search_ext` (server/mod.rs l.334). -/
def searchExt (db : List DbEntry) (acps : List SearchAcp) (id : Identity) (filter filterOrig : FC)
    (reqAttrs : Option (List Nat)) : Option (List DbEntry) :=
  match search db acps id filter filterOrig with
  | none => none
  | some entries => searchFilterEntryAttributes id acps reqAttrs entries

/-- `QueryServerTransaction::exists` (server/mod.rs l.410): internal identities take the backend's
answer (`be.exists`), everyone else is access-filtered. -/
def exists_ (db : List DbEntry) (acps : List SearchAcp) (id : Identity) (filter filterOrig : FC) :
    Option Bool :=
  match resolveFilter id filter with
  | none => none
  | some vfr =>
    if id.isInternal then some (!(backendSearch db vfr).isEmpty)
    else some (!(filterEntries id acps filterOrig (backendSearch db vfr)).isEmpty)

end Kanidm.Access
