import KanidmModel.Access.Write
import KanidmModel.Generated.DefaultAccess
/-
C25 — default roles cannot act on high-privilege accounts.

The access decision is C24's model (`KanidmModel/Access/Write.lean`, unchanged) instantiated at the
*default data* of a freshly migrated server: `Kanidm.Gen.Default.*` is dumped on every check run
from a server booted on the current tree (`kanidmd_lib::testkit::setup_test`): every enabled
modify / create / delete access control profile entry, every group entry with its `member`
values, `entry_managed_by`, the builtin accounts, and `UUID_IDM_HIGH_PRIVILEGE`.

What is added here is only what the property needs on top of C24:

  * `memberofClosure` — the value of `memberof` the memberof plugin (plugins/memberof.rs) maintains:
    every group reachable upwards through `member` edges from the direct memberships;
  * `hpGroups`       — the groups whose own closure contains `idm_high_privilege`;
  * `hpEval`         — a three-valued reading of a target filter on "some entry that is a member of
    idm_high_privilege and is not the caller" (`FILTER_HP` ↦ true, `SelfUuid` ↦ false, every other
    leaf unknown, Kleene connectives). `some false` = the profile can never apply to such an entry;
  * the decisions of the four write operations at the default profiles (what the driver runs).
-/
namespace Kanidm.Access.Default
open Kanidm.Filter
open Kanidm.Access.Write
open Kanidm.Gen.Access
open Kanidm.Gen

/-! ### group nesting (what `memberof` contains) -/

/-- the groups that directly contain `x` (`member` edge) -/
def parentsOf (gs : List (Nat × List Nat)) (x : Nat) : List Nat :=
  (gs.filter (fun g => g.2.contains x)).map (·.1)

/-- append the elements of the second list that are not there yet (a set insert, in order) -/
def addNew (acc : List Nat) : List Nat → List Nat
  | [] => acc
  | p :: ps => addNew (if acc.contains p then acc else acc ++ [p]) ps

/-- one round of the upward closure: add the parents of every element -/
def closeStep (gs : List (Nat × List Nat)) (s : List Nat) : List Nat :=
  addNew s (s.flatMap (parentsOf gs))

/-- rounds until nothing is added (or the fuel runs out) -/
def closeN (gs : List (Nat × List Nat)) : Nat → List Nat → List Nat
  | 0, s => s
  | n + 1, s =>
    let s' := closeStep gs s
    if s'.length == s.length then s else closeN gs n s'

/-- `memberof` of an entry whose direct memberships are `direct`: everything reachable upwards
(every round but the last adds a group, so `gs.length` rounds are enough when the direct
memberships are groups of the table). -/
def memberofClosure (gs : List (Nat × List Nat)) (direct : List Nat) : List Nat :=
  closeN gs gs.length direct

/-- The groups of the table that are (transitively, or literally) `hp`: a member of such a group
has `hp` in its `memberof`. -/
def hpGroupsOf (gs : List (Nat × List Nat)) (hp : Nat) : List Nat :=
  (gs.map (·.1)).filter (fun g => g == hp || (memberofClosure gs [g]).contains hp)

/-- the default high-privilege closure -/
def hpGroups : List Nat := hpGroupsOf Default.groups Default.uuidHighPrivilege

/-- the default groups outside the high-privilege closure (dynamic groups included) -/
def nonHpGroups : List Nat := (Default.groups.map (·.1)).filter (fun g => !hpGroups.contains g)

/-! ### target filters read on a high-privilege entry -/

def kleeneNot : Option Bool → Option Bool
  | some b => some (!b)
  | none => none

def kleeneAnd : Option Bool → Option Bool → Option Bool
  | some false, _ => some false
  | _, some false => some false
  | some true, some true => some true
  | _, _ => none

def kleeneOr : Option Bool → Option Bool → Option Bool
  | some true, _ => some true
  | _, some true => some true
  | some false, some false => some false
  | _, _ => none

mutual
/-- The value of a target filter on *every* entry whose `memberof` contains `hp` and that is not
the caller's own entry — `none` when it depends on the entry. -/
def hpEval (hp : Nat) : FC → Option Bool
  | .eq a v => if a == A.MemberOf && v == Val.num hp then some true else none
  | .cnt _ _ => none
  | .stw _ _ => none
  | .enw _ _ => none
  | .pres a => if a == A.MemberOf then some true else none
  | .lessThan _ _ => none
  | .or l => hpEvalAny hp l
  | .and l => hpEvalAll hp l
  | .inclusion _ => some false
  | .andnot f => kleeneNot (hpEval hp f)
  | .selfUuid => some false
  | .invalid _ => some false
def hpEvalAny (hp : Nat) : List FC → Option Bool
  | [] => some false
  | f :: fs => kleeneOr (hpEval hp f) (hpEvalAny hp fs)
def hpEvalAll (hp : Nat) : List FC → Option Bool
  | [] => some true
  | f :: fs => kleeneAnd (hpEval hp f) (hpEvalAll hp fs)
end

/-- The profile's target can never match a high-privilege entry other than the caller
(no target at all = the profile never resolves). -/
def targetExcludesHP (p : Profile) : Bool :=
  match p.target with
  | none => true
  | some f => hpEval Default.uuidHighPrivilege f == some false

/-- Every receiver group of the profile is in the high-privilege closure (a user outside the
closure never receives it); `none` receivers never resolve. -/
def receiverOnlyHP (p : Profile) : Bool :=
  match p.receiver with
  | .none => true
  | .group gs => gs.all (fun g => hpGroups.contains g)
  | .entryManager => false

def isEntryManager (p : Profile) : Bool :=
  match p.receiver with
  | .entryManager => true
  | _ => false

/-! ### the attributes the property speaks about

Written by hand from the property statement ("credentials, sessions or account details of an
account … membership of a group"): every credential-, session-, validity-, naming- and
membership-bearing attribute of accounts and groups, `class` and `entry_managed_by` included. -/
def sensitiveAttrs : List Nat :=
  [ -- credentials
    A.PrimaryCredential, A.PassKeys, A.AttestedPasskeys, A.UnixPassword, A.RadiusSecret,
    A.SshPublicKey, A.ApplicationPassword, A.CredentialUpdateIntentToken, A.PasswordImport,
    A.UnixPasswordImport, A.TotpImport, A.IdVerificationEcKey,
    A.OAuth2AccountCredentialUuid, A.OAuth2AccountProvider, A.OAuth2AccountUniqueUserId,
    A.OAuth2AccountUniqueUserSub,
    -- sessions
    A.UserAuthTokenSession, A.OAuth2Session, A.ApiTokenSession,
    -- validity
    A.AccountExpire, A.AccountValidFrom, A.AccountSoftlockExpire,
    -- naming / account details
    A.Name, A.Spn, A.DisplayName, A.LegalName, A.Mail, A.Description, A.GidNumber, A.LoginShell,
    A.Uuid, A.Class, A.EntryManagedBy,
    -- membership
    A.Member, A.DynMember, A.MemberOf, A.DirectMemberOf, A.DynGroupFilter ]

/-- The profile grants none of the sensitive attributes. -/
def modifyGrantsNothingSensitive (p : AcpModify) : Bool :=
  disjoint p.presAttrs sensitiveAttrs && disjoint p.remAttrs sensitiveAttrs

/-- A modify profile is harmless for high-privilege entries in the hands of a user outside the
high-privilege closure: it is only handed to high-privilege groups, or it is an entry-manager
profile (the statement's premise: nothing high-privilege is delegated to such a user), or its
target excludes high-privilege entries, or it grants nothing sensitive. -/
def safeModify (p : AcpModify) : Bool :=
  receiverOnlyHP p.acp || isEntryManager p.acp || targetExcludesHP p.acp
    || modifyGrantsNothingSensitive p

/-- Create and delete act on the whole entry: only the first three escapes. -/
def safeProfile (p : Profile) : Bool :=
  receiverOnlyHP p || isEntryManager p || targetExcludesHP p

/-! ### the write decisions at the default profiles (run by `km_c25`) -/

/-- `modify_allow_operation` on a server with the default profiles -/
def modifyDecision (id : Ident) (ag : List (Nat × List Nat)) (es : List Ent) (ml : List Mod) : Bool :=
  modifyAllowOperation id Default.modifyAcps ag es ml

/-- `QueryServerWriteTransaction::modify` up to the access decision -/
def modifyOperation (id : Ident) (ag : List (Nat × List Nat)) (cands : List Ent) (ml : List Mod) :
    OpResult :=
  modifyOp id Default.modifyAcps ag cands ml

def createDecision (id : Ident) (es : List NewEnt) : Bool :=
  createAllowOperation id Default.createAcps es

def createOperation (id : Ident) (es : List NewEnt) : OpResult :=
  createOp id Default.createAcps es

def deleteDecision (id : Ident) (es : List Ent) : Bool :=
  deleteAllowOperation id Default.deleteAcps es

def deleteOperation (id : Ident) (cands : List Ent) : OpResult :=
  deleteOp id Default.deleteAcps cands

/-- An acting account with direct memberships `direct` (its `memberof` is what the plugin
computes from the default nesting), holding a read-write session. -/
def actor (uuid : Nat) (direct : List Nat) : Ident :=
  ⟨.user uuid (if direct.isEmpty then none else some (memberofClosure Default.groups direct)),
    .readWrite⟩

end Kanidm.Access.Default
