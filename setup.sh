#!/bin/sh
# Build the framework offline from files on disk: Lean models/proofs/drivers of every claimed
# property, then the harness binaries (they link the real crates under /repo by path, hooks on).
cd "$(dirname "$0")"
export CARGO_NET_OFFLINE=true RUSTUP_TOOLCHAIN=1.96.0
exec python3 - <<'PY'
import json, glob, subprocess, sys
mods, drivers, bins = set(), set(), set()
for f in sorted(glob.glob('props/C*.json')):
    c = json.load(open(f))
    if not c.get('claimed', True):
        continue
    mods.update(c.get('lean', {}).get('proof_modules', []))
    if c.get('lean', {}).get('driver'):
        drivers.add(c['lean']['driver'])
    for h in c.get('harness', []):
        bins.add((h['crate'], h['bin']))
rc = subprocess.call(['lake', 'build'] + sorted(mods) + sorted(drivers), cwd='lean')
if rc != 0:
    # the checks of the modules that failed report it themselves; the rest is built
    print('setup: lake build reported errors (the affected checks will report them)')
rc = subprocess.call(['cargo', 'build', '-q', '-p', 'vtranslate'], cwd='harness')
if rc != 0:
    print('setup: vtranslate build failed'); sys.exit(rc)
crates = {}
for cr, b in sorted(bins):
    crates.setdefault(cr, []).append(b)
failed = []
for cr, bs in crates.items():
    cmd = ['cargo', 'build', '-q', '-p', cr]
    for b in bs:
        cmd += ['--bin', b]
    rc = subprocess.call(cmd, cwd='harness')
    if rc != 0:
        # one broken binary must not keep the others from being built: retry one by one
        for b in bs:
            if subprocess.call(['cargo', 'build', '-q', '-p', cr, '--bin', b], cwd='harness') != 0:
                failed.append(f'{cr}/{b}')
if failed:
    # every check rebuilds what it needs and reports its own build failure; setup itself only warms the build
    print('setup: harness binaries that did not build (their checks will report it):', ', '.join(failed))
print('setup-done')
PY
