#!/bin/sh
# Build the framework offline from files on disk: Lean models/proofs/drivers, then the
# harness workspace (links the real crates under /repo by path, hooks on).
set -e
cd "$(dirname "$0")"
export CARGO_NET_OFFLINE=true RUSTUP_TOOLCHAIN=1.96.0
(cd lean && lake build)
(cd harness && cargo build --workspace 2>&1 | tail -3)
echo setup-done
