//! Harness crate for the RADIUS module (C46).
//!
//! `rlm_kanidm` (rlm_kanidm/module) is a cdylib+rlib whose `logic` module is compiled only under
//! `cfg(test)` or with feature `extern-freeradius-module` (which pulls in the FreeRADIUS C headers,
//! a C shim and bindgen) — it cannot be linked into a harness.  We therefore compile the *very
//! source files* `module/src/logic.rs` and `module/src/error.rs` into this crate, unchanged, by
//! `#[path]`, against the real `kanidm_client`, `kanidm_proto` and `rlm_kanidm_shared` crates.
//! `logic.rs` refers to `crate::error::ModuleError`, hence both live at the crate root.
//! `module/src/glue.rs` (config file → `Module`, 60 s response cache in front of `authorise`) is
//! included the same way, so the harness enters at the functions the C FFI calls.
//! Nothing under /repo is modified.  Untied: `ffi.rs` (C FFI that copies `cleartext_password`
//! into the FreeRADIUS control list; needs the FreeRADIUS headers).
pub use hcommon::*;

#[allow(dead_code, unexpected_cfgs)]
#[path = "/repo/rlm_kanidm/module/src/error.rs"]
mod error;
#[allow(dead_code, unexpected_cfgs)]
#[path = "/repo/rlm_kanidm/module/src/logic.rs"]
mod logic;
#[allow(dead_code, unexpected_cfgs)]
#[path = "/repo/rlm_kanidm/module/src/glue.rs"]
mod glue;

pub mod real {
    //! Thin public face over the crate-private items of `logic.rs`.
    use super::logic::{AuthRequest, Module};
    use rlm_kanidm_shared::config::KanidmRadiusConfig;
    use std::collections::BTreeMap;
    use std::marker::PhantomData;

    /// What `Module::authorise` returned, field by field (no interpretation).
    #[derive(Debug, Clone, PartialEq, Eq)]
    pub enum Outcome {
        Accept {
            user_name: String,
            message: String,
            tunnel_type: String,
            tunnel_medium_type: String,
            tunnel_private_group_id: String,
            reply_attributes: BTreeMap<String, String>,
            cleartext_password: Option<String>,
        },
        /// `AuthError` variant name (Debug).
        Err(String),
    }

    pub struct Real(Module);

    /// `glue::ModuleHandle`: what `mod_instantiate` (ffi.rs) stores per FreeRADIUS instance.
    pub struct Handle(super::glue::ModuleHandle);

    /// `glue::rlm_kanidm_instantiate`: reads and parses the TOML config file
    /// (`KanidmRadiusConfig::try_from`, rlm_kanidm/shared/src/config.rs), builds the `Module`.
    /// Must be called outside any tokio runtime (the handle owns one).
    pub fn instantiate(config_path: &std::path::Path) -> Result<Handle, String> {
        super::glue::rlm_kanidm_instantiate(config_path).map(Handle).map_err(|e| format!("{e:?}"))
    }

    /// `glue::rlm_kanidm_authorise` — the function `mod_authorise` (ffi.rs) calls.
    pub fn authorise_via_glue(
        h: &Handle,
        tls_san_dn_cn: Option<String>,
        tls_cn: Option<String>,
        user_name: Option<String>,
    ) -> Outcome {
        let req = AuthRequest {
            tls_san_dn_cn,
            tls_cn,
            user_name,
            attrs: BTreeMap::new(),
            phantom: PhantomData,
        };
        convert(super::glue::rlm_kanidm_authorise(req, &h.0))
    }

    fn convert(r: Result<super::logic::AuthResponse, super::logic::AuthError>) -> Outcome {
        match r {
            Ok(r) => Outcome::Accept {
                user_name: r.reply.user_name,
                message: r.reply.message,
                tunnel_type: r.reply.tunnel_type.to_string(),
                tunnel_medium_type: r.reply.tunnel_medium_type.to_string(),
                tunnel_private_group_id: r.reply.tunnel_private_group_id,
                reply_attributes: r.reply.reply_attributes,
                cleartext_password: r.control.cleartext_password,
            },
            Err(e) => Outcome::Err(format!("{e:?}")),
        }
    }

    pub async fn from_config(cfg: KanidmRadiusConfig) -> Result<Real, String> {
        Module::from_config(cfg).await.map(Real).map_err(|e| format!("{e:?}"))
    }

    pub async fn authorise(
        m: &Real,
        tls_san_dn_cn: Option<String>,
        tls_cn: Option<String>,
        user_name: Option<String>,
    ) -> Outcome {
        let req = AuthRequest {
            tls_san_dn_cn,
            tls_cn,
            user_name,
            attrs: BTreeMap::new(),
            phantom: PhantomData,
        };
        convert(m.0.authorise(req).await)
    }
}
