//! C46 — correspondence + oracle for the RADIUS module's `Module::authorise`
//! (rlm_kanidm/module/src/logic.rs), driven end to end from the functions the C FFI calls:
//! real `rlm_kanidm_instantiate` (TOML file -> `KanidmRadiusConfig::try_from` ->
//! `Module::from_config`), real `rlm_kanidm_authorise` (glue.rs, response cache), real
//! `kanidm_client` HTTP lookup against an in-process mock of
//! `GET /v1/account/{id}/_radius/_token`, real `user_in_required_groups` /
//! `resolve_group_configs`, observed at `AuthResponse` / `AuthError`.
//!
//! Per case: a random configuration (required list, default VLAN, VLAN/attribute mappings),
//! a random directory (users with group lists, missing users, error statuses, undecodable and
//! dropped replies) and a few requests (three identity sources).  Every request is evaluated by
//! the implementation, by the Lean model (`km_c46`) and by an oracle written from the property
//! text only.
use hradius::real::{self, Outcome};
use hradius::*;
use kanidm_proto::internal::{Group, RadiusAuthToken};
use serde_json::{json, Value};
use std::collections::{BTreeMap, HashMap};
use std::sync::{Arc, RwLock};
use tokio::io::{AsyncReadExt, AsyncWriteExt};
use tokio::net::TcpListener;

// ---------------------------------------------------------------------------------------------
// atoms <-> strings (injective; the model only ever compares atoms for equality)

/// Group-name atoms: six spellings per base name, so that exact-match semantics is exercised
/// against case variants, short names, trailing blanks and uuid-looking strings.
fn gname(n: u64) -> String {
    let b = n / 6;
    match n % 6 {
        0 => format!("group{b}@example.com"),
        1 => format!("Group{b}@EXAMPLE.com"),
        2 => format!("group{b}"),
        3 => format!("00000000-0000-4000-8000-{b:012x}"),
        4 => format!("00000000-0000-4000-8000-{b:012X}0"),
        _ => format!("group{b}@example.com "),
    }
}
/// User ids are fresh per directory (`epoch`): glue.rs caches responses per user id for 60 s.
fn uid(n: u64, epoch: u64) -> String {
    format!("u{n}e{epoch}")
}
fn uname(n: u64) -> String {
    format!("user{n}")
}
fn uuuid(n: u64) -> String {
    format!("uu-{n}")
}
fn usecret(n: u64) -> String {
    format!("secret-{n}")
}
fn akey(n: u64) -> String {
    format!("Attr-{n:03}")
}
fn aval(n: u64) -> String {
    format!("val{n}")
}
fn strip_num(s: &str, prefix: &str) -> Option<u64> {
    s.strip_prefix(prefix)?.parse().ok()
}

// ---------------------------------------------------------------------------------------------
// case description

#[derive(Clone, Debug, PartialEq)]
struct GCfg {
    spn: u64,
    vlan: u64,
    attrs: BTreeMap<u64, u64>,
}

#[derive(Clone, Debug, PartialEq)]
enum Entry {
    /// name, uuid, secret, groups (spn, uuid)
    Ok(u64, u64, u64, Vec<(u64, u64)>),
    Status(u64),
    /// 200 with a body that is not a RadiusAuthToken, or the connection dropped
    Broken(bool),
}

#[derive(Clone, Debug, PartialEq)]
struct Case {
    required: Vec<u64>,
    default_vlan: u64,
    groups: Vec<GCfg>,
    dir: Vec<(u64, Entry)>,
    reqs: Vec<[Option<u64>; 3]>,
}

fn show_list(v: &[String], sep: &str) -> String {
    if v.is_empty() {
        "-".into()
    } else {
        v.join(sep)
    }
}
fn show_opt(o: Option<u64>) -> String {
    o.map(|x| x.to_string()).unwrap_or_else(|| "-".into())
}

impl Case {
    fn line(&self, r: &[Option<u64>; 3]) -> String {
        let req = show_list(&self.required.iter().map(|x| x.to_string()).collect::<Vec<_>>(), ",");
        let gcs = show_list(
            &self
                .groups
                .iter()
                .map(|g| {
                    let a = show_list(&g.attrs.iter().map(|(k, v)| format!("{k}={v}")).collect::<Vec<_>>(), "+");
                    format!("{}:{}:{}", g.spn, g.vlan, a)
                })
                .collect::<Vec<_>>(),
            ",",
        );
        let dir = show_list(
            &self
                .dir
                .iter()
                .map(|(id, e)| match e {
                    Entry::Ok(n, u, s, gs) => {
                        let g = show_list(&gs.iter().map(|(a, b)| format!("{a}/{b}")).collect::<Vec<_>>(), "+");
                        format!("{id}=ok:{n}:{u}:{s}:{g}")
                    }
                    Entry::Status(c) => format!("{id}=st:{c}"),
                    Entry::Broken(_) => format!("{id}=br"),
                })
                .collect::<Vec<_>>(),
            ";",
        );
        format!(
            "auth {req} {} {gcs} {dir} {} {} {}",
            self.default_vlan,
            show_opt(r[0]),
            show_opt(r[1]),
            show_opt(r[2])
        )
    }
    fn to_json(&self) -> Value {
        json!({
            "required": self.required,
            "default_vlan": self.default_vlan,
            "groups": self.groups.iter().map(|g| json!({"spn": g.spn, "vlan": g.vlan,
                "attrs": g.attrs.iter().map(|(k, v)| json!([k, v])).collect::<Vec<_>>()})).collect::<Vec<_>>(),
            "dir": self.dir.iter().map(|(id, e)| match e {
                Entry::Ok(n, u, s, gs) => json!({"id": id, "ok": [n, u, s], "groups": gs.iter().map(|(a, b)| json!([a, b])).collect::<Vec<_>>()}),
                Entry::Status(c) => json!({"id": id, "status": c}),
                Entry::Broken(d) => json!({"id": id, "broken": d}),
            }).collect::<Vec<_>>(),
            "reqs": self.reqs.iter().map(|r| json!([r[0], r[1], r[2]])).collect::<Vec<_>>(),
        })
    }
    fn from_json(v: &Value) -> Case {
        let u = |x: &Value| x.as_u64().unwrap();
        Case {
            required: v["required"].as_array().unwrap().iter().map(u).collect(),
            default_vlan: u(&v["default_vlan"]),
            groups: v["groups"]
                .as_array()
                .unwrap()
                .iter()
                .map(|g| GCfg {
                    spn: u(&g["spn"]),
                    vlan: u(&g["vlan"]),
                    attrs: g["attrs"].as_array().unwrap().iter().map(|kv| (u(&kv[0]), u(&kv[1]))).collect(),
                })
                .collect(),
            dir: v["dir"]
                .as_array()
                .unwrap()
                .iter()
                .map(|e| {
                    let id = u(&e["id"]);
                    let ent = if let Some(ok) = e.get("ok") {
                        Entry::Ok(
                            u(&ok[0]),
                            u(&ok[1]),
                            u(&ok[2]),
                            e["groups"].as_array().unwrap().iter().map(|g| (u(&g[0]), u(&g[1]))).collect(),
                        )
                    } else if let Some(c) = e.get("status") {
                        Entry::Status(u(c))
                    } else {
                        Entry::Broken(e["broken"].as_bool().unwrap_or(false))
                    };
                    (id, ent)
                })
                .collect(),
            reqs: v["reqs"]
                .as_array()
                .unwrap()
                .iter()
                .map(|r| [r[0].as_u64(), r[1].as_u64(), r[2].as_u64()])
                .collect(),
        }
    }
    /// What the directory answers for `id` (first entry wins; unknown ids are 404).
    fn lookup(&self, id: u64) -> Entry {
        self.dir.iter().find(|(i, _)| *i == id).map(|(_, e)| e.clone()).unwrap_or(Entry::Status(404))
    }
}

// ---------------------------------------------------------------------------------------------
// mock of the kanidm server's radius-token endpoint

#[derive(Clone)]
enum MockReply {
    Json(u16, String),
    Drop,
}

type Dir = Arc<RwLock<HashMap<String, MockReply>>>;

async fn serve(listener: TcpListener, dir: Dir, version: String) {
    loop {
        let (mut sock, _) = match listener.accept().await {
            Ok(x) => x,
            Err(_) => continue,
        };
        let dir = dir.clone();
        let version = version.clone();
        tokio::spawn(async move {
            let mut buf: Vec<u8> = Vec::new();
            let mut tmp = [0u8; 4096];
            loop {
                // read one request head (GET, no body)
                let head_end = loop {
                    if let Some(p) = buf.windows(4).position(|w| w == b"\r\n\r\n") {
                        break Some(p + 4);
                    }
                    match sock.read(&mut tmp).await {
                        Ok(0) | Err(_) => break None,
                        Ok(n) => buf.extend_from_slice(&tmp[..n]),
                    }
                };
                let Some(end) = head_end else { return };
                let head = String::from_utf8_lossy(&buf[..end]).to_string();
                buf.drain(..end);
                let path = head.split_whitespace().nth(1).unwrap_or("").to_string();
                let id = path
                    .strip_prefix("/v1/account/")
                    .and_then(|s| s.strip_suffix("/_radius/_token"))
                    .unwrap_or("")
                    .to_string();
                let reply = dir
                    .read()
                    .unwrap()
                    .get(&id)
                    .cloned()
                    .unwrap_or(MockReply::Json(404, "\"nomatchingentries\"".into()));
                match reply {
                    MockReply::Drop => return,
                    MockReply::Json(code, body) => {
                        let reason = match code {
                            200 => "OK",
                            404 => "Not Found",
                            _ => "Status",
                        };
                        let msg = format!(
                            "HTTP/1.1 {code} {reason}\r\ncontent-type: application/json\r\nx-kanidm-version: {version}\r\ncontent-length: {}\r\n\r\n{body}",
                            body.len()
                        );
                        if sock.write_all(msg.as_bytes()).await.is_err() {
                            return;
                        }
                    }
                }
            }
        });
    }
}

// ---------------------------------------------------------------------------------------------
// the implementation side

struct Ctx {
    /// keeps the mock directory server alive
    _rt: tokio::runtime::Runtime,
    dir: Dir,
    uri: String,
    drv: Driver,
    rep: Report,
    /// the real `Module` of the last configuration (building one costs ~40 ms: TLS roots)
    module: Option<((Vec<u64>, u64, Vec<GCfg>), real::Handle)>,
    modules_built: u64,
    epoch: u64,
    cfg_path: std::path::PathBuf,
}

/// The configuration as the TOML file FreeRADIUS' module instance is pointed at.
fn toml_cfg(c: &Case, uri: &str) -> String {
    let q = |s: &str| format!("{s:?}"); // ASCII only: Rust's escaping is valid TOML basic-string escaping
    let req = c.required.iter().map(|a| q(&gname(*a))).collect::<Vec<_>>().join(", ");
    let groups = c
        .groups
        .iter()
        .map(|g| {
            let attrs = g.attrs.iter().map(|(k, v)| format!("{} = {}", q(&akey(*k)), q(&aval(*v)))).collect::<Vec<_>>().join(", ");
            format!("{{ spn = {}, vlan = {}, reply_attributes = {{ {attrs} }} }}", q(&gname(g.spn)), g.vlan)
        })
        .collect::<Vec<_>>()
        .join(", ");
    format!(
        "uri = {}\nauth_token = \"verif-token\"\nradius_default_vlan = {}\nradius_required_groups = [{req}]\nradius_groups = [{groups}]\n",
        q(uri),
        c.default_vlan
    )
}

fn install_dir(c: &Case, dir: &Dir, epoch: u64) {
    let mut m = HashMap::new();
    // first entry for an id wins
    for (id, e) in c.dir.iter().rev() {
        let r = match e {
            Entry::Ok(n, u, s, gs) => {
                let tok = RadiusAuthToken {
                    name: uname(*n),
                    displayname: format!("Display {n}"),
                    uuid: uuuid(*u),
                    secret: usecret(*s),
                    groups: gs.iter().map(|(a, b)| Group { spn: gname(*a), uuid: gname(*b) }).collect(),
                };
                MockReply::Json(200, serde_json::to_string(&tok).unwrap())
            }
            Entry::Status(c) => MockReply::Json(*c as u16, "\"status\"".into()),
            Entry::Broken(false) => MockReply::Json(200, "{\"name\":\"x\",\"groups\":7}".into()),
            Entry::Broken(true) => MockReply::Drop,
        };
        m.insert(uid(*id, epoch), r);
    }
    *dir.write().unwrap() = m;
}

fn canon(o: &Outcome) -> String {
    match o {
        Outcome::Err(e) => format!("err {e}"),
        Outcome::Accept {
            user_name,
            message,
            tunnel_private_group_id,
            reply_attributes,
            cleartext_password,
            ..
        } => {
            let name = strip_num(user_name, "user").map(|x| x.to_string()).unwrap_or(format!("?{user_name}"));
            let uu = strip_num(message, "Kanidm-Uuid: uu-").map(|x| x.to_string()).unwrap_or(format!("?{message}"));
            let sec = match cleartext_password {
                Some(s) => strip_num(s, "secret-").map(|x| x.to_string()).unwrap_or(format!("?{s}")),
                None => "nosecret".into(),
            };
            let attrs = show_list(
                &reply_attributes
                    .iter()
                    .map(|(k, v)| {
                        format!(
                            "{}={}",
                            strip_num(k, "Attr-").map(|x| x.to_string()).unwrap_or(format!("?{k}")),
                            strip_num(v, "val").map(|x| x.to_string()).unwrap_or(format!("?{v}"))
                        )
                    })
                    .collect::<Vec<_>>(),
                ",",
            );
            format!("accept {name} {uu} {sec} {tunnel_private_group_id} {attrs}")
        }
    }
}

/// The property statement evaluated on the implementation's outcome, from the text only:
/// (1) a secret is released only if it is the secret of a user named in the request whose
///     current record exists and who belongs, by uuid or spn (exact string), to a required group;
/// (2) on release the VLAN is that of the last of the user's groups with a VLAN mapping, else
///     the default.  (With several mappings for one spn the text does not say which applies:
///     any of them satisfies the oracle; the model pins it down.)
fn oracle(c: &Case, r: &[Option<u64>; 3], o: &Outcome) -> Result<(), String> {
    let Outcome::Accept { cleartext_password, tunnel_private_group_id, .. } = o else {
        return Ok(());
    };
    let secret = cleartext_password.clone().ok_or("accept without secret")?;
    // users named in the request whose record exists and carries this secret
    let mut candidates = vec![];
    for id in r.iter().flatten() {
        if let Entry::Ok(_, _, s, gs) = c.lookup(*id) {
            if usecret(s) == secret {
                candidates.push(gs);
            }
        }
    }
    if candidates.is_empty() {
        return Err(format!("secret {secret} released but no user named in the request has a record with that secret"));
    }
    let required: Vec<String> = c.required.iter().map(|a| gname(*a)).collect();
    let mut vlan_err = String::new();
    for gs in &candidates {
        let member = gs.iter().any(|(spn, uuid)| required.contains(&gname(*uuid)) || required.contains(&gname(*spn)));
        if !member {
            continue;
        }
        // VLAN
        let mut allowed: Vec<String> = vec![];
        for (spn, _) in gs.iter().rev() {
            let maps: Vec<String> =
                c.groups.iter().filter(|g| gname(g.spn) == gname(*spn)).map(|g| g.vlan.to_string()).collect();
            if !maps.is_empty() {
                allowed = maps;
                break;
            }
        }
        if allowed.is_empty() {
            allowed.push(c.default_vlan.to_string());
        }
        if allowed.contains(tunnel_private_group_id) {
            return Ok(());
        }
        vlan_err = format!("vlan {tunnel_private_group_id} released, property allows {allowed:?}");
    }
    if vlan_err.is_empty() {
        Err(format!("secret {secret} released to a user who is in no required group"))
    } else {
        Err(vlan_err)
    }
}

fn classify(msg: &str) -> String {
    if msg.contains("in no required group") || msg.contains("no user named") {
        "C46:secret-released-to-non-member".into()
    } else if msg.contains("vlan") {
        "C46:wrong-vlan".into()
    } else {
        "unclassified".into()
    }
}

impl Ctx {
    fn run_case(&mut self, c: &Case, tag: &str) {
        self.epoch += 1;
        let ep = self.epoch;
        install_dir(c, &self.dir, ep);
        let key = (c.required.clone(), c.default_vlan, c.groups.clone());
        if self.module.as_ref().map(|(k, _)| *k != key).unwrap_or(true) {
            std::fs::write(&self.cfg_path, toml_cfg(c, &self.uri)).expect("write config");
            let m = real::instantiate(&self.cfg_path).expect("rlm_kanidm_instantiate");
            self.module = Some((key, m));
            self.modules_built += 1;
        }
        let m = &self.module.as_ref().unwrap().1;
        let outcomes: Vec<Outcome> = c
            .reqs
            .iter()
            .map(|r| {
                real::authorise_via_glue(m, r[0].map(|i| uid(i, ep)), r[1].map(|i| uid(i, ep)), r[2].map(|i| uid(i, ep)))
            })
            .collect();
        let lines: Vec<String> = c.reqs.iter().map(|r| c.line(r)).collect();
        let models = self.drv.ask_batch(&lines);
        for (((r, o), line), model) in c.reqs.iter().zip(outcomes.iter()).zip(lines.iter()).zip(models.iter()) {
            let got = canon(o);
            let kind = got.split(' ').take(if got.starts_with("err") { 2 } else { 1 }).collect::<Vec<_>>().join(":");
            self.rep.count(&format!("outcome:{kind}"));
            self.rep.count(&format!("stream:{tag}"));
            // which identity source decided, and what the directory said
            let first = r.iter().flatten().next().cloned();
            let ent = first.map(|id| c.lookup(id));
            let nontrivial = match &ent {
                Some(Entry::Ok(_, _, _, gs)) => {
                    self.rep.count(&format!("user-groups:{}", gs.len().min(6)));
                    self.rep.count(&format!("required:{}", c.required.len().min(6)));
                    if let Outcome::Accept { tunnel_private_group_id, .. } = o {
                        let mapped = gs.iter().filter(|(s, _)| c.groups.iter().any(|g| g.spn == *s)).count();
                        self.rep.count(&format!("accept-mapped-groups:{}", mapped.min(4)));
                        if *tunnel_private_group_id == c.default_vlan.to_string() && mapped == 0 {
                            self.rep.count("accept-default-vlan");
                        }
                    }
                    !gs.is_empty() && !c.required.is_empty()
                }
                Some(Entry::Status(s)) => {
                    self.rep.count(&format!("dir-status:{s}"));
                    false
                }
                Some(Entry::Broken(d)) => {
                    self.rep.count(if *d { "dir-dropped" } else { "dir-undecodable" });
                    false
                }
                None => {
                    self.rep.count("no-identity");
                    false
                }
            };
            self.rep.case(if nontrivial { Some(line.clone()) } else { None });
            if self.rep.evaluations % 997 == 1 {
                self.rep.sample(json!({"request": line, "impl": got, "model": model, "impl_raw": format!("{o:?}")}));
            }
            let input = json!({"case": Case { reqs: vec![*r], ..c.clone() }.to_json(), "request": line});
            if let Err(msg) = oracle(c, r, o) {
                self.rep.fail(Failure {
                    kind: "impl-vs-oracle".into(),
                    class: classify(&msg),
                    input: input.clone(),
                    expected: msg,
                    observed: got.clone(),
                });
            }
            if *model != got {
                self.rep.fail(Failure {
                    kind: "impl-vs-model".into(),
                    class: "unclassified".into(),
                    input,
                    expected: model.clone(),
                    observed: got,
                });
            }
        }
    }
}

// ---------------------------------------------------------------------------------------------
// generators

fn gen_cases(r: &mut Rng, profile: u64) -> Vec<Case> {
    // a small universe of base names so that matches are frequent
    let bases = r.range(2, 5);
    let spn_atom = |r: &mut Rng| -> u64 {
        let b = r.below(bases);
        let variant = if r.chance(4, 5) { 0 } else { *r.pick(&[1u64, 2, 5, 3]) };
        b * 6 + variant
    };
    let uuid_atom = |r: &mut Rng| -> u64 {
        let b = r.below(bases);
        let variant = if r.chance(5, 6) { 3 } else { *r.pick(&[4u64, 0, 2]) };
        b * 6 + variant
    };
    let any_atom = |r: &mut Rng| -> u64 { r.below(bases * 6) };
    // required list: empty sometimes, spns, uuids, mixtures, duplicates
    let nreq = match profile % 5 {
        0 => 0,
        _ => r.range(0, 4),
    };
    let mut required = vec![];
    for _ in 0..nreq {
        let a = match r.below(4) {
            0 => uuid_atom(r),
            1 => any_atom(r),
            _ => spn_atom(r),
        };
        required.push(a);
        if r.chance(1, 8) {
            required.push(a);
        }
    }
    let default_vlan = *r.pick(&[0u64, 1, 1, 7, 4094, 4294967295]);
    let ngc = r.range(0, 4);
    let mut groups = vec![];
    for _ in 0..ngc {
        let spn = if r.chance(1, 8) { uuid_atom(r) } else { spn_atom(r) };
        let mut attrs = BTreeMap::new();
        for _ in 0..r.below(3) {
            attrs.insert(r.below(5), r.below(9));
        }
        // VLAN sometimes equal to the default (then only the attributes tell the paths apart)
        let vlan = if r.chance(1, 8) { default_vlan } else { r.range(2, 40) };
        groups.push(GCfg { spn, vlan, attrs: attrs.clone() });
        if r.chance(1, 6) {
            // duplicate mapping for the same spn with another vlan
            groups.push(GCfg { spn, vlan: r.range(41, 60), attrs });
        }
    }
    let mut out = vec![];
    let ndirs = r.range(3, 6);
    for _ in 0..ndirs {
    let nusers = r.range(1, 4);
    let mut dir = vec![];
    for i in 0..nusers {
        let id = i + 1;
        let e = match r.below(12) {
            0 => Entry::Status(*r.pick(&[404u64, 404, 403, 401, 500, 400, 201, 503])),
            1 => Entry::Broken(r.chance(1, 2)),
            _ => {
                let ng = match r.below(8) {
                    0 => 0,
                    1 => 1,
                    _ => r.range(1, 5),
                };
                let mut gs = vec![];
                for _ in 0..ng {
                    let g = (spn_atom(r), uuid_atom(r));
                    gs.push(g);
                    if r.chance(1, 10) {
                        gs.push(g);
                    }
                }
                Entry::Ok(id, id + 10, id + 100, gs)
            }
        };
        dir.push((id, e));
    }
    // boundary: make membership hinge on exactly one element
    if !required.is_empty() && r.chance(1, 3) {
        if let Some((_, Entry::Ok(_, _, _, gs))) = dir.iter_mut().find(|(_, e)| matches!(e, Entry::Ok(..))) {
            let pick = *r.pick(&required);
            match r.below(4) {
                0 => gs.push((pick, uuid_atom(r))),          // member by spn, last
                1 => gs.insert(0, (spn_atom(r), pick)),      // member by uuid, first
                2 => gs.retain(|(s, u)| !required.contains(s) && !required.contains(u)), // not a member
                _ => gs.push((pick ^ 1, pick ^ 1)),          // near miss (other spelling)
            }
        }
    }
    let nreqs = r.range(2, 4);
    let mut reqs = vec![];
    for _ in 0..nreqs {
        let pick_id = |r: &mut Rng| -> u64 { if r.chance(1, 8) { nusers + 1 + r.below(2) } else { r.range(1, nusers) } };
        let q = match r.below(10) {
            0 => [None, None, None],
            1 => [Some(pick_id(r)), Some(pick_id(r)), Some(pick_id(r))],
            2 => [None, Some(pick_id(r)), Some(pick_id(r))],
            3 => [Some(pick_id(r)), None, Some(pick_id(r))],
            _ => [None, None, Some(pick_id(r))],
        };
        reqs.push(q);
    }
    out.push(Case { required: required.clone(), default_vlan, groups: groups.clone(), dir, reqs });
    }
    out
}

/// Exhaustive small scope: one user with a group list over two groups, every subset of a
/// four-name required universe, every mapping table over those two spns.
fn exhaustive(ctx: &mut Ctx, thorough: bool) -> u64 {
    // groups A = (spn 0, uuid 3), B = (spn 6, uuid 9); required universe {0, 3, 6, 1} (1 = case variant of A)
    let ga = (0u64, 3u64);
    let gb = (6u64, 9u64);
    let lists: Vec<Vec<(u64, u64)>> = vec![
        vec![],
        vec![ga],
        vec![gb],
        vec![ga, gb],
        vec![gb, ga],
        vec![ga, ga],
        vec![ga, gb, ga],
    ];
    let universe = [0u64, 3, 6, 1];
    let maps: Vec<Vec<GCfg>> = {
        let e = BTreeMap::new();
        let a = |v: u64| GCfg { spn: 0, vlan: v, attrs: BTreeMap::from([(1, v)]) };
        let b = |v: u64| GCfg { spn: 6, vlan: v, attrs: e.clone() };
        let mut m = vec![vec![], vec![a(10)], vec![b(20)], vec![a(10), b(20)], vec![b(20), a(10)], vec![a(10), a(11)]];
        if thorough {
            m.push(vec![GCfg { spn: 3, vlan: 30, attrs: e.clone() }]); // keyed by A's uuid: must not apply
            m.push(vec![a(10), b(20), a(12)]);
        }
        m
    };
    let mut n = 0;
    for mask in 0..(1u32 << universe.len()) {
        let required: Vec<u64> = universe.iter().enumerate().filter(|(i, _)| mask >> i & 1 == 1).map(|(_, a)| *a).collect();
        for m in &maps {
            for gl in &lists {
                let c = Case {
                    required: required.clone(),
                    default_vlan: 1,
                    groups: m.clone(),
                    dir: vec![(1, Entry::Ok(1, 11, 101, gl.clone()))],
                    reqs: vec![[None, None, Some(1)]],
                };
                ctx.run_case(&c, "exhaustive");
                n += 1;
            }
        }
    }
    n
}

fn main() {
    // the mock speaks the client's own version; belt and braces for the debug-build version check
    std::env::set_var("KANIDM_DEV_YOLO", "1");
    let args = Args::parse();
    let rt = tokio::runtime::Builder::new_multi_thread().worker_threads(2).enable_all().build().unwrap();
    let dir: Dir = Arc::new(RwLock::new(HashMap::new()));
    let listener = rt.block_on(async { TcpListener::bind("127.0.0.1:0").await.unwrap() });
    let port = listener.local_addr().unwrap().port();
    rt.spawn(serve(listener, dir.clone(), "verif".into()));
    let mut ctx = Ctx {
        _rt: rt,
        dir,
        uri: format!("http://127.0.0.1:{port}"),
        drv: Driver::spawn(&args.driver),
        module: None,
        modules_built: 0,
        epoch: 0,
        cfg_path: {
            let d = std::env::temp_dir().join(format!("verif-c46-{}", std::process::id()));
            std::fs::create_dir_all(&d).unwrap();
            d.join("radius.toml")
        },
        rep: Report::new(
            "radius-authorise",
            "each evaluation = one rlm_kanidm_authorise call (module instantiated from a TOML config file, real HTTP lookup against the mock directory); \
             non-trivial = the deciding identity resolves to an existing token with >= 1 group and the required list is non-empty \
             (so the membership test and the VLAN fold really run); distinct = distinct request line (config + directory + request)",
        ),
    };
    if let Some(path) = &args.replay {
        let v: Value = serde_json::from_str(&std::fs::read_to_string(path).unwrap()).unwrap();
        let c = Case::from_json(&v["input"]["case"]);
        ctx.run_case(&c, "replay");
        ctx.rep.write(&args.out);
        let _ = std::fs::remove_dir_all(ctx.cfg_path.parent().unwrap());
        println!("c46 replay: {} cases, {} failures", ctx.rep.evaluations, ctx.rep.failures.len());
        return;
    }
    let n = exhaustive(&mut ctx, args.thorough());
    ctx.rep.exhaustive = true;
    ctx.rep.note(format!(
        "exhaustive: 7 group lists over two groups x 16 required subsets of {{A.spn, A.uuid, B.spn, case-variant of A.spn}} x {} mapping tables = {n} configurations",
        if args.thorough() { 8 } else { 6 }
    ));
    let ncases = args.cases(400, 6_000);
    for i in 0..ncases {
        let mut r = Rng::for_case(args.seed, i);
        for c in gen_cases(&mut r, i) {
            ctx.run_case(&c, "random");
        }
    }
    ctx.rep.model_requests = ctx.drv.requests;
    ctx.rep.note(format!("{} real module instances built (rlm_kanidm_instantiate from a TOML file), each serving several directories", ctx.modules_built));
    ctx.rep.write(&args.out);
    let _ = std::fs::remove_dir_all(ctx.cfg_path.parent().unwrap());
    println!("c46: {} cases, {} failures", ctx.rep.evaluations, ctx.rep.failures.len());
}
