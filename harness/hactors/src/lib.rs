//! Harness crate group for `kanidm_actors` (C47). Re-exports the shared helpers.
pub use hcommon::*;
