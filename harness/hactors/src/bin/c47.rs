//! C47 — stopping a supervisor stops everything under it (`libs/actors/src/lib.rs`).
//!
//! Drives the real `kanidm_actors` runtime: random supervisor trees (primary + up to three levels
//! of subordinates) of instrumented actors (blocking, finishing early, running long steps), stopped
//! at random points through `Supervisor::stop` and `Runtime::exec` termination, with randomised
//! yields in every actor callback and in the conductor.
//!
//! * correspondence: the observed event trace must be the visible projection of a schedule of the
//!   Lean model (`acc` request of `km_c47`); deliberately corrupted traces must be rejected;
//! * oracle (from the property text only): when `stop()` / `exec()` returns, every actor
//!   registered under that supervisor — transitively — has finished its cleanup and its task is
//!   gone, no subordinate still hosts a receiver, nothing under it does anything afterwards; and
//!   the stop does return (bounded wait on a paused clock, real-time watchdog as a last resort).
use hactors::{Args, Driver, Failure, Report, Rng};
use kanidm_actors::{
    Actor, ActorState, Runtime, RuntimeSetup, Signal, SignalHandler, SoftwareSignalSource, Supervisor,
};
use serde_json::{json, Value};
use std::collections::{BTreeMap, HashMap};
use std::future::Future;
use std::sync::atomic::{AtomicBool, AtomicU32, AtomicU64, Ordering};
use std::sync::{Arc, Mutex};
use std::time::Duration;
use tokio::sync::{mpsc, oneshot};
use tokio::task::{yield_now, JoinHandle};

// ---------------------------------------------------------------------------------------------
// scenario

#[derive(Clone, Debug, PartialEq)]
struct Beh {
    setup_y: u32,
    state_y: u32,
    run_y: u32,
    cleanup_y: u32,
    /// messages preloaded into the inbox
    msgs: u32,
    /// return `ActorState::Stop` by itself once this many messages were handled
    quota: Option<u32>,
}

#[derive(Clone, Debug, PartialEq)]
enum Op {
    SpawnSup(usize),
    SpawnActor(usize, Beh),
    Yield(u32),
    /// `Supervisor::stop` from a separate task; `true` = wait for it before the next op
    Stop(usize, bool),
    DropHandle(usize),
    Inject(usize, u32),
    Terminate,
    /// like Terminate, through SIGINT's arm
    Interrupt,
    /// a signal that must not stop anything: 0 Hangup, 1 UserDefined1, 2 UserDefined2, 3 Alarm
    Nudge(u32),
    /// end of `RuntimeSetup::setup`
    EndSetup,
}

fn op_to_string(op: &Op) -> String {
    match op {
        Op::SpawnSup(p) => format!("S{p}"),
        Op::SpawnActor(p, b) => format!(
            "A{p}/{}/{}/{}/{}/{}/{}",
            b.setup_y,
            b.state_y,
            b.run_y,
            b.cleanup_y,
            b.msgs,
            b.quota.map(|q| q.to_string()).unwrap_or_else(|| "-".into())
        ),
        Op::Yield(n) => format!("Y{n}"),
        Op::Stop(s, w) => format!("{}{s}", if *w { "W" } else { "X" }),
        Op::DropHandle(s) => format!("D{s}"),
        Op::Inject(a, n) => format!("I{a}/{n}"),
        Op::Terminate => "T".into(),
        Op::Interrupt => "N".into(),
        Op::Nudge(k) => format!("H{k}"),
        Op::EndSetup => "|".into(),
    }
}

fn op_from_string(s: &str) -> Option<Op> {
    let (k, rest) = s.split_at(1);
    let nums = |r: &str| -> Option<Vec<Option<u32>>> {
        r.split('/').map(|x| if x == "-" { Some(None) } else { x.parse::<u32>().ok().map(Some) }).collect()
    };
    match k {
        "S" => Some(Op::SpawnSup(rest.parse().ok()?)),
        "A" => {
            let v = nums(rest)?;
            if v.len() != 7 {
                return None;
            }
            Some(Op::SpawnActor(
                v[0]? as usize,
                Beh { setup_y: v[1]?, state_y: v[2]?, run_y: v[3]?, cleanup_y: v[4]?, msgs: v[5]?, quota: v[6] },
            ))
        }
        "Y" => Some(Op::Yield(rest.parse().ok()?)),
        "X" => Some(Op::Stop(rest.parse().ok()?, false)),
        "W" => Some(Op::Stop(rest.parse().ok()?, true)),
        "D" => Some(Op::DropHandle(rest.parse().ok()?)),
        "I" => {
            let v = nums(rest)?;
            Some(Op::Inject(v.first().copied()?? as usize, v.get(1).copied()??))
        }
        "T" => Some(Op::Terminate),
        "N" => Some(Op::Interrupt),
        "H" => Some(Op::Nudge(rest.parse().ok()?)),
        "|" => Some(Op::EndSetup),
        _ => None,
    }
}

fn rand_beh(r: &mut Rng) -> Beh {
    // three families: blocks (waits for the stop), finishes early, runs long steps
    let fam = r.below(4);
    let y = |r: &mut Rng, hi: u64| r.below(hi + 1) as u32;
    match fam {
        0 => Beh { setup_y: y(r, 3), state_y: y(r, 2), run_y: 0, cleanup_y: y(r, 6), msgs: 0, quota: None },
        1 => Beh {
            setup_y: y(r, 2),
            state_y: y(r, 3),
            run_y: y(r, 2),
            cleanup_y: y(r, 3),
            msgs: y(r, 2),
            quota: Some(y(r, 2)),
        },
        2 => Beh {
            setup_y: y(r, 6),
            state_y: y(r, 1),
            run_y: 4 + y(r, 30),
            cleanup_y: y(r, 12),
            msgs: 1 + y(r, 3),
            quota: None,
        },
        _ => Beh {
            setup_y: y(r, 4),
            state_y: y(r, 4),
            run_y: y(r, 8),
            cleanup_y: y(r, 8),
            msgs: y(r, 4),
            quota: if r.chance(1, 3) { Some(y(r, 4)) } else { None },
        },
    }
}

/// `late` = also spawn under supervisors that are already being stopped.
fn gen_scenario(r: &mut Rng, late: bool) -> Vec<Op> {
    // node table while generating: (is_sup, parent, depth, stopping, handle)
    struct G {
        sup: bool,
        parent: Option<usize>,
        depth: u32,
        stopping: bool,
        handle: bool,
    }
    let mut nodes = vec![G { sup: true, parent: None, depth: 0, stopping: false, handle: true }];
    let mut ops = vec![];
    let mut in_setup = true;
    let mut terminated = false;
    let n_ops = r.range(6, 26);
    let mut actors = 0;
    let stopping_chain = |nodes: &Vec<G>, mut i: usize| -> bool {
        loop {
            if nodes[i].stopping {
                return true;
            }
            match nodes[i].parent {
                Some(p) => i = p,
                None => return false,
            }
        }
    };
    for step in 0..n_ops {
        if in_setup && (step >= 3 && r.chance(1, 4)) {
            ops.push(Op::EndSetup);
            in_setup = false;
        }
        // candidate supervisors to spawn under
        let cands: Vec<usize> = (0..nodes.len())
            .filter(|&i| {
                nodes[i].sup
                    && nodes[i].handle
                    && !nodes[i].stopping
                    && (i != 0 || in_setup)
                    && (late || (!terminated && !stopping_chain(&nodes, i)))
            })
            .collect();
        let choice = r.below(100);
        if choice < 22 && !cands.is_empty() && nodes.iter().filter(|n| n.sup).count() < 6 {
            let p = *r.pick(&cands);
            if nodes[p].depth < 3 {
                ops.push(Op::SpawnSup(p));
                let d = nodes[p].depth + 1;
                nodes.push(G { sup: true, parent: Some(p), depth: d, stopping: false, handle: true });
                continue;
            }
        }
        if choice < 60 && !cands.is_empty() && actors < 9 {
            let p = *r.pick(&cands);
            ops.push(Op::SpawnActor(p, rand_beh(r)));
            let d = nodes[p].depth + 1;
            nodes.push(G { sup: false, parent: Some(p), depth: d, stopping: false, handle: false });
            actors += 1;
            continue;
        }
        if choice < 75 {
            ops.push(Op::Yield(r.range(1, 12) as u32));
            continue;
        }
        let subs: Vec<usize> =
            (1..nodes.len()).filter(|&i| nodes[i].sup && nodes[i].handle && !nodes[i].stopping).collect();
        if choice < 88 && !subs.is_empty() {
            let s = *r.pick(&subs);
            ops.push(Op::Stop(s, !late && r.chance(1, 3)));
            nodes[s].stopping = true;
            nodes[s].handle = false;
            if late && r.chance(2, 3) {
                // register something below the supervisor that is being stopped, at a random distance
                let below: Vec<usize> = (0..nodes.len())
                    .filter(|&i| i != s && i != 0 && nodes[i].sup && nodes[i].handle && stopping_chain(&nodes, i))
                    .collect();
                if !below.is_empty() {
                    ops.push(Op::Yield(r.below(9) as u32));
                    let p = *r.pick(&below);
                    ops.push(Op::SpawnActor(p, rand_beh(r)));
                    let d = nodes[p].depth + 1;
                    nodes.push(G { sup: false, parent: Some(p), depth: d, stopping: false, handle: false });
                    actors += 1;
                }
            }
            continue;
        }
        if choice < 91 && !subs.is_empty() {
            let s = *r.pick(&subs);
            ops.push(Op::DropHandle(s));
            nodes[s].handle = false;
            continue;
        }
        if choice < 95 && !in_setup && !terminated {
            ops.push(if r.chance(1, 3) { Op::Interrupt } else { Op::Terminate });
            terminated = true;
            nodes[0].stopping = true;
            continue;
        }
        if choice < 97 && !in_setup && !terminated {
            ops.push(Op::Nudge(r.below(4) as u32));
            continue;
        }
        let acts: Vec<usize> = (0..nodes.len()).filter(|&i| !nodes[i].sup).collect();
        if !acts.is_empty() {
            ops.push(Op::Inject(*r.pick(&acts), r.range(1, 3) as u32));
        } else {
            ops.push(Op::Yield(1));
        }
    }
    if in_setup {
        ops.push(Op::EndSetup);
    }
    ops
}

// ---------------------------------------------------------------------------------------------
// instrumentation

#[derive(Clone, Debug, PartialEq)]
enum Evt {
    SpawnSup(Option<usize>),
    SpawnActor(usize),
    Term,
    ExecRet,
    StopReq(usize),
    StopRet(usize),
    DropH(usize),
    SetupDone(usize),
    Ready(usize),
    StepDone(usize),
    SelfStop(usize),
    CleanupBegin(usize),
    CleanupEnd(usize),
    /// the actor value was dropped (its task is gone); bool = cleanup had completed
    Exit(usize, bool),
}

#[derive(Default)]
struct Flags {
    cleaned: AtomicBool,
    dropped: AtomicBool,
    handled: AtomicU32,
}

struct NodeInfo {
    sup: bool,
    parent: Option<usize>,
    flags: Option<Arc<Flags>>,
    /// spawned while an ancestor-or-self supervisor was already asked to stop
    late: bool,
}

#[derive(Debug, Clone)]
struct Finding {
    what: String,
    node: usize,
    sup: usize,
    late: bool,
}

#[derive(Default)]
struct WorldInner {
    log: Vec<Evt>,
    nodes: Vec<NodeInfo>,
    stopping: Vec<usize>,
    findings: Vec<Finding>,
    /// (supervisor, log length at return, actors under it)
    returned: Vec<(usize, usize, Vec<usize>)>,
    alive_at_request: u32,
}

#[derive(Clone, Default)]
struct World(Arc<Mutex<WorldInner>>);

impl World {
    fn log(&self, e: Evt) {
        self.0.lock().unwrap().log.push(e);
    }
    fn under(w: &WorldInner, s: usize, mut i: usize) -> bool {
        loop {
            if i == s {
                return true;
            }
            match w.nodes[i].parent {
                Some(p) => i = p,
                None => return false,
            }
        }
    }
    fn mark_stopping(&self, s: usize) {
        let mut w = self.0.lock().unwrap();
        w.stopping.push(s);
        let alive = (0..w.nodes.len())
            .filter(|&i| !w.nodes[i].sup && Self::under(&w, s, i))
            .filter(|&i| !w.nodes[i].flags.as_ref().unwrap().dropped.load(Ordering::SeqCst))
            .count() as u32;
        w.alive_at_request += alive;
    }
    /// The property, evaluated at the instant `stop()` / `exec()` returned for `s`.
    fn oracle_returned(&self, s: usize, counts: &[(usize, usize)]) {
        let mut w = self.0.lock().unwrap();
        let mut found = vec![];
        let mut actors = vec![];
        for i in 0..w.nodes.len() {
            if i == s || !Self::under(&w, s, i) {
                continue;
            }
            if let Some(f) = &w.nodes[i].flags {
                actors.push(i);
                if !f.cleaned.load(Ordering::SeqCst) {
                    found.push(Finding { what: "actor-cleanup-not-run".into(), node: i, sup: s, late: w.nodes[i].late });
                } else if !f.dropped.load(Ordering::SeqCst) && !MT.load(Ordering::SeqCst) {
                    // (on worker threads the actor value is dropped just after its receiver)
                    found.push(Finding { what: "actor-task-alive".into(), node: i, sup: s, late: w.nodes[i].late });
                }
            }
        }
        for &(q, c) in counts {
            if q != s && Self::under(&w, s, q) && c != 0 {
                // late if the subordinate, or anything it hosts, was registered while a stop was in flight
                let late = w.nodes[q].late || w.nodes.iter().any(|n| n.parent == Some(q) && n.late);
                found.push(Finding { what: format!("subordinate-still-hosts-{c}"), node: q, sup: s, late });
            }
        }
        let at = w.log.len();
        w.returned.push((s, at, actors));
        w.findings.extend(found);
    }
}

struct TActor {
    id: usize,
    world: World,
    flags: Arc<Flags>,
    beh: Beh,
    rx: mpsc::Receiver<()>,
    handled: u32,
}

async fn yields(n: u32) {
    for _ in 0..n {
        yield_now().await;
    }
}

impl Actor for TActor {
    type Message = ();

    fn setup(&mut self) -> impl Future<Output = ()> + Send {
        async {
            yields(self.beh.setup_y).await;
            self.world.log(Evt::SetupDone(self.id));
        }
    }

    fn state(&mut self) -> impl Future<Output = ActorState<()>> + Send {
        async {
            yields(self.beh.state_y).await;
            if let Some(q) = self.beh.quota {
                if self.handled >= q {
                    self.world.log(Evt::SelfStop(self.id));
                    return ActorState::Stop;
                }
            }
            match self.rx.recv().await {
                Some(()) => ActorState::Ready(()),
                None => std::future::pending().await,
            }
        }
    }

    fn run(&mut self, _m: ()) -> impl Future<Output = ()> + Send {
        async {
            self.world.log(Evt::Ready(self.id));
            self.handled += 1;
            self.flags.handled.fetch_add(1, Ordering::SeqCst);
            yields(self.beh.run_y).await;
            self.world.log(Evt::StepDone(self.id));
        }
    }

    fn cleanup(&mut self) -> impl Future<Output = ()> + Send {
        async {
            self.world.log(Evt::CleanupBegin(self.id));
            yields(self.beh.cleanup_y).await;
            self.flags.cleaned.store(true, Ordering::SeqCst);
            self.world.log(Evt::CleanupEnd(self.id));
        }
    }
}

impl Drop for TActor {
    fn drop(&mut self) {
        self.flags.dropped.store(true, Ordering::SeqCst);
        let c = self.flags.cleaned.load(Ordering::SeqCst);
        self.world.log(Evt::Exit(self.id, c));
    }
}

struct Handler {
    world: World,
}

impl SignalHandler for Handler {
    fn terminate(&mut self) -> impl Future<Output = ()> + Send {
        async {
            self.world.mark_stopping(0);
            self.world.log(Evt::Term);
        }
    }
    fn interrupt(&mut self) -> impl Future<Output = ()> + Send {
        async {
            self.world.mark_stopping(0);
            self.world.log(Evt::Term);
        }
    }
}

/// Bounded wait, in scheduler rounds: on the single-threaded runtime one `yield_now` of the waiter
/// lets every runnable task make one step, and the longest legitimate scenario needs a few hundred
/// rounds.  Independent of clocks and of busy tasks, hence deterministic.
const ROUNDS: u32 = 20_000;

async fn wait_until(mut done: impl FnMut() -> bool) -> bool {
    if MT.load(Ordering::SeqCst) {
        // worker threads: rounds mean nothing, wait in real time (legitimate cases take milliseconds)
        for _ in 0..30_000 {
            if done() {
                return true;
            }
            tokio::time::sleep(Duration::from_millis(1)).await;
        }
        return done();
    }
    for _ in 0..ROUNDS {
        if done() {
            return true;
        }
        yield_now().await;
    }
    done()
}

struct Ctx {
    world: World,
    handles: Arc<Mutex<HashMap<usize, Supervisor>>>,
    inboxes: HashMap<usize, mpsc::Sender<()>>,
    stoppers: Vec<(usize, JoinHandle<()>)>,
    signal_tx: mpsc::Sender<Signal>,
    terminated: bool,
    hung: Arc<Mutex<Vec<String>>>,
}

impl Ctx {
    fn register(&mut self, sup: bool, parent: usize, flags: Option<Arc<Flags>>) -> usize {
        let mut w = self.world.0.lock().unwrap();
        let late = w.stopping.iter().any(|&s| World::under(&w, s, parent));
        w.nodes.push(NodeInfo { sup, parent: Some(parent), flags, late });
        w.log.push(if sup { Evt::SpawnSup(Some(parent)) } else { Evt::SpawnActor(parent) });
        w.nodes.len() - 1
    }

    fn take(&self, s: usize) -> Option<Supervisor> {
        self.handles.lock().unwrap().remove(&s)
    }
    fn put(&self, s: usize, h: Supervisor) {
        self.handles.lock().unwrap().insert(s, h);
    }

    async fn exec_op(&mut self, op: &Op, mut primary: Option<&mut Supervisor>) {
        match op {
            Op::SpawnSup(p) => {
                let sup = if *p == 0 {
                    match primary.as_mut() {
                        Some(s) => Some(s.subordinate().await),
                        None => None,
                    }
                } else {
                    match self.take(*p) {
                        Some(mut s) => {
                            let sub = s.subordinate().await;
                            self.put(*p, s);
                            Some(sub)
                        }
                        None => None,
                    }
                };
                if let Some(sup) = sup {
                    let id = self.register(true, *p, None);
                    self.put(id, sup);
                }
            }
            Op::SpawnActor(p, beh) => {
                let available = if *p == 0 { primary.is_some() } else { self.handles.lock().unwrap().contains_key(p) };
                if !available {
                    return;
                }
                let flags = Arc::new(Flags::default());
                let (tx, rx) = mpsc::channel(64);
                for _ in 0..beh.msgs {
                    let _ = tx.try_send(());
                }
                let id_next = self.world.0.lock().unwrap().nodes.len();
                let actor = TActor {
                    id: id_next,
                    world: self.world.clone(),
                    flags: flags.clone(),
                    beh: beh.clone(),
                    rx,
                    handled: 0,
                };
                let spawned = if *p == 0 {
                    primary.as_mut().map(|s| s.spawn(actor)).is_some()
                } else {
                    self.handles.lock().unwrap().get_mut(p).map(|s| s.spawn(actor)).is_some()
                };
                if spawned {
                    let id = self.register(false, *p, Some(flags));
                    assert_eq!(id, id_next);
                    self.inboxes.insert(id, tx);
                }
            }
            Op::Yield(n) => yields(*n).await,
            Op::Stop(s, wait) => {
                if let Some(h) = self.take(*s) {
                    let world = self.world.clone();
                    let handles = self.handles.clone();
                    let s = *s;
                    let jh = tokio::spawn(async move {
                        world.mark_stopping(s);
                        world.log(Evt::StopReq(s));
                        h.stop().await;
                        world.log(Evt::StopRet(s));
                        let counts = counts_of(&handles);
                        world.oracle_returned(s, &counts);
                    });
                    if *wait && !wait_until(|| jh.is_finished()).await {
                        self.hung.lock().unwrap().push(format!("stop({s})"));
                    }
                    self.stoppers.push((s, jh));
                }
            }
            Op::DropHandle(s) => {
                if let Some(h) = self.take(*s) {
                    self.world.log(Evt::DropH(*s));
                    drop(h);
                }
            }
            Op::Inject(a, n) => {
                if let Some(tx) = self.inboxes.get(a) {
                    for _ in 0..*n {
                        let _ = tx.try_send(());
                    }
                }
            }
            Op::Terminate | Op::Interrupt => {
                if !self.terminated {
                    self.terminated = true;
                    let sig = if *op == Op::Terminate { Signal::Terminate } else { Signal::Interrupt };
                    // exec is still in its signal loop (nothing made it leave), so the queue drains
                    let _ = self.signal_tx.send(sig).await;
                }
            }
            Op::Nudge(k) => {
                if !self.terminated {
                    let sig = match k {
                        0 => Signal::Hangup,
                        1 => Signal::UserDefined1,
                        2 => Signal::UserDefined2,
                        _ => Signal::Alarm,
                    };
                    // the software signal queue holds 4: never block the conductor on it
                    let _ = self.signal_tx.try_send(sig);
                }
            }
            Op::EndSetup => {}
        }
    }
}

fn counts_of(handles: &Arc<Mutex<HashMap<usize, Supervisor>>>) -> Vec<(usize, usize)> {
    handles.lock().unwrap().iter().map(|(k, h)| (*k, h.subordinate_count())).collect()
}

struct Setup {
    ctx: Ctx,
    setup_ops: Vec<Op>,
    main_ops: Vec<Op>,
    exec_done: Arc<AtomicBool>,
    cond_tx: oneshot::Sender<JoinHandle<()>>,
}

impl RuntimeSetup for Setup {
    type Error = ();

    fn setup(self, supervisor: &mut Supervisor) -> impl Future<Output = Result<(), ()>> + Send {
        async move {
            let Setup { mut ctx, setup_ops, main_ops, exec_done, cond_tx } = self;
            for op in &setup_ops {
                ctx.exec_op(op, Some(supervisor)).await;
            }
            let conductor = tokio::spawn(async move {
                for op in &main_ops {
                    ctx.exec_op(op, None).await;
                }
                ctx.exec_op(&Op::Terminate, None).await;
                let stoppers = std::mem::take(&mut ctx.stoppers);
                for (s, jh) in stoppers {
                    if !wait_until(|| jh.is_finished()).await {
                        ctx.hung.lock().unwrap().push(format!("stop({s})"));
                    }
                }
                if !wait_until(|| exec_done.load(Ordering::SeqCst)).await {
                    ctx.hung.lock().unwrap().push("exec".into());
                }
                // release what is left and let orphans (if any) wind down
                let mut left: Vec<usize> = ctx.handles.lock().unwrap().keys().copied().collect();
                left.sort();
                for s in left {
                    ctx.exec_op(&Op::DropHandle(s), None).await;
                    yields(3).await;
                }
                yields(80).await;
            });
            let _ = cond_tx.send(conductor);
            Ok(())
        }
    }
}

struct Outcome {
    log: Vec<Evt>,
    findings: Vec<Finding>,
    hung: Vec<String>,
    returned: Vec<(usize, usize, Vec<usize>)>,
    flags: Vec<Option<(bool, bool, u32)>>,
    alive_at_request: u32,
    n_sups: usize,
    n_actors: usize,
    depth: usize,
}

static HEARTBEAT: AtomicU64 = AtomicU64::new(0);
/// multi-thread runtime: only the checks that do not depend on the order of the event log
static MT: AtomicBool = AtomicBool::new(false);

fn run_scenario(ops: &[Op], mt: bool) -> Outcome {
    HEARTBEAT.fetch_add(1, Ordering::SeqCst);
    MT.store(mt, Ordering::SeqCst);
    if std::env::var("C47_TRACE").is_ok() {
        eprintln!("scenario {:?}", ops.iter().map(op_to_string).collect::<Vec<_>>());
    }
    let split = ops.iter().position(|o| *o == Op::EndSetup).unwrap_or(ops.len());
    let setup_ops: Vec<Op> = ops[..split].to_vec();
    let main_ops: Vec<Op> = ops[split.min(ops.len())..].iter().filter(|o| **o != Op::EndSetup).cloned().collect();
    let rt = if mt {
        tokio::runtime::Builder::new_multi_thread().worker_threads(3).enable_time().build().unwrap()
    } else {
        tokio::runtime::Builder::new_current_thread().build().unwrap()
    };
    let world = World::default();
    {
        let mut w = world.0.lock().unwrap();
        w.nodes.push(NodeInfo { sup: true, parent: None, flags: None, late: false });
        w.log.push(Evt::SpawnSup(None));
    }
    let hung = Arc::new(Mutex::new(vec![]));
    let w2 = world.clone();
    let hung2 = hung.clone();
    rt.block_on(async move {
        let (src, signal_tx) = SoftwareSignalSource::new();
        let exec_done = Arc::new(AtomicBool::new(false));
        let (cond_tx, cond_rx) = oneshot::channel();
        let handles = Arc::new(Mutex::new(HashMap::new()));
        let ctx = Ctx {
            world: w2.clone(),
            handles: handles.clone(),
            inboxes: HashMap::new(),
            stoppers: vec![],
            signal_tx,
            terminated: false,
            hung: hung2.clone(),
        };
        let setup = Setup { ctx, setup_ops, main_ops, exec_done: exec_done.clone(), cond_tx };
        let w3 = w2.clone();
        let exec_h = tokio::spawn(async move {
            let _ = Runtime::new().exec(setup, Handler { world: w3.clone() }, src).await;
            w3.log(Evt::ExecRet);
            let counts = counts_of(&handles);
            w3.oracle_returned(0, &counts);
            exec_done.store(true, Ordering::SeqCst);
        });
        // every wait of the conductor is bounded, so these two complete; bounded all the same
        let mut cond_rx = cond_rx;
        let mut cond: Option<JoinHandle<()>> = None;
        if !wait_until(|| {
            if cond.is_none() {
                cond = cond_rx.try_recv().ok();
            }
            cond.is_some()
        })
        .await
        {
            hung2.lock().unwrap().push("setup".into());
        }
        if let Some(c) = cond {
            // every wait inside the conductor is bounded, so it ends by itself
            let _ = c.await;
        }
        let exec_hung = !hung2.lock().unwrap().is_empty();
        if exec_hung || !wait_until(|| exec_h.is_finished()).await {
            exec_h.abort();
        }
    });
    // snapshot before the runtime (and with it every task still alive) is dropped
    let out = {
        let w = world.0.lock().unwrap();
        let depth_of = |mut i: usize| {
            let mut d = 0;
            while let Some(p) = w.nodes[i].parent {
                d += 1;
                i = p;
            }
            d
        };
        Outcome {
            log: w.log.clone(),
            findings: w.findings.clone(),
            hung: hung.lock().unwrap().clone(),
            returned: w.returned.clone(),
            flags: w
                .nodes
                .iter()
                .map(|n| {
                    n.flags.as_ref().map(|f| {
                        (
                            f.cleaned.load(Ordering::SeqCst),
                            f.dropped.load(Ordering::SeqCst),
                            f.handled.load(Ordering::SeqCst),
                        )
                    })
                })
                .collect(),
            alive_at_request: w.alive_at_request,
            n_sups: w.nodes.iter().filter(|n| n.sup).count(),
            n_actors: w.nodes.iter().filter(|n| !n.sup).count(),
            depth: (0..w.nodes.len()).map(depth_of).max().unwrap_or(0),
        }
    };
    drop(rt);
    out
}

// ---------------------------------------------------------------------------------------------
// trace → model tokens

fn model_trace(log: &[Evt]) -> Vec<String> {
    let mut out = vec![];
    let mut self_stopped: BTreeMap<usize, bool> = BTreeMap::new();
    for e in log {
        match e {
            Evt::SpawnSup(None) => out.push("ss:-".into()),
            Evt::SpawnSup(Some(p)) => out.push(format!("ss:{p}")),
            Evt::SpawnActor(p) => out.push(format!("sa:{p}")),
            Evt::Term => out.push("te:0".into()),
            Evt::ExecRet => out.push("xr:0".into()),
            Evt::StopReq(s) => out.push(format!("sq:{s}")),
            Evt::StopRet(s) => out.push(format!("sr:{s}")),
            Evt::DropH(s) => out.push(format!("dh:{s}")),
            Evt::SetupDone(a) => out.push(format!("su:{a}")),
            Evt::Ready(a) => out.push(format!("rd:{a}")),
            Evt::StepDone(a) => out.push(format!("sd:{a}")),
            Evt::SelfStop(a) => {
                self_stopped.insert(*a, true);
                out.push(format!("sf:{a}"));
            }
            Evt::CleanupBegin(a) => {
                if !self_stopped.get(a).copied().unwrap_or(false) {
                    out.push(format!("st:{a}"));
                }
            }
            Evt::CleanupEnd(_) => {}
            // the task completes: cleanup done and receiver dropped in one poll
            Evt::Exit(a, true) => out.push(format!("cd:{a}")),
            Evt::Exit(a, false) => out.push(format!("exit-without-cleanup:{a}")),
        }
    }
    out
}

/// Corrupt an accepted trace into one the property forbids; `None` if the trace offers no handle.
fn corrupt(tokens: &[String], returned: &[(usize, usize, Vec<usize>)], r: &mut Rng) -> Option<(String, Vec<String>)> {
    let kind = r.below(3);
    let pos = |t: &str| tokens.iter().position(|x| x == t);
    match kind {
        0 => {
            // the stop returns before a task under it has completed
            let cands: Vec<(usize, usize)> =
                returned.iter().flat_map(|(s, _, acts)| acts.iter().map(move |a| (*s, *a))).collect();
            if cands.is_empty() {
                return None;
            }
            let (s, a) = *r.pick(&cands);
            let ret = if s == 0 { "xr:0".to_string() } else { format!("sr:{s}") };
            let (ir, ic) = (pos(&ret)?, pos(&format!("cd:{a}"))?);
            if ic > ir {
                return None;
            }
            let mut t = tokens.to_vec();
            let x = t.remove(ir);
            t.insert(ic, x);
            Some(("return-before-completion".into(), t))
        }
        1 => {
            // a message is handled after the stop was observed
            let sts: Vec<usize> = tokens.iter().enumerate().filter(|(_, x)| x.starts_with("st:")).map(|(i, _)| i).collect();
            if sts.is_empty() {
                return None;
            }
            let i = *r.pick(&sts);
            let a = &tokens[i][3..];
            let mut t = tokens.to_vec();
            t.insert(i + 1, format!("rd:{a}"));
            Some(("handle-after-stop".into(), t))
        }
        _ => {
            // an actor under a returned supervisor never completes
            let cands: Vec<(usize, usize)> =
                returned.iter().flat_map(|(s, _, acts)| acts.iter().map(move |a| (*s, *a))).collect();
            if cands.is_empty() {
                return None;
            }
            let (_, a) = *r.pick(&cands);
            let ic = pos(&format!("cd:{a}"))?;
            let mut t = tokens.to_vec();
            t.remove(ic);
            Some(("completion-dropped".into(), t))
        }
    }
}

// ---------------------------------------------------------------------------------------------

fn classify(f: &Finding, stream: &str) -> String {
    if f.late {
        "C47:late-spawn-orphan".into()
    } else {
        let _ = stream;
        "C47:descendant-alive-after-stop".into()
    }
}

struct CaseResult {
    nontrivial: Option<String>,
    failures: Vec<Failure>,
}

fn run_case(
    stream: &str,
    ops: &[Op],
    input: Value,
    drv: &mut Driver,
    rep: &mut Report,
    r: &mut Rng,
    allow_late: bool,
    mt: bool,
) -> CaseResult {
    let out = run_scenario(ops, mt);
    let mut failures = vec![];
    let tokens = model_trace(&out.log);
    let line = format!("acc {}", tokens.join(","));

    // ---- oracle ---------------------------------------------------------------------------
    let any_late = out.findings.iter().any(|f| f.late);
    for f in &out.findings {
        failures.push(Failure {
            kind: "impl-vs-oracle".into(),
            class: classify(f, stream),
            input: input.clone(),
            expected: format!("when stop/exec of supervisor {} returned, task {} under it has completed after its cleanup", f.sup, f.node),
            observed: format!("{} (node {}, registered {})", f.what, f.node, if f.late { "while an ancestor was stopping" } else { "before the stop was requested" }),
        });
    }
    // nothing under a returned supervisor does anything afterwards
    for (s, at, actors) in &out.returned {
        for e in &out.log[*at..] {
            let who = match e {
                Evt::Exit(..) if mt => None,
                Evt::SetupDone(a) | Evt::Ready(a) | Evt::StepDone(a) | Evt::SelfStop(a) | Evt::CleanupBegin(a)
                | Evt::CleanupEnd(a) | Evt::Exit(a, _) => Some(*a),
                _ => None,
            };
            if let Some(a) = who {
                if actors.contains(&a) {
                    failures.push(Failure {
                        kind: "impl-vs-oracle".into(),
                        class: if any_late { "C47:late-spawn-orphan".into() } else { "C47:activity-after-stop".into() },
                        input: input.clone(),
                        expected: format!("no activity of actor {a} after stop/exec of {s} returned"),
                        observed: format!("{e:?}"),
                    });
                    break;
                }
            }
        }
    }
    if !out.hung.is_empty() {
        let late_in_play = allow_late && late_spawn_present(&out);
        failures.push(Failure {
            kind: "impl-vs-oracle".into(),
            class: if late_in_play { "C47:late-spawn-hang".into() } else { "C47:stop-hang".into() },
            input: input.clone(),
            expected: "stop()/exec() return once every actor step has terminated".into(),
            observed: format!("still pending after the bounded wait ({} scheduler rounds): {:?}", ROUNDS, out.hung),
        });
    }
    for e in &out.log {
        if let Evt::Exit(a, false) = e {
            failures.push(Failure {
                kind: "impl-vs-oracle".into(),
                class: "C47:exit-without-cleanup".into(),
                input: input.clone(),
                expected: format!("actor {a} runs cleanup before its task ends"),
                observed: "task dropped without completed cleanup".into(),
            });
        }
    }

    // ---- correspondence (single-threaded runtime only: the log order is the execution order) ----
    let reply = if mt {
        "not-asked".to_string()
    } else {
        rep.model_requests += 1;
        drv.ask(&line)
    };
    if mt {
        rep.count("multi-thread-case");
    } else if let Some(st) = reply.strip_prefix("ok ") {
        // final model state against the implementation's own flags
        for node in st.split(';') {
            let f: Vec<&str> = node.split(':').collect();
            if f.len() != 11 {
                continue;
            }
            let id: usize = f[0].parse().unwrap_or(usize::MAX);
            if !allow_late && (f[4] == "1" || f[5] == "1") {
                failures.push(Failure {
                    kind: "impl-vs-model".into(),
                    class: "unclassified".into(),
                    input: input.clone(),
                    expected: "no late/orphan registration in this stream".into(),
                    observed: format!("model node {node}"),
                });
            }
            if f[1] == "a" {
                if let Some(Some((cleaned, dropped, handled))) = out.flags.get(id) {
                    let m = (f[9] == "1", f[2] == "3", f[10].parse::<u32>().unwrap_or(u32::MAX));
                    if m != (*cleaned, *dropped, *handled) {
                        failures.push(Failure {
                            kind: "impl-vs-model".into(),
                            class: "unclassified".into(),
                            input: input.clone(),
                            expected: format!("model actor {id}: cleaned/done/handled = {m:?}"),
                            observed: format!("implementation: {:?}", (cleaned, dropped, handled)),
                        });
                    }
                }
            }
        }
        // the acceptor must not be vacuous: corrupted traces are rejected
        if !any_late && !late_spawn_present(&out) {
            if let Some((what, bad)) = corrupt(&tokens, &out.returned, r) {
                let rr = drv.ask(&format!("acc {}", bad.join(",")));
                rep.model_requests += 1;
                if rr.starts_with("reject") {
                    rep.count(&format!("corrupted-rejected:{what}"));
                } else {
                    failures.push(Failure {
                        kind: "impl-vs-model".into(),
                        class: "unclassified".into(),
                        input: input.clone(),
                        expected: format!("model rejects corrupted trace ({what})"),
                        observed: format!("{rr} for {}", bad.join(",")),
                    });
                }
            }
        }
    } else {
        failures.push(Failure {
            kind: "impl-vs-model".into(),
            class: "unclassified".into(),
            input: input.clone(),
            expected: "observed trace is a schedule of the model".into(),
            observed: format!("{reply}; trace {}", tokens.join(",")),
        });
    }

    // ---- bookkeeping ----------------------------------------------------------------------
    rep.count(&format!("depth-{}", out.depth));
    rep.count(&format!("sups-{}", out.n_sups.min(6)));
    rep.count(&format!("actors-{}", out.n_actors.min(9)));
    rep.count_n("stops-returned", out.returned.len() as u64);
    rep.count_n("actors-alive-at-stop-request", out.alive_at_request as u64);
    rep.count_n("events", out.log.len() as u64);
    if out.log.iter().any(|e| matches!(e, Evt::SelfStop(_))) {
        rep.count("has-early-finisher");
    }
    if out.log.iter().any(|e| matches!(e, Evt::DropH(_))) {
        rep.count("has-dropped-handle");
    }
    if late_spawn_present(&out) {
        rep.count("has-late-spawn");
    }
    let nontrivial = if out.alive_at_request >= 1 && out.n_actors >= 2 && out.n_sups >= 2 && !out.returned.is_empty() {
        // on worker threads the log order is not meaningful: key on the scenario instead
        Some(if mt { ops.iter().map(op_to_string).collect::<Vec<_>>().join(" ") } else { tokens.join(",") })
    } else {
        None
    };
    if rep.samples.len() < 4 && nontrivial.is_some() {
        rep.sample(json!({"scenario": ops.iter().map(op_to_string).collect::<Vec<_>>(), "trace": tokens.join(","), "model": reply}));
    }
    CaseResult { nontrivial, failures }
}

fn late_spawn_present(out: &Outcome) -> bool {
    // a registration after some stop was requested on an ancestor-or-self
    let mut parent: Vec<Option<usize>> = vec![];
    let mut stopping: Vec<usize> = vec![];
    let under = |parent: &Vec<Option<usize>>, s: usize, mut i: usize| loop {
        if i == s {
            return true;
        }
        match parent[i] {
            Some(p) => i = p,
            None => return false,
        }
    };
    for e in &out.log {
        match e {
            Evt::SpawnSup(p) => {
                if let Some(p) = p {
                    if stopping.iter().any(|&s| under(&parent, s, *p)) {
                        return true;
                    }
                }
                parent.push(*p);
            }
            Evt::SpawnActor(p) => {
                if stopping.iter().any(|&s| under(&parent, s, *p)) {
                    return true;
                }
                parent.push(Some(*p));
            }
            Evt::StopReq(s) => stopping.push(*s),
            Evt::Term => stopping.push(0),
            _ => {}
        }
    }
    false
}

/// Regression scenarios: the crate's own unit-test tree, and the two late-registration shapes.
fn fixed_scenarios() -> Vec<(&'static str, Vec<&'static str>, bool)> {
    vec![
        // lib.rs supervisor_test: subordinate with two blocking actors, stop, then terminate
        ("unit-test-tree", vec!["S0", "|", "A1/0/0/0/0/0/0", "Y4", "S1", "A3/0/0/0/0/0/-", "A3/0/0/0/0/0/-", "Y2", "W3", "T"], false),
        ("deep-chain", vec!["S0", "S1", "S2", "A3/1/0/9/5/2/-", "A2/0/0/0/7/0/-", "A1/2/1/0/0/1/0", "A0/0/0/3/3/1/-", "|", "Y3", "X1", "Y2", "T"], false),
        ("terminate-only", vec!["S0", "S1", "A2/3/2/20/11/3/-", "A1/0/0/0/0/0/-", "A0/0/0/0/2/0/-", "|", "Y5", "T"], false),
        ("drop-then-stop-parent", vec!["S0", "S1", "A2/0/0/0/3/0/-", "A2/1/1/6/0/2/-", "|", "D2", "Y6", "W1", "T"], false),
        // late registration (a): orphan; (b): hang
        ("late-orphan", vec!["S0", "S1", "A1/0/0/0/6/0/-", "|", "Y3", "X1", "Y3", "A2/0/0/0/0/0/-", "Y30", "T"], true),
        ("late-hang", vec!["S0", "S1", "A1/0/0/0/6/0/-", "A2/0/0/0/3/0/-", "|", "Y3", "X1", "Y3", "A2/0/0/0/0/0/-", "Y30", "T"], true),
    ]
}

fn main() {
    let args = Args::parse();
    let want_late = args.extra.get("late").map(|v| v == "1").unwrap_or(true);
    let mut rep = Report::new(
        "actors",
        "a stop/terminate was requested while >=1 actor under it was still alive, tree has >=2 supervisors and >=2 actors, and the stop returned; key = observed trace",
    );
    let mut drv = Driver::spawn(&args.driver);

    // last-resort real-time watchdog (a spinning task defeats the paused clock)
    {
        let out = args.out.clone();
        std::thread::spawn(move || {
            let mut last = HEARTBEAT.load(Ordering::SeqCst);
            let mut idle = 0;
            loop {
                std::thread::sleep(Duration::from_secs(1));
                let cur = HEARTBEAT.load(Ordering::SeqCst);
                if cur == last {
                    idle += 1;
                } else {
                    idle = 0;
                    last = cur;
                }
                if idle >= 60 {
                    let mut rep = Report::new("actors", "watchdog");
                    rep.fail(Failure {
                        kind: "impl-vs-oracle".into(),
                        class: "C47:stop-hang".into(),
                        input: json!({"case_counter": cur}),
                        expected: "every scenario completes".into(),
                        observed: "no progress for 60 s of real time (busy task and pending stop)".into(),
                    });
                    rep.write(&out);
                    eprintln!("c47: real-time watchdog fired at case counter {cur}");
                    std::process::exit(0);
                }
            }
        });
    }

    let run = |stream: &str, ops: Vec<Op>, input: Value, rep: &mut Report, drv: &mut Driver, r: &mut Rng, late: bool| {
        let mt = stream == "random-mt" || input["mt"].as_bool().unwrap_or(false);
        let res = run_case(stream, &ops, input, drv, rep, r, late, mt);
        rep.case(res.nontrivial);
        for f in res.failures {
            // the two recorded late-registration classes would otherwise crowd out the report
            if f.class.starts_with("C47:late-spawn-") {
                rep.count(&format!("observed {}", f.class));
                if rep.failures.iter().filter(|g| g.class == f.class).count() >= 2 {
                    continue;
                }
            }
            rep.fail(f);
        }
    };

    if let Some(path) = &args.replay {
        let v: Value = serde_json::from_str(&std::fs::read_to_string(path).expect("replay file")).expect("replay json");
        let input = v.get("input").cloned().unwrap_or(v);
        let ops: Vec<Op> = input["scenario"]
            .as_array()
            .expect("input.scenario")
            .iter()
            .map(|s| op_from_string(s.as_str().unwrap()).expect("op"))
            .collect();
        let late = input["late"].as_bool().unwrap_or(false);
        let mut r = Rng::for_case(args.seed, 0);
        for _ in 0..20 {
            run("replay", ops.clone(), input.clone(), &mut rep, &mut drv, &mut r, late);
        }
    } else {
        // fixed regression scenarios
        for (name, ops, late) in fixed_scenarios() {
            if late && !want_late {
                continue;
            }
            let ops: Vec<Op> = ops.iter().map(|s| op_from_string(s).expect("fixed op")).collect();
            let input = json!({"stream": "fixed", "name": name, "late": late, "scenario": ops.iter().map(op_to_string).collect::<Vec<_>>()});
            let mut r = Rng::for_case(args.seed, 999_999);
            run("fixed", ops, input, &mut rep, &mut drv, &mut r, late);
            rep.count("fixed");
        }
        // random trees, no registration on a supervisor that is already stopping
        let n = args.cases(8000, 150000);
        for i in 0..n {
            let mut r = Rng::for_case(args.seed, i);
            let ops = gen_scenario(&mut r, false);
            let input = json!({"stream": "random", "seed": args.seed, "case": i, "late": false, "scenario": ops.iter().map(op_to_string).collect::<Vec<_>>()});
            run("random", ops, input, &mut rep, &mut drv, &mut r, false);
        }
        // the same generator on a multi-thread runtime (true parallel interleavings): oracle only
        let n = args.cases(400, 6000);
        for i in 0..n {
            let mut r = Rng::for_case(args.seed ^ 0x4d54, i);
            let ops = gen_scenario(&mut r, false);
            let input = json!({"stream": "random-mt", "seed": args.seed, "case": i, "late": false, "mt": true, "scenario": ops.iter().map(op_to_string).collect::<Vec<_>>()});
            run("random-mt", ops, input, &mut rep, &mut drv, &mut r, false);
        }
        if want_late {
            let n = args.cases(1500, 20000);
            for i in 0..n {
                let mut r = Rng::for_case(args.seed ^ 0x4c41_5445, i);
                let ops = gen_scenario(&mut r, true);
                let input = json!({"stream": "late", "seed": args.seed, "case": i, "late": true, "scenario": ops.iter().map(op_to_string).collect::<Vec<_>>()});
                run("late", ops, input, &mut rep, &mut drv, &mut r, true);
                rep.count("late-stream");
            }
        } else {
            rep.note("late-registration stream (spawn/subordinate on a supervisor that is already stopping) disabled by --late 0; its findings have classes C47:late-spawn-orphan / C47:late-spawn-hang");
        }
    }
    rep.write(&args.out);
    println!(
        "c47: {} cases, {} nontrivial, {} failures, {} model requests",
        rep.evaluations,
        rep.nontrivial_keys.len(),
        rep.failures.len(),
        rep.model_requests
    );
}
