//! C44 — correspondence + oracle for the offline password cache of the unix resolver.
//!
//! Three streams, one report, all against the real crates `sparkle_resolver_common` /
//! `kanidm_lib_crypto` / `kanidm_client` / `kanidm-hsm-crypto` (soft TPM):
//!
//! * `helpers`: the public helpers `UserToken::kanidm_update_cached_password` /
//!   `kanidm_check_cached_password` with three independent machine keys (three soft TPMs), cheap
//!   KDF policy: random sequences of seal / check / swap-the-blob-between-machines / plant a
//!   credential that is not sealed at all / junk.
//! * `resolver`: the real `Resolver` (sqlite cache, real `KanidmProvider` with its own soft TPM
//!   and HMAC key, real `kanidm_client` over HTTP) against an in-process mock directory that
//!   answers the online probe, the token endpoint and the *authentication* endpoint.  A case is a
//!   history: logins with right / wrong / former passwords, server-side password changes and
//!   removals, the directory going away and coming back in several ways (probe failing, dropped
//!   connections, 401, forced offline), cache invalidation / clearing, NSS lookups, and somebody
//!   overwriting the cached credential in the cache database (a credential sealed by another
//!   machine — another real host or another soft TPM —, an unsealed one, junk, none).
//! * `interleaved`: the same with login attempts whose two halves (`init`, `step`) are separated
//!   by other events (two session slots).
//!
//! Every op is answered by the implementation and by the Lean model (`km_c44`, same history);
//! compared per op: result, online/offline path, provider online flag, the cache row (validity,
//! expiry, kind and sealing key of the credential) and the exact sequence of requests the host
//! sent.  Every accepted login is judged by an oracle written from the property text only.
use hunix::*;
use kanidm_client::KanidmClientBuilder;
use kanidm_hsm_crypto::{
    provider::{BoxedDynTpm, SoftTpm, Tpm, TpmHmacS256},
    structures::HmacS256Key,
    AuthValue,
};
use kanidm_lib_crypto::{CryptoPolicy, DbPasswordV1, Password};
use kanidm_proto::internal::OperationError;
use kanidm_proto::v1::UnixUserToken;
use serde_json::{json, Value};
use sparkle_resolver_common::db::{Cache, Db};
use sparkle_resolver_common::idprovider::interface::{Id, IdProvider, ProviderOrigin, UserToken};
use sparkle_resolver_common::idprovider::kanidm::KanidmProvider;
use sparkle_resolver_common::idprovider::system::SystemProvider;
use sparkle_resolver_common::resolver::{AuthSession, Resolver};
use sparkle_unix_common::constants::{
    DEFAULT_CACHE_TIMEOUT, DEFAULT_GID_ATTR_MAP, DEFAULT_HOME_ALIAS, DEFAULT_HOME_ATTR, DEFAULT_HOME_PREFIX,
    DEFAULT_SHELL, DEFAULT_UID_ATTR_MAP,
};
use sparkle_unix_common::unix_config::KanidmConfig;
use sparkle_unix_common::unix_proto::{PamAuthRequest, PamAuthResponse, PamServiceInfo};
use std::collections::{BTreeMap, HashMap};
use std::sync::{Arc, Mutex, RwLock};
use std::time::{Duration, SystemTime};
use tokio::io::{AsyncReadExt, AsyncWriteExt};
use tokio::net::TcpListener;
use uuid::Uuid;

const PWV1_KEY: &str = "kanidm-pw-v1";
/// password atoms 0..NPW
const NPW: u64 = 8;

/// Injective atom -> cleartext; the neighbours are near misses of each other.
fn pstr(p: u64) -> String {
    match p {
        0 => "".into(),
        1 => "correct horse battery".into(),
        2 => "Correct horse battery".into(),
        3 => "correct horse battery ".into(),
        4 => "correct horse batter".into(),
        5 => "c\u{00f6}rrect horse battery".into(),
        6 => "co\u{0308}rrect horse battery".into(),
        _ => format!("pw-{p}-\u{1F511}"),
    }
}
fn patom(s: &str) -> u64 {
    (0..NPW).find(|p| pstr(*p) == s).unwrap_or(99)
}
fn uname(u: u64) -> String {
    format!("usr{u}")
}
fn uuuid(u: u64) -> Uuid {
    Uuid::parse_str(&format!("00000000-0000-4000-9000-{u:012x}")).unwrap()
}
fn unix_token(u: u64, valid: bool) -> UnixUserToken {
    UnixUserToken {
        name: uname(u),
        spn: format!("usr{u}@example.com"),
        displayname: format!("User {u}"),
        gidnumber: 20000 + u as u32,
        uuid: uuuid(u),
        shell: None,
        groups: vec![],
        sshkeys: vec![],
        valid,
    }
}

// ---------------------------------------------------------------------------------------------
// ops (their model line is also their serialisation)

#[derive(Clone, Debug, PartialEq)]
enum Fault {
    None,
    Tr,
    Bad,
    St(u64, u64),
}
#[derive(Clone, Debug, PartialEq)]
enum BlobSpec {
    None,
    Junk,
    /// TPM_ARGON2ID of password `pw` sealed with foreign key `key` (1 = another real host, 2.. = soft TPMs)
    Foreign { pw: u64, key: u64 },
    /// not sealed: tag 0 = ARGON2ID, 1 = PBKDF2
    Soft { tag: u64, pw: u64 },
}
#[derive(Clone, Debug, PartialEq)]
enum Op {
    Srv(u64, Option<(u64, bool)>),
    SelfReply(u64),
    TokFault(Fault),
    AuthFault(Fault),
    Inval,
    Clear,
    Offline,
    NextCheck,
    Lookup(u64),
    Plant(u64, BlobSpec),
    Auth(u64, u64),
    Init(u64, u64),
    /// slot, cred, account the slot was opened for
    Step(u64, u64, u64),
}

fn oe_table() -> Vec<(String, String)> {
    let j = |e: &OperationError| serde_json::to_string(e).unwrap();
    vec![
        ("nomatchingentries".into(), j(&OperationError::NoMatchingEntries)),
        ("missingattribute".into(), j(&OperationError::MissingAttribute(kanidm_proto::attribute::Attribute::GidNumber))),
        ("missingclass".into(), j(&OperationError::MissingClass("posixaccount".into()))),
        ("invalidaccountstate".into(), j(&OperationError::InvalidAccountState("no posix".into()))),
        ("notauthenticated".into(), j(&OperationError::NotAuthenticated)),
        ("sessionexpired".into(), j(&OperationError::SessionExpired)),
        ("accessdenied".into(), j(&OperationError::AccessDenied)),
        ("-".into(), "\"status\"".into()),
    ]
}
const OE_NAMES: [&str; 8] =
    ["nomatchingentries", "missingattribute", "missingclass", "invalidaccountstate", "notauthenticated", "sessionexpired", "accessdenied", "-"];

impl Fault {
    fn line(&self) -> String {
        match self {
            Fault::None => "-".into(),
            Fault::Tr => "tr".into(),
            Fault::Bad => "bad".into(),
            Fault::St(c, i) => format!("st:{c}:{}", OE_NAMES[*i as usize]),
        }
    }
    fn parse(s: &str) -> Fault {
        let p: Vec<&str> = s.split(':').collect();
        match p[0] {
            "-" => Fault::None,
            "tr" => Fault::Tr,
            "bad" => Fault::Bad,
            _ => Fault::St(p[1].parse().unwrap(), OE_NAMES.iter().position(|n| *n == p[2]).unwrap() as u64),
        }
    }
}
const SOFT_TAGS: [&str; 2] = ["ARGON2ID", "PBKDF2"];
impl BlobSpec {
    fn line(&self) -> String {
        match self {
            BlobSpec::None => "-".into(),
            BlobSpec::Junk => "junk".into(),
            BlobSpec::Foreign { pw, key } => format!("k:TPM_ARGON2ID:{pw}:{key}"),
            BlobSpec::Soft { tag, pw } => format!("k:{}:{pw}:0", SOFT_TAGS[*tag as usize]),
        }
    }
    fn parse(s: &str) -> BlobSpec {
        let p: Vec<&str> = s.split(':').collect();
        match p[0] {
            "-" => BlobSpec::None,
            "junk" => BlobSpec::Junk,
            _ if p[1] == "TPM_ARGON2ID" => BlobSpec::Foreign { pw: p[2].parse().unwrap(), key: p[3].parse().unwrap() },
            _ => BlobSpec::Soft { tag: SOFT_TAGS.iter().position(|t| *t == p[1]).unwrap() as u64, pw: p[2].parse().unwrap() },
        }
    }
}
impl Op {
    fn line(&self) -> String {
        match self {
            Op::Srv(u, Some((p, v))) => format!("srv {u} {p} {}", *v as u8),
            Op::Srv(u, None) => format!("srv {u} - 0"),
            Op::SelfReply(k) => format!("self {}", (*k < 2) as u8),
            Op::TokFault(f) => format!("tokfault {}", f.line()),
            Op::AuthFault(f) => format!("authfault {}", f.line()),
            Op::Inval => "inval".into(),
            Op::Clear => "clear".into(),
            Op::Offline => "offline".into(),
            Op::NextCheck => "nextcheck".into(),
            Op::Lookup(u) => format!("lookup {u}"),
            Op::Plant(u, b) => format!("plant {u} {}", b.line()),
            Op::Auth(u, p) => format!("auth {u} {p}"),
            Op::Init(s, u) => format!("init {s} {u}"),
            Op::Step(s, p, u) => format!("step {s} {p} {u}"),
        }
    }
    /// replay form: the model line, except that `self` keeps its kind
    fn ser(&self) -> String {
        match self {
            Op::SelfReply(k) => format!("selfkind {k}"),
            o => o.line(),
        }
    }
    fn parse(s: &str) -> Op {
        let t: Vec<&str> = s.split(' ').collect();
        let n = |i: usize| t[i].parse::<u64>().unwrap();
        match t[0] {
            "srv" => Op::Srv(n(1), if t[2] == "-" { None } else { Some((n(2), t[3] == "1")) }),
            "selfkind" => Op::SelfReply(n(1)),
            "self" => Op::SelfReply(if t[1] == "1" { 0 } else { 2 }),
            "tokfault" => Op::TokFault(Fault::parse(t[1])),
            "authfault" => Op::AuthFault(Fault::parse(t[1])),
            "inval" => Op::Inval,
            "clear" => Op::Clear,
            "offline" => Op::Offline,
            "nextcheck" => Op::NextCheck,
            "lookup" => Op::Lookup(n(1)),
            "plant" => Op::Plant(n(1), BlobSpec::parse(t[2])),
            "auth" => Op::Auth(n(1), n(2)),
            "init" => Op::Init(n(1), n(2)),
            "step" => Op::Step(n(1), n(2), n(3)),
            o => panic!("bad op {o}"),
        }
    }
}
fn ops_json(ops: &[Op]) -> Value {
    Value::Array(ops.iter().map(|o| Value::String(o.ser())).collect())
}
fn ops_from(v: &Value) -> Vec<Op> {
    v.as_array().unwrap().iter().map(|s| Op::parse(s.as_str().unwrap())).collect()
}

// ---------------------------------------------------------------------------------------------
// mock of the kanidm server (one per host)

#[derive(Clone, Debug, PartialEq)]
enum LogEv {
    Probe,
    Tok(u64),
    /// account, offered password atom, verified
    Auth(u64, u64, bool),
}
struct MockState {
    accounts: HashMap<u64, (u64, bool)>,
    self_kind: u64,
    tok_fault: Fault,
    auth_fault: Fault,
    /// (event, connection dropped instead of answered)
    log: Vec<(LogEv, bool)>,
    oe: Vec<(String, String)>,
}
impl MockState {
    fn new() -> Self {
        MockState { accounts: HashMap::new(), self_kind: 0, tok_fault: Fault::None, auth_fault: Fault::None, log: vec![], oe: oe_table() }
    }
    fn reset(&mut self) {
        self.accounts.clear();
        self.self_kind = 0;
        self.tok_fault = Fault::None;
        self.auth_fault = Fault::None;
        self.log.clear();
    }
}
type Mock = Arc<RwLock<MockState>>;
enum MockReply {
    Json(u16, String),
    Drop,
}
fn fault_reply(f: &Fault, oe: &[(String, String)]) -> Option<MockReply> {
    match f {
        Fault::None => None,
        Fault::Tr => Some(MockReply::Drop),
        Fault::Bad => Some(MockReply::Json(200, "{\"name\":7}".into())),
        Fault::St(c, i) => Some(MockReply::Json(*c as u16, oe[*i as usize].1.clone())),
    }
}
fn uid_of(id: &str) -> u64 {
    id.strip_prefix("usr").and_then(|s| s.parse().ok()).unwrap_or(u64::MAX)
}

async fn serve(listener: TcpListener, mock: Mock) {
    loop {
        let (mut sock, _) = match listener.accept().await {
            Ok(x) => x,
            Err(_) => continue,
        };
        let mock = mock.clone();
        tokio::spawn(async move {
            let mut buf: Vec<u8> = Vec::new();
            let mut tmp = [0u8; 4096];
            loop {
                let head_end = loop {
                    if let Some(p) = buf.windows(4).position(|w| w == b"\r\n\r\n") {
                        break Some(p + 4);
                    }
                    match sock.read(&mut tmp).await {
                        Ok(0) | Err(_) => break None,
                        Ok(n) => buf.extend_from_slice(&tmp[..n]),
                    }
                };
                let Some(end) = head_end else { return };
                let head = String::from_utf8_lossy(&buf[..end]).to_string();
                buf.drain(..end);
                let clen: usize = head
                    .lines()
                    .find_map(|l| {
                        let (k, v) = l.split_once(':')?;
                        if k.eq_ignore_ascii_case("content-length") {
                            v.trim().parse().ok()
                        } else {
                            None
                        }
                    })
                    .unwrap_or(0);
                while buf.len() < clen {
                    match sock.read(&mut tmp).await {
                        Ok(0) | Err(_) => return,
                        Ok(n) => buf.extend_from_slice(&tmp[..n]),
                    }
                }
                let body: Vec<u8> = buf.drain(..clen).collect();
                let path = head.split_whitespace().nth(1).unwrap_or("").to_string();
                let reply = {
                    let mut m = mock.write().unwrap();
                    if path == "/v1/self" {
                        let r = match m.self_kind {
                            0 => MockReply::Json(200, "{\"youare\":{\"attrs\":{}}}".into()),
                            1 => MockReply::Json(401, "\"notauthenticated\"".into()),
                            2 => MockReply::Json(500, "\"status\"".into()),
                            _ => MockReply::Drop,
                        };
                        let d = matches!(r, MockReply::Drop);
                        m.log.push((LogEv::Probe, d));
                        r
                    } else if let Some(id) = path.strip_prefix("/v1/account/").and_then(|s| s.strip_suffix("/_unix/_token")) {
                        let u = uid_of(id);
                        let r = fault_reply(&m.tok_fault, &m.oe).unwrap_or_else(|| match m.accounts.get(&u) {
                            Some((_, valid)) => MockReply::Json(200, serde_json::to_string(&unix_token(u, *valid)).unwrap()),
                            None => MockReply::Json(404, "\"nomatchingentries\"".into()),
                        });
                        let d = matches!(r, MockReply::Drop);
                        m.log.push((LogEv::Tok(u), d));
                        r
                    } else if let Some(id) = path.strip_prefix("/v1/account/").and_then(|s| s.strip_suffix("/_unix/_auth")) {
                        let u = uid_of(id);
                        let cred = serde_json::from_slice::<Value>(&body).ok().and_then(|v| v["value"].as_str().map(|s| s.to_string()));
                        let p = cred.as_deref().map(patom).unwrap_or(98);
                        let mut verified = false;
                        let r = fault_reply(&m.auth_fault, &m.oe).unwrap_or_else(|| match m.accounts.get(&u) {
                            Some((pw, valid)) => {
                                if cred.as_deref() == Some(pstr(*pw).as_str()) {
                                    verified = true;
                                    MockReply::Json(200, serde_json::to_string(&unix_token(u, *valid)).unwrap())
                                } else {
                                    MockReply::Json(200, "null".into())
                                }
                            }
                            None => MockReply::Json(404, "\"nomatchingentries\"".into()),
                        });
                        let d = matches!(r, MockReply::Drop);
                        m.log.push((LogEv::Auth(u, p, verified), d));
                        r
                    } else {
                        MockReply::Json(500, "\"unexpected path\"".into())
                    }
                };
                match reply {
                    MockReply::Drop => return,
                    MockReply::Json(code, body) => {
                        let msg = format!(
                            "HTTP/1.1 {code} Status\r\ncontent-type: application/json\r\nx-kanidm-version: verif\r\ncontent-length: {}\r\n\r\n{body}",
                            body.len()
                        );
                        if sock.write_all(msg.as_bytes()).await.is_err() {
                            return;
                        }
                    }
                }
            }
        });
    }
}

/// The requests of one op as the model prints them.
fn drain_log(mock: &Mock) -> (String, Vec<LogEv>) {
    let raw: Vec<(LogEv, bool)> = mock.write().unwrap().log.drain(..).collect();
    let mut evs: Vec<LogEv> = vec![];
    for (e, _dropped) in raw {
        evs.push(e);
    }
    let s: Vec<String> = evs
        .iter()
        .map(|e| match e {
            LogEv::Probe => "p".to_string(),
            LogEv::Tok(u) => format!("t{u}"),
            LogEv::Auth(u, p, ok) => format!("a{u}:{p}:{}", *ok as u8),
        })
        .collect();
    (if s.is_empty() { "-".into() } else { s.join(",") }, evs)
}

// ---------------------------------------------------------------------------------------------
// credentials made outside the host under test

struct SoftMachine {
    tpm: BoxedDynTpm,
    hmac: HmacS256Key,
}
fn soft_machine() -> SoftMachine {
    let mut tpm = BoxedDynTpm::new(SoftTpm::default());
    let auth_value = AuthValue::ephemeral().unwrap();
    let lmk = tpm.root_storage_key_create(&auth_value).unwrap();
    let machine_key = tpm.root_storage_key_load(&auth_value, &lmk).unwrap();
    let ctx: &mut dyn TpmHmacS256 = &mut *tpm;
    let loadable = ctx.hmac_s256_create(&machine_key).unwrap();
    let hmac = ctx.hmac_s256_load(&machine_key, &loadable).unwrap();
    SoftMachine { tpm, hmac }
}
fn blank_token(u: u64) -> UserToken {
    UserToken {
        provider: ProviderOrigin::Kanidm,
        name: uname(u),
        spn: format!("usr{u}@example.com"),
        uuid: uuuid(u),
        gidnumber: 20000 + u as u32,
        displayname: format!("User {u}"),
        shell: None,
        groups: vec![],
        sshkeys: vec![],
        valid: true,
        extra_keys: Default::default(),
    }
}
fn seal(m: &mut SoftMachine, policy: &CryptoPolicy, pw: &str) -> Value {
    let mut t = blank_token(1);
    t.kanidm_update_cached_password(policy, pw, &mut m.tpm, &m.hmac);
    t.extra_keys.get(PWV1_KEY).cloned().expect("sealed credential")
}
fn soft_blob(tag: u64, policy: &CryptoPolicy, pw: &str) -> Value {
    let p = if tag == 0 { Password::new_argon2id(policy, pw) } else { Password::new_pbkdf2(policy, pw) }.expect("kdf");
    serde_json::to_value(p.to_dbpasswordv1()).unwrap()
}

/// Credentials that did not come from the host under test, by spec.
struct Blobs {
    foreign: HashMap<(u64, u64), Value>,
    soft: HashMap<(u64, u64), Value>,
    junk: Value,
}
impl Blobs {
    fn value(&self, b: &BlobSpec) -> Option<Value> {
        match b {
            BlobSpec::None => None,
            BlobSpec::Junk => Some(self.junk.clone()),
            BlobSpec::Foreign { pw, key } => Some(self.foreign[&(*pw, *key)].clone()),
            BlobSpec::Soft { tag, pw } => Some(self.soft[&(*tag, *pw)].clone()),
        }
    }
    /// provenance of a credential found in a cache row: None = not one of ours (made by the host)
    fn spec_of(&self, v: &Value) -> Option<BlobSpec> {
        if *v == self.junk {
            return Some(BlobSpec::Junk);
        }
        for ((pw, key), b) in &self.foreign {
            if b == v {
                return Some(BlobSpec::Foreign { pw: *pw, key: *key });
            }
        }
        for ((tag, pw), b) in &self.soft {
            if b == v {
                return Some(BlobSpec::Soft { tag: *tag, pw: *pw });
            }
        }
        None
    }
}
/// `<TAG>/<key>` | `junk` | `-` as the model prints the credential of a row
fn blob_desc(blobs: &Blobs, v: Option<&Value>) -> String {
    match v {
        None => "-".into(),
        Some(v) => match serde_json::from_value::<DbPasswordV1>(v.clone()) {
            Err(_) => "junk".into(),
            Ok(db) => {
                let key = match blobs.spec_of(v) {
                    Some(BlobSpec::Foreign { key, .. }) => key,
                    _ => 0,
                };
                format!("{db:?}/{key}")
            }
        },
    }
}

// ---------------------------------------------------------------------------------------------
// a real host

struct Host {
    resolver: Resolver,
    provider: Arc<KanidmProvider>,
    seed_db: Db,
    mock: Mock,
}

async fn build_host(dir: &std::path::Path, tag: &str) -> Host {
    let mock: Mock = Arc::new(RwLock::new(MockState::new()));
    let listener = TcpListener::bind("127.0.0.1:0").await.unwrap();
    let port = listener.local_addr().unwrap().port();
    tokio::spawn(serve(listener, mock.clone()));
    let client = KanidmClientBuilder::new()
        .address(format!("http://127.0.0.1:{port}"))
        .enable_native_ca_roots(false)
        .no_proxy()
        .build()
        .expect("client");
    let db_path = dir.join(format!("host-{tag}.db")).to_string_lossy().to_string();
    let _ = std::fs::remove_file(&db_path);
    let db = Db::new(&db_path).expect("db");
    let mut dbtxn = db.write().await;
    dbtxn.migrate().expect("migrate");
    let mut hsm = BoxedDynTpm::new(SoftTpm::default());
    let auth_value = AuthValue::ephemeral().unwrap();
    let lmk = hsm.root_storage_key_create(&auth_value).unwrap();
    let machine_key = hsm.root_storage_key_load(&auth_value, &lmk).unwrap();
    let system_provider = SystemProvider::new().unwrap();
    let provider = KanidmProvider::new(
        client,
        &KanidmConfig {
            conn_timeout: 2,
            request_timeout: 2,
            pam_allowed_login_groups: vec![],
            map_group: vec![],
            service_account_token: Some("verif-token".into()),
        },
        SystemTime::now(),
        &mut (&mut dbtxn).into(),
        &mut hsm,
        &machine_key,
    )
    .await
    .expect("provider");
    drop(machine_key);
    dbtxn.commit().expect("commit");
    let provider = Arc::new(provider);
    let (resolver, _rx) = Resolver::new(
        db,
        Arc::new(system_provider),
        vec![provider.clone()],
        hsm,
        DEFAULT_CACHE_TIMEOUT,
        DEFAULT_SHELL.to_string(),
        DEFAULT_HOME_PREFIX.into(),
        DEFAULT_HOME_ATTR,
        DEFAULT_HOME_ALIAS,
        DEFAULT_UID_ATTR_MAP,
        DEFAULT_GID_ATTR_MAP,
    )
    .await
    .expect("resolver");
    let seed_db = Db::new(&db_path).expect("second db handle");
    Host { resolver, provider, seed_db, mock }
}

impl Host {
    async fn reset(&self) {
        self.mock.write().unwrap().reset();
        self.resolver.clear_cache().await.expect("clear_cache");
        self.resolver.reload_system_identities(vec![], vec![], vec![]).await;
        self.resolver.mark_next_check_now(SystemTime::now() - Duration::from_millis(1)).await;
    }
    /// the row of `account_t` as it is in the database now
    async fn row(&self, u: u64) -> Option<(UserToken, u64)> {
        let mut txn = self.seed_db.write().await;
        txn.get_account(&Id::Name(uname(u))).expect("get_account")
    }
    async fn row_desc(&self, u: u64, blobs: &Blobs) -> (String, Option<Value>) {
        match self.row(u).await {
            None => ("-".into(), None),
            Some((tok, ex)) => {
                let now = SystemTime::now().duration_since(SystemTime::UNIX_EPOCH).unwrap().as_secs();
                let b = tok.extra_keys.get(PWV1_KEY).cloned();
                (format!("{}:{}:{}", tok.valid as u8, (ex <= now) as u8, blob_desc(blobs, b.as_ref())), b)
            }
        }
    }
    async fn plant(&self, u: u64, v: Option<Value>) {
        let mut txn = self.seed_db.write().await;
        if let Some((mut tok, ex)) = txn.get_account(&Id::Name(uname(u))).expect("get_account") {
            match v {
                Some(v) => {
                    tok.extra_keys.insert(PWV1_KEY.into(), v);
                }
                None => {
                    tok.extra_keys.remove(PWV1_KEY);
                }
            }
            txn.update_account(&tok, ex).expect("update_account");
            txn.commit().expect("commit");
        }
    }
}

fn session_path(s: &AuthSession) -> &'static str {
    match s {
        AuthSession::Online { .. } => "online",
        AuthSession::Offline { .. } => "offline",
        _ => "none",
    }
}

// ---------------------------------------------------------------------------------------------
// the property, from its text only
//
// "While the identity server is unreachable, the client resolver accepts a password for a user
//  only if it equals the most recent password verified online for that user on this machine, and
//  only if that cached credential was sealed with this machine's hardware-bound key."
//
// Judged on every accepted login that the directory did not verify in that very attempt (that is
// what "the server is unreachable" means for the attempt):
//  (b) the credential the host held for the account must have been produced by this host — not a
//      value we put there (sealed by another machine, not sealed at all, junk) and not absent;
//  (a) the offered password must be the last one the directory (mock) confirmed to this host for
//      this account.
struct Judge<'a> {
    blobs: &'a Blobs,
}
impl<'a> Judge<'a> {
    fn verdict(&self, offered: u64, last_verified: Option<u64>, held: Option<&Value>) -> Result<(), (String, String)> {
        match held {
            None => return Err(("C44:no-credential-accepted".into(), "accepted offline although the host holds no cached credential for the account".into())),
            Some(v) => match self.blobs.spec_of(v) {
                Some(BlobSpec::Foreign { key, .. }) => {
                    return Err(("C44:foreign-key-credential-accepted".into(), format!("accepted offline on a credential sealed with another machine's key (key {key})")))
                }
                Some(BlobSpec::Soft { tag, .. }) => {
                    return Err((
                        "C44:unsealed-credential-accepted".into(),
                        format!("accepted offline on a cached credential that is not sealed with this machine's key ({} without hsm binding)", SOFT_TAGS[tag as usize]),
                    ))
                }
                Some(_) => return Err(("C44:junk-credential-accepted".into(), "accepted offline on an undecodable credential".into())),
                None => {}
            },
        }
        match last_verified {
            None => Err(("C44:never-verified-password-accepted".into(), "accepted offline although no password was ever verified online for the account on this machine".into())),
            Some(p) if p != offered => Err((
                "C44:superseded-password-accepted".into(),
                format!("accepted password {offered} offline although the most recent password verified online is {p}"),
            )),
            Some(_) => Ok(()),
        }
    }
}

// ---------------------------------------------------------------------------------------------
// running one history on a real host

struct Slot {
    session: AuthSession,
    u: u64,
    /// what the oracle needs from the moment the attempt started
    held_at_init: Option<Value>,
    verified_at_init: Option<u64>,
    /// ops of the host that happened between init and step
    interleaved: bool,
}

#[derive(Default)]
struct CaseOut {
    lines: Vec<String>,
    /// per line: the implementation's reply in the model's format (None = nothing to compare)
    obs: Vec<Option<String>>,
    failures: Vec<Failure>,
    /// (non-triviality key or None) per login attempt
    attempts: Vec<Option<String>>,
    counts: Vec<String>,
}

async fn run_case(h: &Host, blobs: &Blobs, ops: &[Op], stream: &str) -> CaseOut {
    h.reset().await;
    let judge = Judge { blobs };
    let mut out = CaseOut::default();
    out.lines.push("reset".into());
    out.obs.push(None);
    let mut slots: BTreeMap<u64, Slot> = BTreeMap::new();
    let mut last_verified: HashMap<u64, u64> = HashMap::new();
    let pam = PamServiceInfo { service: "sshd".into(), tty: None, rhost: None };
    let net = |on: bool| if on { "on" } else { "off" };
    for (k, op) in ops.iter().enumerate() {
        let touches_host = !matches!(op, Op::Srv(..) | Op::SelfReply(_) | Op::TokFault(_) | Op::AuthFault(_));
        if touches_host && !matches!(op, Op::Step(..)) {
            for s in slots.values_mut() {
                s.interleaved = true;
            }
        }
        match op {
            Op::Srv(u, a) => {
                let mut m = h.mock.write().unwrap();
                match a {
                    Some(x) => {
                        m.accounts.insert(*u, *x);
                    }
                    None => {
                        m.accounts.remove(u);
                    }
                }
            }
            Op::SelfReply(kind) => h.mock.write().unwrap().self_kind = *kind,
            Op::TokFault(f) => h.mock.write().unwrap().tok_fault = f.clone(),
            Op::AuthFault(f) => h.mock.write().unwrap().auth_fault = f.clone(),
            Op::Inval => h.resolver.invalidate().await.expect("invalidate"),
            Op::Clear => h.resolver.clear_cache().await.expect("clear_cache"),
            Op::Offline => h.resolver.mark_offline().await,
            Op::NextCheck => h.resolver.mark_next_check_now(SystemTime::now() - Duration::from_millis(1)).await,
            Op::Plant(u, b) => h.plant(*u, blobs.value(b)).await,
            Op::Lookup(u) => {
                let r = h.resolver.get_nssaccount_name(&uname(*u)).await;
                let ans = match r {
                    Ok(Some(_)) => "some",
                    Ok(None) => "none",
                    Err(()) => "err",
                };
                let online = h.provider.is_online().await;
                let nx = h.resolver.check_nxcache(&Id::Name(uname(*u))).await.is_some();
                let (row, _) = h.row_desc(*u, blobs).await;
                let (evs, log) = drain_log(&h.mock);
                note_verified(&log, &mut last_verified);
                out.lines.push(op.line());
                out.obs.push(Some(format!("look {ans} {} {} {row} {evs}", net(online), nx as u8)));
                continue;
            }
            Op::Auth(u, p) => {
                let (_, held) = h.row_desc(*u, blobs).await;
                let lastv = last_verified.get(u).copied();
                let (_tx, rx) = tokio::sync::broadcast::channel(1);
                let init = h.resolver.pam_account_authenticate_init(&uname(*u), &pam, time::OffsetDateTime::now_utc(), rx).await;
                let (init_s, path, step_s) = match init {
                    Err(()) => ("err", "none", "-"),
                    Ok((mut sess, PamAuthResponse::Password)) => {
                        let path = session_path(&sess);
                        let r = h.resolver.pam_account_authenticate_step(&mut sess, PamAuthRequest::Password { cred: pstr(*p) }).await;
                        ("password", path, step_str(&r))
                    }
                    Ok((sess, PamAuthResponse::Unknown)) => ("unknown", session_path(&sess), "-"),
                    Ok((sess, _)) => ("other", session_path(&sess), "-"),
                };
                let online = h.provider.is_online().await;
                let (row, _) = h.row_desc(*u, blobs).await;
                let (evs, log) = drain_log(&h.mock);
                let verified_now = log.contains(&LogEv::Auth(*u, *p, true));
                note_verified(&log, &mut last_verified);
                out.lines.push(op.line());
                out.obs.push(Some(format!("auth {init_s} {path} {step_s} {} {row} {evs}", net(online))));
                out.counts.push(format!("attempt:{path}:{step_s}"));
                let mut key = None;
                if path == "offline" {
                    key = Some(format!("{stream}|{lastv:?}|{p}|{}|{step_s}|{}", blob_desc(blobs, held.as_ref()), prev_kinds(ops, k)));
                }
                out.attempts.push(key);
                if step_s == "success" && !verified_now {
                    if let Err((class, msg)) = judge.verdict(*p, lastv, held.as_ref()) {
                        out.failures.push(Failure {
                            kind: "impl-vs-oracle".into(),
                            class,
                            input: json!({"stream": stream, "ops": ops_json(&ops[..=k]), "attempt_index": k}),
                            expected: msg,
                            observed: format!("auth {init_s} {path} {step_s}"),
                        });
                    }
                }
                continue;
            }
            Op::Init(slot, u) => {
                let (_, held) = h.row_desc(*u, blobs).await;
                let lastv = last_verified.get(u).copied();
                let (_tx, rx) = tokio::sync::broadcast::channel(1);
                let init = h.resolver.pam_account_authenticate_init(&uname(*u), &pam, time::OffsetDateTime::now_utc(), rx).await;
                let (init_s, path) = match init {
                    Err(()) => {
                        slots.remove(slot);
                        ("err", "none")
                    }
                    Ok((sess, resp)) => {
                        let path = session_path(&sess);
                        let s = match resp {
                            PamAuthResponse::Password => "password",
                            PamAuthResponse::Unknown => "unknown",
                            _ => "other",
                        };
                        slots.insert(*slot, Slot { session: sess, u: *u, held_at_init: held, verified_at_init: lastv, interleaved: false });
                        (s, path)
                    }
                };
                let online = h.provider.is_online().await;
                let (row, _) = h.row_desc(*u, blobs).await;
                let (evs, log) = drain_log(&h.mock);
                note_verified(&log, &mut last_verified);
                out.lines.push(op.line());
                out.obs.push(Some(format!("init {init_s} {path} {} {row} {evs}", net(online))));
                continue;
            }
            Op::Step(slot, p, _) => {
                // a slot that holds no session cannot be stepped: the op is skipped on both sides
                let Some(s) = slots.get_mut(slot) else { continue };
                let u = s.u;
                let path = session_path(&s.session);
                let lastv = last_verified.get(&u).copied();
                let r = h.resolver.pam_account_authenticate_step(&mut s.session, PamAuthRequest::Password { cred: pstr(*p) }).await;
                let step_s = step_str(&r);
                let online = h.provider.is_online().await;
                let (row, _) = h.row_desc(u, blobs).await;
                let (evs, log) = drain_log(&h.mock);
                let verified_now = log.contains(&LogEv::Auth(u, *p, true));
                note_verified(&log, &mut last_verified);
                out.lines.push(Op::Step(*slot, *p, u).line());
                out.obs.push(Some(format!("step {step_s} {path} {} {row} {evs}", net(online))));
                out.counts.push(format!("attempt:{path}:{step_s}"));
                let s = slots.get(slot).unwrap();
                let mut key = None;
                if path == "offline" {
                    key = Some(format!(
                        "{stream}|{lastv:?}|{:?}|{p}|{}|{step_s}|{}|{}",
                        s.verified_at_init,
                        blob_desc(blobs, s.held_at_init.as_ref()),
                        s.interleaved as u8,
                        prev_kinds(ops, k)
                    ));
                }
                out.attempts.push(key);
                if step_s == "success" && !verified_now {
                    // the credential that was checked is the one the attempt started with
                    if let Err((class, msg)) = judge.verdict(*p, lastv, s.held_at_init.as_ref()) {
                        // the attempt was open while another login changed what "most recent" means
                        let stale = s.interleaved && judge.verdict(*p, s.verified_at_init, s.held_at_init.as_ref()).is_ok();
                        if stale {
                            out.counts.push("observed:stale-offline-session-accepts-superseded-password".into());
                        } else {
                            out.failures.push(Failure {
                                kind: "impl-vs-oracle".into(),
                                class,
                                input: json!({"stream": stream, "ops": ops_json(&ops[..=k]), "attempt_index": k}),
                                expected: msg,
                                observed: format!("step {step_s} {path}"),
                            });
                        }
                    }
                }
                continue;
            }
        }
        out.lines.push(op.line());
        out.obs.push(None);
    }
    out
}

fn step_str(r: &Result<PamAuthResponse, ()>) -> &'static str {
    match r {
        Ok(PamAuthResponse::Success) => "success",
        Ok(PamAuthResponse::Denied) => "denied",
        Ok(PamAuthResponse::Unknown) => "unknown",
        Ok(_) => "other",
        Err(()) => "err",
    }
}
fn note_verified(log: &[LogEv], last_verified: &mut HashMap<u64, u64>) {
    for e in log {
        if let LogEv::Auth(u, p, true) = e {
            last_verified.insert(*u, *p);
        }
    }
}
fn kind(op: &Op) -> &'static str {
    match op {
        Op::Srv(_, Some(_)) => "srv",
        Op::Srv(_, None) => "rm",
        Op::SelfReply(_) => "self",
        Op::TokFault(_) => "tf",
        Op::AuthFault(_) => "af",
        Op::Inval => "inval",
        Op::Clear => "clear",
        Op::Offline => "off",
        Op::NextCheck => "chk",
        Op::Lookup(_) => "look",
        Op::Plant(..) => "plant",
        Op::Auth(..) => "auth",
        Op::Init(..) => "init",
        Op::Step(..) => "step",
    }
}
fn prev_kinds(ops: &[Op], k: usize) -> String {
    ops[k.saturating_sub(3)..k].iter().map(kind).collect::<Vec<_>>().join(">")
}

// ---------------------------------------------------------------------------------------------
// generators

struct Gen {
    r: Rng,
    nusers: u64,
    /// what the generator believes the directory holds / the host last saw verified (only to
    /// aim the cases; the oracle does not use it)
    srv: HashMap<u64, u64>,
    seen: HashMap<u64, u64>,
    ops: Vec<Op>,
}
impl Gen {
    fn user(&mut self) -> u64 {
        if self.r.chance(1, 14) {
            self.nusers + 1
        } else {
            self.r.range(1, self.nusers)
        }
    }
    fn password_for(&mut self, u: u64) -> u64 {
        let cur = self.srv.get(&u).copied();
        let seen = self.seen.get(&u).copied();
        match self.r.below(10) {
            0..=3 => cur.unwrap_or(1),
            4..=6 => seen.or(cur).unwrap_or(1),
            7 => {
                // a near miss of the right one
                let b = seen.or(cur).unwrap_or(1);
                *self.r.pick(&[(b + 1) % NPW, (b + NPW - 1) % NPW])
            }
            _ => self.r.below(NPW),
        }
    }
    fn fault(&mut self) -> Fault {
        match self.r.below(10) {
            0..=3 => Fault::Tr,
            4 => Fault::Bad,
            5 => Fault::St(401, *self.r.pick(&[4u64, 5, 7])),
            6 => Fault::St(*self.r.pick(&[404u64, 400]), self.r.below(4)),
            7 => Fault::St(*self.r.pick(&[404u64, 400, 403, 500, 409]), self.r.below(8)),
            _ => Fault::None,
        }
    }
    fn blob(&mut self, u: u64) -> BlobSpec {
        let right = self.seen.get(&u).or(self.srv.get(&u)).copied().unwrap_or(1);
        let pw = if self.r.chance(2, 3) { right } else { self.r.below(NPW) };
        match self.r.below(12) {
            0..=5 => BlobSpec::Foreign { pw, key: self.r.range(1, 3) },
            6..=8 => BlobSpec::Soft { tag: self.r.below(2), pw },
            9 => BlobSpec::Junk,
            _ => BlobSpec::None,
        }
    }
    fn attempt(&mut self, u: u64) {
        let p = self.password_for(u);
        if self.srv.get(&u) == Some(&p) {
            // (may or may not reach the directory; good enough for aiming)
            self.seen.insert(u, p);
        }
        self.ops.push(Op::Auth(u, p));
    }
    fn go_offline(&mut self) {
        match self.r.below(6) {
            0 | 1 => self.ops.push(Op::Offline),
            2 => {
                self.ops.push(Op::SelfReply(*self.r.pick(&[2u64, 3])));
                self.ops.push(Op::NextCheck);
            }
            3 => {
                self.ops.push(Op::TokFault(Fault::Tr));
                self.ops.push(Op::Inval);
            }
            4 => {
                self.ops.push(Op::TokFault(Fault::St(401, 4)));
                self.ops.push(Op::SelfReply(2));
                self.ops.push(Op::Inval);
            }
            _ => {
                self.ops.push(Op::SelfReply(3));
                self.ops.push(Op::TokFault(Fault::Tr));
                self.ops.push(Op::AuthFault(Fault::Tr));
                self.ops.push(Op::NextCheck);
            }
        }
    }
    fn come_online(&mut self) {
        self.ops.push(Op::SelfReply(*self.r.pick(&[0u64, 0, 1])));
        self.ops.push(Op::TokFault(Fault::None));
        self.ops.push(Op::AuthFault(Fault::None));
        self.ops.push(Op::NextCheck);
    }
    fn background(&mut self) {
        let u = self.user();
        match self.r.below(20) {
            0..=3 => {
                let p = self.r.range(1, NPW - 1);
                self.srv.insert(u, p);
                self.ops.push(Op::Srv(u, Some((p, !self.r.chance(1, 6)))));
            }
            4 => {
                self.srv.remove(&u);
                self.ops.push(Op::Srv(u, None));
            }
            5..=7 => self.ops.push(Op::Lookup(u)),
            8..=9 => self.ops.push(Op::Inval),
            10 => self.ops.push(Op::Clear),
            11..=13 => {
                let b = self.blob(u);
                self.ops.push(Op::Plant(u, b));
            }
            14 => {
                let f = self.fault();
                self.ops.push(Op::TokFault(f));
            }
            15 => {
                let f = self.fault();
                self.ops.push(Op::AuthFault(f));
            }
            16 => self.ops.push(Op::NextCheck),
            17 => self.ops.push(Op::SelfReply(self.r.below(4))),
            _ => self.attempt(u),
        }
    }
}

/// Sequential histories: episodes of "online, something changes, offline, attempts, back".
fn gen_case(r: Rng, budget_bias: bool) -> Vec<Op> {
    let mut g = Gen { r, nusers: 2, srv: HashMap::new(), seen: HashMap::new(), ops: vec![] };
    g.nusers = g.r.range(1, 2);
    for u in 1..=g.nusers {
        if g.r.chance(9, 10) {
            let p = g.r.range(1, NPW - 1);
            g.srv.insert(u, p);
            g.ops.push(Op::Srv(u, Some((p, !g.r.chance(1, 8)))));
        }
    }
    let episodes = g.r.range(1, 3);
    for _ in 0..episodes {
        // online phase
        for _ in 0..g.r.range(1, 3) {
            if g.r.chance(2, 3) {
                let u = g.user();
                g.attempt(u);
            } else {
                g.background();
            }
        }
        // something changes on the server while the host may or may not notice
        if g.r.chance(1, 2) {
            let u = g.r.range(1, g.nusers);
            let p = g.r.range(1, NPW - 1);
            g.srv.insert(u, p);
            g.ops.push(Op::Srv(u, Some((p, true))));
            if g.r.chance(1, 3) {
                // the user tries the former password online: denied, nothing verified
                let old = g.seen.get(&u).copied().unwrap_or(1);
                g.ops.push(Op::Auth(u, old));
            }
        }
        g.go_offline();
        for _ in 0..g.r.range(1, if budget_bias { 4 } else { 3 }) {
            if g.r.chance(3, 4) {
                let u = g.r.range(1, g.nusers);
                g.attempt(u);
            } else {
                g.background();
            }
        }
        if g.r.chance(2, 3) {
            g.come_online();
        }
    }
    g.ops
}

/// Login attempts whose halves are separated by other events.
fn gen_interleaved(r: Rng) -> Vec<Op> {
    let mut g = Gen { r, nusers: 2, srv: HashMap::new(), seen: HashMap::new(), ops: vec![] };
    for u in 1..=2 {
        let p = g.r.range(1, NPW - 1);
        g.srv.insert(u, p);
        g.ops.push(Op::Srv(u, Some((p, true))));
    }
    let u0 = g.r.range(1, 2);
    g.attempt(u0);
    if g.r.chance(1, 3) {
        // a login attempt is opened offline and left at the password prompt; the directory comes
        // back, the password changes and is verified online; then the open attempt is answered
        let old = g.srv.get(&u0).copied().unwrap_or(1);
        g.ops.push(Op::Auth(u0, old));
        g.go_offline();
        g.ops.push(Op::Init(1, u0));
        g.come_online();
        let newp = 1 + (old % (NPW - 1));
        g.srv.insert(u0, newp);
        g.ops.push(Op::Srv(u0, Some((newp, true))));
        g.ops.push(Op::Auth(u0, newp));
        if g.r.chance(1, 2) {
            g.go_offline();
        }
        let offered = if g.r.chance(2, 3) { old } else { newp };
        g.ops.push(Op::Step(1, offered, u0));
        g.ops.push(Op::Auth(u0, old));
        return g.ops;
    }
    let mut open: Vec<(u64, u64)> = vec![];
    for _ in 0..g.r.range(6, 12) {
        match g.r.below(10) {
            0..=2 => {
                let slot = g.r.below(2);
                let u = g.user();
                open.retain(|(s, _)| *s != slot);
                open.push((slot, u));
                g.ops.push(Op::Init(slot, u));
            }
            3..=5 if !open.is_empty() => {
                let (slot, u) = *g.r.pick(&open);
                let p = g.password_for(u);
                g.ops.push(Op::Step(slot, p, u));
                if g.r.chance(3, 4) {
                    open.retain(|(s, _)| *s != slot);
                }
            }
            6 => g.go_offline(),
            7 => g.come_online(),
            _ => g.background(),
        }
    }
    for (slot, u) in open {
        let p = g.password_for(u);
        g.ops.push(Op::Step(slot, p, u));
    }
    g.ops
}

// ---------------------------------------------------------------------------------------------
// helper-level stream: the two public helpers with three machine keys

fn run_helpers(rep: &mut Report, drv: &mut Driver, args: &Args, replay: Option<&Value>) {
    let policy = CryptoPolicy::danger_test_minimum();
    let mut machines: Vec<SoftMachine> = (0..3).map(|_| soft_machine()).collect();
    let n = if replay.is_some() { 1 } else { args.cases(400, 4_000).min(20_000) };
    for i in 0..n {
        let mut r = Rng::for_case(args.seed ^ 0x44aa, i);
        // a token per machine; symbolic form of what its extra key holds
        let script: Vec<String> = match replay {
            Some(v) => v.as_array().unwrap().iter().map(|s| s.as_str().unwrap().to_string()).collect(),
            None => {
                let mut s = vec![];
                for _ in 0..r.range(6, 16) {
                    let m = r.below(3);
                    let p = r.range(0, 3);
                    s.push(match r.below(12) {
                        0..=2 => format!("seal {m} {p}"),
                        3..=6 => format!("check {m} {p}"),
                        7..=8 => format!("move {m} {}", r.below(3)),
                        9 => format!("soft {m} {} {p}", r.below(2)),
                        10 => format!("junk {m}"),
                        _ => format!("drop {m}"),
                    });
                }
                s
            }
        };
        let mut toks: Vec<UserToken> = (0..3).map(|_| blank_token(1)).collect();
        // symbolic: None | junk | (tag, pw, key)
        let mut sym: Vec<String> = vec!["-".into(); 3];
        let mut lines = vec![];
        let mut got = vec![];
        let mut meta = vec![];
        for s in &script {
            let t: Vec<&str> = s.split(' ').collect();
            let m: usize = t[1].parse().unwrap();
            match t[0] {
                "seal" => {
                    let p: u64 = t[2].parse().unwrap();
                    let mach = &mut machines[m];
                    toks[m].kanidm_update_cached_password(&policy, &pstr(p), &mut mach.tpm, &mach.hmac);
                    lines.push(format!("update {m} 1 {p}"));
                    let v = toks[m].extra_keys.get(PWV1_KEY);
                    let d = match v.and_then(|v| serde_json::from_value::<DbPasswordV1>(v.clone()).ok()) {
                        Some(db) => format!("k:{db:?}:{p}:{m}"),
                        None => "-".into(),
                    };
                    sym[m] = d.clone();
                    got.push(d);
                    meta.push(None);
                }
                "check" => {
                    let p: u64 = t[2].parse().unwrap();
                    let mach = &mut machines[m];
                    let ok = toks[m].kanidm_check_cached_password(&pstr(p), &mut mach.tpm, &mach.hmac);
                    lines.push(format!("check {m} {} {p}", sym[m]));
                    got.push((ok as u8).to_string());
                    meta.push(Some((m, p, ok)));
                }
                "move" => {
                    let to: usize = t[2].parse().unwrap();
                    let v = toks[m].extra_keys.get(PWV1_KEY).cloned();
                    match v {
                        Some(v) => {
                            toks[to].extra_keys.insert(PWV1_KEY.into(), v);
                        }
                        None => {
                            toks[to].extra_keys.remove(PWV1_KEY);
                        }
                    }
                    sym[to] = sym[m].clone();
                }
                "soft" => {
                    let tag: u64 = t[2].parse().unwrap();
                    let p: u64 = t[3].parse().unwrap();
                    toks[m].extra_keys.insert(PWV1_KEY.into(), soft_blob(tag, &policy, &pstr(p)));
                    sym[m] = format!("k:{}:{p}:0", SOFT_TAGS[tag as usize]);
                }
                "junk" => {
                    toks[m].extra_keys.insert(PWV1_KEY.into(), json!({"type": "TPM_ARGON2ID", "m": "x"}));
                    sym[m] = "junk".into();
                }
                _ => {
                    toks[m].extra_keys.remove(PWV1_KEY);
                    sym[m] = "-".into();
                }
            }
        }
        let replies = drv.ask_batch(&lines);
        let input = json!({"stream": "helpers", "script": script});
        for (((line, g), model), me) in lines.iter().zip(got.iter()).zip(replies.iter()).zip(meta.iter()) {
            rep.count("stream:helpers");
            let mut key = None;
            if let Some((m, p, ok)) = me {
                // oracle, from the text: accepted => the credential was sealed on this machine from this password
                let blob = line.split(' ').nth(2).unwrap();
                let parts: Vec<&str> = blob.split(':').collect();
                let sealed_here = parts.len() == 4 && parts[1] == "TPM_ARGON2ID" && parts[3] == m.to_string();
                let same_pw = parts.len() == 4 && parts[2] == p.to_string();
                rep.count(&format!("helper-check:{}", if *ok { "accept" } else { "reject" }));
                if parts.len() == 4 {
                    key = Some(format!("h|{}|{}|{}|{ok}", parts[1], sealed_here, same_pw));
                }
                if *ok && !(sealed_here && same_pw) {
                    let class = if !sealed_here && parts.len() == 4 && parts[1] != "TPM_ARGON2ID" {
                        "C44:unsealed-credential-accepted"
                    } else if !sealed_here {
                        "C44:foreign-key-credential-accepted"
                    } else {
                        "C44:superseded-password-accepted"
                    };
                    if rep.failures.iter().filter(|f| f.class == class).count() < 3 {
                    rep.fail(Failure {
                        kind: "impl-vs-oracle".into(),
                        class: class.into(),
                        input: input.clone(),
                        expected: format!("machine {m} must refuse password {p} on credential {blob}"),
                        observed: "accepted".into(),
                    });
                    }
                }
            }
            rep.case(key);
            if model != g && rep.failures.iter().filter(|f| f.kind == "impl-vs-model").count() < 10 {
                rep.fail(Failure { kind: "impl-vs-model".into(), class: "unclassified".into(), input: input.clone(), expected: format!("{line} -> {model}"), observed: g.clone() });
            }
        }
        if i % 997 == 0 {
            rep.sample(json!({"stream": "helpers", "script": script, "model_lines": lines, "impl": got}));
        }
    }
}

// ---------------------------------------------------------------------------------------------

fn compare(rep: &mut Report, drv: &mut Driver, idx: usize, stream: &str, ops: &[Op], out: &CaseOut, model_fail_cap: usize) {
    let replies = drv.ask_batch(&out.lines);
    for (i, (line, obs)) in out.lines.iter().zip(out.obs.iter()).enumerate() {
        let model = &replies[i];
        let bad = match obs {
            Some(o) => o != model,
            None => model != "ok",
        };
        if bad && rep.failures.iter().filter(|f| f.kind == "impl-vs-model").count() < model_fail_cap {
            rep.fail(Failure {
                kind: "impl-vs-model".into(),
                class: "unclassified".into(),
                input: json!({"stream": stream, "ops": ops_json(ops), "line_index": i, "lines": out.lines}),
                expected: format!("{line} -> {model}"),
                observed: obs.clone().unwrap_or_else(|| "ok".into()),
            });
        }
    }
    for c in &out.counts {
        rep.count(c);
    }
    for a in &out.attempts {
        rep.count(&format!("stream:{stream}"));
        rep.case(a.clone());
    }
    for f in &out.failures {
        if rep.failures.iter().filter(|g| g.class == f.class && g.input["stream"] == f.input["stream"]).count() < 2 {
            rep.fail(f.clone());
        }
    }
    if [0usize, 2, 5, 40].contains(&idx) {
        rep.sample(json!({"stream": stream, "history": out.lines, "impl": out.obs, "model": replies}));
    }
}

fn main() {
    std::env::set_var("KANIDM_DEV_YOLO", "1");
    let args = Args::parse();
    let dir = std::env::temp_dir().join(format!("verif-c44-{}", std::process::id()));
    std::fs::create_dir_all(&dir).unwrap();
    let mut drv = Driver::spawn(&args.driver);
    let mut rep = Report::new(
        "offline-cache",
        "each evaluation = one real login attempt (`pam_account_authenticate_init` + `_step` of the real Resolver inside a history on a real host: \
         sqlite cache, KanidmProvider with its own soft TPM, kanidm_client over HTTP to a mock directory) or one `kanidm_check_cached_password` call \
         (stream helpers); non-trivial = the attempt took the offline path (a cached credential exists, so the sealed KDF comparison decides) resp. the \
         helper was given a decodable credential; distinct = distinct (last password verified online, offered password, kind and sealing key of the held \
         credential, result, three preceding ops)",
    );
    let replay: Option<Value> = args.replay.as_ref().map(|p| serde_json::from_str::<Value>(&std::fs::read_to_string(p).unwrap()).unwrap()["input"].clone());

    if let Some(inp) = &replay {
        if inp["stream"] == "helpers" {
            run_helpers(&mut rep, &mut drv, &args, Some(&inp["script"]));
            rep.write(&args.out);
            println!("c44 replay: {} cases, {} failures", rep.evaluations, rep.failures.len());
            return;
        }
    } else {
        run_helpers(&mut rep, &mut drv, &args, None);
    }

    // credentials sealed elsewhere: key 1 = another real host (its own provider, TPM, KDF policy),
    // keys 2 and 3 = soft TPMs with the cheapest policy; unsealed ones; junk
    let nworkers: usize = if replay.is_some() { 1 } else { std::thread::available_parallelism().map(|n| n.get()).unwrap_or(4).clamp(2, 12) };
    let t0 = std::time::Instant::now();
    let donor_dir = dir.clone();
    let donor = std::thread::spawn(move || {
        let rt = tokio::runtime::Builder::new_current_thread().enable_all().build().unwrap();
        rt.block_on(async {
            let h = build_host(&donor_dir, "donor").await;
            h.reset().await;
            let empty = Blobs { foreign: HashMap::new(), soft: HashMap::new(), junk: Value::Null };
            let mut made = HashMap::new();
            for p in 0..NPW {
                let ops = vec![Op::Srv(1, Some((p, true))), Op::Auth(1, p)];
                let _ = run_case_keep(&h, &empty, &ops).await;
                let (_, v) = h.row_desc(1, &empty).await;
                made.insert((p, 1u64), v.expect("donor credential"));
            }
            made
        })
    });
    let policy = CryptoPolicy::danger_test_minimum();
    let mut foreign: HashMap<(u64, u64), Value> = HashMap::new();
    let mut soft = HashMap::new();
    for key in 2..=3u64 {
        let mut m = soft_machine();
        for p in 0..NPW {
            foreign.insert((p, key), seal(&mut m, &policy, &pstr(p)));
        }
    }
    for tag in 0..2u64 {
        for p in 0..NPW {
            soft.insert((tag, p), soft_blob(tag, &policy, &pstr(p)));
        }
    }
    foreign.extend(donor.join().expect("donor host"));
    let blobs = Arc::new(Blobs { foreign, soft, junk: json!({"type": "TPM_ARGON2ID", "m": "not a number"}) });

    // the cases of this run
    let mut cases: Vec<(String, Vec<Op>)> = vec![];
    if let Some(inp) = &replay {
        cases.push((inp["stream"].as_str().unwrap_or("resolver").to_string(), ops_from(&inp["ops"])));
    } else {
        // regression corpus: the witnesses of the defects found while building this check (now
        // repaired in /repo) and the scenarios of the property text, as fixed histories
        for (stream, h) in [
            // an unsealed credential (PBKDF2 / ARGON2ID) of the right or of a never verified password
            ("resolver", "srv 1 4 1|auth 1 4|authfault bad|selfkind 2|nextcheck|auth 1 4|plant 1 k:PBKDF2:4:0|auth 1 4|plant 1 k:ARGON2ID:7:0|auth 1 7|auth 1 4"),
            // the row of another machine (real host, soft TPMs) for the right password
            ("resolver", "srv 1 4 1|auth 1 4|offline|auth 1 4|plant 1 k:TPM_ARGON2ID:4:1|auth 1 4|plant 1 k:TPM_ARGON2ID:4:2|auth 1 4|plant 1 k:TPM_ARGON2ID:4:3|auth 1 4|plant 1 junk|auth 1 4|plant 1 -|auth 1 4"),
            // server-side change: the former password keeps working offline until the new one is verified online
            ("resolver", "srv 1 1 1|auth 1 1|srv 1 2 1|auth 1 1|offline|auth 1 1|auth 1 2|nextcheck|inval|auth 1 2|offline|auth 1 1|auth 1 2|auth 1 3"),
            // removed account: the row is purged on the next refresh, nothing is accepted afterwards
            ("resolver", "srv 1 5 1|auth 1 5|srv 1 - 0|inval|lookup 1|offline|auth 1 5|clear|auth 1 5"),
            // cleared cache
            ("resolver", "srv 1 5 1|auth 1 5|offline|auth 1 5|clear|auth 1 5|nextcheck|auth 1 5|offline|auth 1 5"),
            // an attempt left open offline while another login verifies a new password online
            ("interleaved", "srv 1 5 1|auth 1 5|offline|init 0 1|nextcheck|inval|srv 1 6 1|auth 1 6|offline|step 0 5 1|auth 1 5|auth 1 6"),
        ] {
            cases.push((stream.to_string(), h.split('|').map(Op::parse).collect()));
        }
        let nr = args.cases(140, 2_400).min(3_000);
        for i in 0..nr {
            cases.push(("resolver".into(), gen_case(Rng::for_case(args.seed ^ 0x44, i), args.budget > 1)));
        }
        let ni = args.cases(30, 500).min(800);
        for i in 0..ni {
            cases.push(("interleaved".into(), gen_interleaved(Rng::for_case(args.seed ^ 0x4411, i))));
        }
    }
    let cases = Arc::new(cases);
    let next = Arc::new(Mutex::new(0usize));
    let results: Arc<Mutex<BTreeMap<usize, CaseOut>>> = Arc::new(Mutex::new(BTreeMap::new()));
    let mut handles = vec![];
    for w in 0..nworkers {
        let (cases, next, results, blobs, dir) = (cases.clone(), next.clone(), results.clone(), blobs.clone(), dir.clone());
        handles.push(std::thread::spawn(move || {
            let rt = tokio::runtime::Builder::new_current_thread().enable_all().build().unwrap();
            rt.block_on(async {
                let h = build_host(&dir, &format!("w{w}")).await;
                loop {
                    let i = {
                        let mut n = next.lock().unwrap();
                        let i = *n;
                        *n += 1;
                        i
                    };
                    if i >= cases.len() {
                        break;
                    }
                    let out = run_case(&h, &blobs, &cases[i].1, &cases[i].0).await;
                    results.lock().unwrap().insert(i, out);
                }
            })
        }));
    }
    for h in handles {
        h.join().expect("worker");
    }
    let results = std::mem::take(&mut *results.lock().unwrap());
    for (i, out) in &results {
        compare(&mut rep, &mut drv, *i, &cases[*i].0, &cases[*i].1, out, 20);
    }
    rep.model_requests = drv.requests;
    rep.note(format!(
        "{} hosts (Db + SoftTpm + KanidmProvider + Resolver + mock directory each) ran {} histories in {:.1} s; foreign credentials: 8 sealed by another real host, 16 by two soft TPMs; 16 unsealed (ARGON2ID, PBKDF2)",
        nworkers,
        cases.len(),
        t0.elapsed().as_secs_f64()
    ));
    rep.write(&args.out);
    let _ = std::fs::remove_dir_all(&dir);
    println!("c44: {} cases, {} failures", rep.evaluations, rep.failures.len());
}

/// `run_case` without a reset of the mock's accounts in between (donor set-up)
async fn run_case_keep(h: &Host, blobs: &Blobs, ops: &[Op]) -> CaseOut {
    run_case(h, blobs, ops, "setup").await
}
