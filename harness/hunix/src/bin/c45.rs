//! C45 — correspondence + oracle for the host-login authorisation of the unix resolver.
//!
//! Two streams (one report), both against the real crates `sparkle_resolver_common` /
//! `sparkle_unix_common` / `kanidm_client`:
//!
//! * `authorise`: the real `KanidmProvider::unix_user_authorise` (through the `IdProvider` trait)
//!   on random allowed-login lists and random `UserToken`s (duplicate groups, groups whose name
//!   looks like another group's uuid, case variants, spn / gid / un-hyphenated spellings …);
//!   an exhaustive small scope first.
//! * `resolver`: the real `Resolver::pam_account_allowed`, end to end: real `SystemProvider`
//!   loaded with passwd entries, real sqlite cache (`Db`, optionally pre-seeded rows), real
//!   `KanidmProvider` talking HTTP (real `kanidm_client`) to an in-process mock of
//!   `GET /v1/self` and `GET /v1/account/{id}/_unix/_token`.  A case is a history: the directory
//!   changes / breaks, the administrator invalidates the cache or forces the provider offline /
//!   online, PAM asks.  Every query is answered by the implementation and by the Lean model
//!   (`km_c45`, same history) and judged by an oracle written from the property text only.
use hunix::*;
use kanidm_client::KanidmClientBuilder;
use kanidm_hsm_crypto::{
    provider::{BoxedDynTpm, SoftTpm, Tpm},
    AuthValue,
};
use kanidm_proto::internal::OperationError;
use kanidm_proto::v1::{UnixGroupToken, UnixUserToken};
use serde_json::{json, Value};
use sparkle_resolver_common::db::{Cache, Db};
use sparkle_resolver_common::idprovider::interface::{GroupToken, Id, IdProvider, ProviderOrigin, UserToken};
use sparkle_resolver_common::idprovider::kanidm::KanidmProvider;
use sparkle_resolver_common::idprovider::system::SystemProvider;
use sparkle_resolver_common::resolver::Resolver;
use sparkle_unix_common::constants::{
    DEFAULT_CACHE_TIMEOUT, DEFAULT_GID_ATTR_MAP, DEFAULT_HOME_ALIAS, DEFAULT_HOME_ATTR, DEFAULT_HOME_PREFIX,
    DEFAULT_SHELL, DEFAULT_UID_ATTR_MAP,
};
use sparkle_unix_common::unix_config::KanidmConfig;
use sparkle_unix_common::unix_passwd::EtcUser;
use sparkle_unix_common::unix_proto::PamServiceInfo;
use std::collections::{BTreeMap, HashMap};
use std::sync::{Arc, RwLock};
use std::time::{Duration, SystemTime};
use tokio::io::{AsyncReadExt, AsyncWriteExt};
use tokio::net::TcpListener;
use uuid::Uuid;

// ---------------------------------------------------------------------------------------------
// atoms <-> strings (injective; the model only ever compares atoms for equality)

const VARIANTS: u64 = 8;

fn guuid(b: u64) -> Uuid {
    Uuid::parse_str(&format!("00000000-0000-4000-8000-{:012x}", 0xabc000u64 + b)).unwrap()
}
/// Key atoms: eight spellings per group index `b = a / 8`.  Variant 0 is the plain name, variant 1
/// the hyphenated lower-case uuid (the only uuid spelling a `GroupToken`'s uuid produces); the
/// others are near misses that the property's "by name or UUID" might be misread to include.
fn kstr(a: u64) -> String {
    let b = a / VARIANTS;
    match a % VARIANTS {
        0 => format!("grp{b}"),
        1 => guuid(b).hyphenated().to_string(),
        2 => format!("Grp{b}"),
        3 => guuid(b).hyphenated().to_string().to_uppercase(),
        4 => guuid(b).simple().to_string(),
        5 => format!("grp{b}@example.com"),
        6 => format!("grp{b} "),
        _ => format!("{}", 30000 + b),
    }
}
fn uname(u: u64) -> String {
    format!("usr{u}")
}
fn uuuid(u: u64) -> Uuid {
    Uuid::parse_str(&format!("00000000-0000-4000-9000-{u:012x}")).unwrap()
}

/// A group of a token: index `b` (fixes uuid, spn, gid) and the atom of its *name*.
#[derive(Clone, Copy, Debug, PartialEq, Eq, PartialOrd, Ord)]
struct G {
    b: u64,
    name: u64,
}
impl G {
    fn uuid_atom(&self) -> u64 {
        self.b * VARIANTS + 1
    }
    fn line(&self) -> String {
        format!("{}/{}", self.name, self.uuid_atom())
    }
    fn group_token(&self) -> GroupToken {
        GroupToken {
            provider: ProviderOrigin::Kanidm,
            name: kstr(self.name),
            spn: format!("grp{}@example.com", self.b),
            uuid: guuid(self.b),
            gidnumber: 30000 + self.b as u32,
            extra_keys: Default::default(),
        }
    }
    fn unix_group_token(&self) -> UnixGroupToken {
        UnixGroupToken { name: kstr(self.name), spn: format!("grp{}@example.com", self.b), uuid: guuid(self.b), gidnumber: 30000 + self.b as u32 }
    }
}
fn groups_line(gs: &[G]) -> String {
    if gs.is_empty() {
        "-".into()
    } else {
        gs.iter().map(|g| g.line()).collect::<Vec<_>>().join("+")
    }
}
fn list_line(v: &[u64]) -> String {
    if v.is_empty() {
        "-".into()
    } else {
        v.iter().map(|x| x.to_string()).collect::<Vec<_>>().join(",")
    }
}
fn gs_json(gs: &[G]) -> Value {
    Value::Array(gs.iter().map(|g| json!([g.b, g.name])).collect())
}
fn gs_from(v: &Value) -> Vec<G> {
    v.as_array().unwrap().iter().map(|g| G { b: g[0].as_u64().unwrap(), name: g[1].as_u64().unwrap() }).collect()
}
fn u64s(v: &Value) -> Vec<u64> {
    v.as_array().unwrap().iter().map(|x| x.as_u64().unwrap()).collect()
}

fn user_token(u: u64, provider: ProviderOrigin, gs: &[G], valid: bool) -> UserToken {
    UserToken {
        provider,
        name: uname(u),
        spn: format!("usr{u}@example.com"),
        uuid: uuuid(u),
        gidnumber: 20000 + u as u32,
        displayname: format!("User {u}"),
        shell: None,
        groups: gs.iter().map(|g| g.group_token()).collect(),
        sshkeys: vec![],
        valid,
        extra_keys: Default::default(),
    }
}

// ---------------------------------------------------------------------------------------------
// the property, from its text only
//
// "A directory user may log in to a host only if the user's current account record is valid and
//  the user belongs, by name or UUID, to at least one group in the host's allowed-login list; an
//  empty list admits no directory users."
//
// The reading of "by name or UUID" is deliberately the most liberal one (exact name, or any
// spelling `Uuid::parse_str` accepts): the oracle checks the *only if*, so a liberal reading can
// only make it quieter, never louder, than a strict one.
fn belongs(allow: &[String], gs: &[(String, Uuid)]) -> bool {
    gs.iter().any(|(name, uuid)| allow.iter().any(|a| a == name || Uuid::parse_str(a.trim()).map(|x| x == *uuid).unwrap_or(false)))
}
/// `record` = the user's current account record as far as the host can know it (None = none).
fn oracle(allow: &[String], record: Option<(&[(String, Uuid)], bool)>, answer: &str) -> Result<(), String> {
    if answer != "1" {
        return Ok(());
    }
    if allow.is_empty() {
        return Err("allowed although the allowed-login list is empty".into());
    }
    match record {
        None => Err("allowed although the user has no current account record".into()),
        Some((_, false)) => Err("allowed although the current account record is not valid".into()),
        Some((gs, true)) => {
            if belongs(allow, gs) {
                Ok(())
            } else {
                Err("allowed although the user is in no group of the allowed-login list".into())
            }
        }
    }
}
fn classify(msg: &str) -> String {
    if msg.contains("list is empty") {
        "C45:empty-list-admits".into()
    } else if msg.contains("not valid") {
        "C45:invalid-record-admitted".into()
    } else if msg.contains("no current account record") {
        "C45:no-record-admitted".into()
    } else if msg.contains("in no group") {
        "C45:non-member-admitted".into()
    } else {
        "unclassified".into()
    }
}
fn named(gs: &[G]) -> Vec<(String, Uuid)> {
    gs.iter().map(|g| (kstr(g.name), guuid(g.b))).collect()
}

// ---------------------------------------------------------------------------------------------
// mock of the kanidm server

#[derive(Clone, Debug, PartialEq)]
enum DirEntry {
    Tok(bool, Vec<G>),
    /// connection dropped
    Transport,
    /// status, index into `OE` (the OperationError body)
    Status(u64, u64),
    /// 200 with an undecodable body
    Bad,
}
/// (lower-cased variant name as the model's table spells it, JSON body)
fn oe_table() -> Vec<(String, String)> {
    let j = |e: &OperationError| serde_json::to_string(e).unwrap();
    vec![
        ("nomatchingentries".into(), j(&OperationError::NoMatchingEntries)),
        ("missingattribute".into(), j(&OperationError::MissingAttribute(kanidm_proto::attribute::Attribute::GidNumber))),
        ("missingclass".into(), j(&OperationError::MissingClass("posixaccount".into()))),
        ("invalidaccountstate".into(), j(&OperationError::InvalidAccountState("no posix".into()))),
        ("notauthenticated".into(), j(&OperationError::NotAuthenticated)),
        ("sessionexpired".into(), j(&OperationError::SessionExpired)),
        ("accessdenied".into(), j(&OperationError::AccessDenied)),
        ("-".into(), "\"status\"".into()),
    ]
}
impl DirEntry {
    fn line(&self, oe: &[(String, String)]) -> String {
        match self {
            DirEntry::Tok(v, gs) => format!("tok:{}:{}", *v as u8, groups_line(gs)),
            DirEntry::Transport => "tr".into(),
            DirEntry::Status(c, i) => format!("st:{c}:{}", oe[*i as usize].0),
            DirEntry::Bad => "bad".into(),
        }
    }
    fn to_json(&self) -> Value {
        match self {
            DirEntry::Tok(v, gs) => json!({"tok": gs_json(gs), "valid": v}),
            DirEntry::Transport => json!("tr"),
            DirEntry::Status(c, i) => json!({"st": [c, i]}),
            DirEntry::Bad => json!("bad"),
        }
    }
    fn from_json(v: &Value) -> DirEntry {
        if let Some(t) = v.get("tok") {
            DirEntry::Tok(v["valid"].as_bool().unwrap(), gs_from(t))
        } else if let Some(s) = v.get("st") {
            DirEntry::Status(s[0].as_u64().unwrap(), s[1].as_u64().unwrap())
        } else if v == "tr" {
            DirEntry::Transport
        } else {
            DirEntry::Bad
        }
    }
}

#[derive(Clone)]
enum MockReply {
    Json(u16, String),
    Drop,
}
/// What the mock handed out last for an account: a record, or "gone" — only these two change
/// what the host knows about the user's account record.
#[derive(Clone, Debug)]
enum Served {
    Record(bool, Vec<G>),
    Gone,
}
#[derive(Default)]
struct MockState {
    tokens: HashMap<String, (MockReply, Option<Served>)>,
    self_reply: Option<MockReply>,
    served: HashMap<String, Served>,
    token_requests: u64,
}
type Mock = Arc<RwLock<MockState>>;

async fn serve(listener: TcpListener, mock: Mock) {
    loop {
        let (mut sock, _) = match listener.accept().await {
            Ok(x) => x,
            Err(_) => continue,
        };
        let mock = mock.clone();
        tokio::spawn(async move {
            let mut buf: Vec<u8> = Vec::new();
            let mut tmp = [0u8; 4096];
            loop {
                let head_end = loop {
                    if let Some(p) = buf.windows(4).position(|w| w == b"\r\n\r\n") {
                        break Some(p + 4);
                    }
                    match sock.read(&mut tmp).await {
                        Ok(0) | Err(_) => break None,
                        Ok(n) => buf.extend_from_slice(&tmp[..n]),
                    }
                };
                let Some(end) = head_end else { return };
                let head = String::from_utf8_lossy(&buf[..end]).to_string();
                buf.drain(..end);
                let path = head.split_whitespace().nth(1).unwrap_or("").to_string();
                let reply = {
                    let mut m = mock.write().unwrap();
                    if path == "/v1/self" {
                        m.self_reply.clone().unwrap_or(MockReply::Json(200, "{\"youare\":{\"attrs\":{}}}".into()))
                    } else if let Some(id) = path.strip_prefix("/v1/account/").and_then(|s| s.strip_suffix("/_unix/_token")) {
                        m.token_requests += 1;
                        let (r, s) = m
                            .tokens
                            .get(id)
                            .cloned()
                            .unwrap_or((MockReply::Json(404, "\"nomatchingentries\"".into()), Some(Served::Gone)));
                        if let Some(s) = s {
                            m.served.insert(id.to_string(), s);
                        }
                        r
                    } else {
                        MockReply::Json(500, "\"unexpected path\"".into())
                    }
                };
                match reply {
                    MockReply::Drop => return,
                    MockReply::Json(code, body) => {
                        let msg = format!(
                            "HTTP/1.1 {code} Status\r\ncontent-type: application/json\r\nx-kanidm-version: verif\r\ncontent-length: {}\r\n\r\n{body}",
                            body.len()
                        );
                        if sock.write_all(msg.as_bytes()).await.is_err() {
                            return;
                        }
                    }
                }
            }
        });
    }
}

// ---------------------------------------------------------------------------------------------
// a real host

/// A real host for one allowed-login list.  Building one costs ~1.4 s (`KanidmProvider::new`
/// calibrates argon2 against the wall clock), so hosts are built once per list, in parallel, and
/// put back into the start state before every history (`reset_host`).
struct Host {
    resolver: Resolver,
    provider: Arc<KanidmProvider>,
    /// second connection to the host's cache database (rows present "when the daemon starts")
    seed_db: Db,
}

#[derive(Clone, Debug, PartialEq)]
struct Seed {
    u: u64,
    known: bool,
    valid: bool,
    expired: bool,
    gs: Vec<G>,
}

async fn build_host(uri: String, allow: Vec<u64>, db_path: String) -> Host {
    let client = KanidmClientBuilder::new()
        .address(uri)
        .enable_native_ca_roots(false)
        .no_proxy()
        .build()
        .expect("client");
    let _ = std::fs::remove_file(&db_path);
    let db = Db::new(&db_path).expect("db");
    let mut dbtxn = db.write().await;
    dbtxn.migrate().expect("migrate");
    let mut hsm = BoxedDynTpm::new(SoftTpm::default());
    let auth_value = AuthValue::ephemeral().unwrap();
    let lmk = hsm.root_storage_key_create(&auth_value).unwrap();
    let machine_key = hsm.root_storage_key_load(&auth_value, &lmk).unwrap();
    let system_provider = SystemProvider::new().unwrap();
    let provider = KanidmProvider::new(
        client,
        &KanidmConfig {
            conn_timeout: 2,
            request_timeout: 2,
            pam_allowed_login_groups: allow.iter().map(|a| kstr(*a)).collect(),
            map_group: vec![],
            service_account_token: Some("verif-token".into()),
        },
        SystemTime::now(),
        &mut (&mut dbtxn).into(),
        &mut hsm,
        &machine_key,
    )
    .await
    .expect("provider");
    drop(machine_key);
    dbtxn.commit().expect("commit");
    let provider = Arc::new(provider);
    let (resolver, _rx) = Resolver::new(
        db,
        Arc::new(system_provider),
        vec![provider.clone()],
        hsm,
        DEFAULT_CACHE_TIMEOUT,
        DEFAULT_SHELL.to_string(),
        DEFAULT_HOME_PREFIX.into(),
        DEFAULT_HOME_ATTR,
        DEFAULT_HOME_ALIAS,
        DEFAULT_UID_ATTR_MAP,
        DEFAULT_GID_ATTR_MAP,
    )
    .await
    .expect("resolver");
    let seed_db = Db::new(&db_path).expect("second db handle");
    Host { resolver, provider, seed_db }
}

/// Put a host into the start state of a history: empty cache and nxcache, the given rows in the
/// cache database, the given passwd entries, provider due for an online check.
async fn reset_host(h: &Host, sys: &[u64], seeds: &[Seed]) {
    h.resolver.clear_cache().await.expect("clear_cache");
    if !seeds.is_empty() {
        let mut dbtxn = h.seed_db.write().await;
        let now = SystemTime::now().duration_since(SystemTime::UNIX_EPOCH).unwrap().as_secs();
        for s in seeds {
            let ex = if s.expired { now - 1000 } else { now + 250 };
            let tok = user_token(s.u, if s.known { ProviderOrigin::Kanidm } else { ProviderOrigin::System }, &s.gs, s.valid);
            for g in &tok.groups {
                dbtxn.update_group(g, ex).expect("seed group");
            }
            dbtxn.update_account(&tok, ex).expect("seed account");
        }
        dbtxn.commit().expect("commit");
    }
    let users = sys
        .iter()
        .map(|u| EtcUser {
            name: uname(*u),
            password: "x".into(),
            uid: 1000 + *u as u32,
            gid: 1000 + *u as u32,
            gecos: String::new(),
            homedir: format!("/home/{}", uname(*u)),
            shell: "/bin/sh".into(),
        })
        .collect();
    h.resolver.reload_system_identities(users, vec![], vec![]).await;
    h.resolver.mark_next_check_now(SystemTime::now() - Duration::from_millis(1)).await;
}

// ---------------------------------------------------------------------------------------------
// histories

#[derive(Clone, Debug, PartialEq)]
enum Op {
    Dir(u64, DirEntry),
    /// 0 = 200, 1 = 401 (both count as an answer), 2 = 500, 3 = dropped
    SelfReply(u64),
    Inval,
    Offline,
    NextCheck,
    Query(u64),
}
impl Op {
    fn to_json(&self) -> Value {
        match self {
            Op::Dir(u, e) => json!({"dir": u, "e": e.to_json()}),
            Op::SelfReply(k) => json!({"self": k}),
            Op::Inval => json!("inval"),
            Op::Offline => json!("offline"),
            Op::NextCheck => json!("nextcheck"),
            Op::Query(u) => json!({"q": u}),
        }
    }
    fn from_json(v: &Value) -> Op {
        if let Some(u) = v.get("dir") {
            Op::Dir(u.as_u64().unwrap(), DirEntry::from_json(&v["e"]))
        } else if let Some(k) = v.get("self") {
            Op::SelfReply(k.as_u64().unwrap())
        } else if let Some(u) = v.get("q") {
            Op::Query(u.as_u64().unwrap())
        } else if v == "inval" {
            Op::Inval
        } else if v == "offline" {
            Op::Offline
        } else {
            Op::NextCheck
        }
    }
}

#[derive(Clone, Debug, PartialEq)]
struct Case {
    allow: Vec<u64>,
    sys: Vec<u64>,
    seeds: Vec<Seed>,
    ops: Vec<Op>,
}
impl Case {
    fn to_json(&self) -> Value {
        json!({
            "allow": self.allow, "sys": self.sys,
            "seeds": self.seeds.iter().map(|s| json!({"u": s.u, "known": s.known, "valid": s.valid, "expired": s.expired, "gs": gs_json(&s.gs)})).collect::<Vec<_>>(),
            "ops": self.ops.iter().map(|o| o.to_json()).collect::<Vec<_>>(),
        })
    }
    fn from_json(v: &Value) -> Case {
        Case {
            allow: u64s(&v["allow"]),
            sys: u64s(&v["sys"]),
            seeds: v["seeds"]
                .as_array()
                .unwrap()
                .iter()
                .map(|s| Seed {
                    u: s["u"].as_u64().unwrap(),
                    known: s["known"].as_bool().unwrap(),
                    valid: s["valid"].as_bool().unwrap(),
                    expired: s["expired"].as_bool().unwrap(),
                    gs: gs_from(&s["gs"]),
                })
                .collect(),
            ops: v["ops"].as_array().unwrap().iter().map(Op::from_json).collect(),
        }
    }
}

struct Ctx {
    rt: tokio::runtime::Runtime,
    mock: Mock,
    uri: String,
    drv: Driver,
    rep: Report,
    oe: Vec<(String, String)>,
    hosts_built: u64,
    hosts: HashMap<Vec<u64>, Arc<Host>>,
    dir: std::path::PathBuf,
}

impl Ctx {
    /// Build the hosts for these allowed-login lists concurrently (those not built yet).
    fn prebuild(&mut self, lists: &[Vec<u64>]) {
        let mut todo: Vec<Vec<u64>> = vec![];
        for l in lists {
            if !self.hosts.contains_key(l) && !todo.contains(l) {
                todo.push(l.clone());
            }
        }
        let uri = self.uri.clone();
        let base = self.hosts_built;
        let dir = self.dir.clone();
        let built: Vec<(Vec<u64>, Host)> = self.rt.block_on(async {
            let mut set = tokio::task::JoinSet::new();
            for (i, l) in todo.into_iter().enumerate() {
                let uri = uri.clone();
                let path = dir.join(format!("host{}.db", base + i as u64)).to_string_lossy().to_string();
                set.spawn(async move {
                    let h = build_host(uri, l.clone(), path).await;
                    (l, h)
                });
            }
            let mut out = vec![];
            while let Some(r) = set.join_next().await {
                out.push(r.expect("host build task"));
            }
            out
        });
        for (l, h) in built {
            self.hosts_built += 1;
            self.hosts.insert(l, Arc::new(h));
        }
    }
    fn host(&mut self, allow: &[u64]) -> Arc<Host> {
        if !self.hosts.contains_key(allow) {
            self.prebuild(&[allow.to_vec()]);
        }
        self.hosts.get(allow).unwrap().clone()
    }

    fn fail_model(&mut self, input: Value, expected: String, observed: String) {
        self.rep.fail(Failure { kind: "impl-vs-model".into(), class: "unclassified".into(), input, expected, observed });
    }

    /// One history on a fresh real host and on the model.
    fn run_case(&mut self, c: &Case, tag: &str) {
        {
            let mut m = self.mock.write().unwrap();
            *m = MockState::default();
        }
        let host = self.host(&c.allow);
        self.rt.block_on(reset_host(&host, &c.sys, &c.seeds));
        let allow_s: Vec<String> = c.allow.iter().map(|a| kstr(*a)).collect();
        // what the host can know about each account: seeded rows first
        let mut lines = vec![format!("reset {} {}", list_line(&c.sys), list_line(&c.allow))];
        // later seeds for the same account overwrite earlier ones in the database
        for s in &c.seeds {
            lines.push(format!("seed {} {} {} {} {}", s.u, s.known as u8, s.valid as u8, s.expired as u8, groups_line(&s.gs)));
        }
        let mut expect_ok = lines.len();
        let mut observed: Vec<(usize, u64, String)> = vec![]; // (line index, user, impl reply)
        let pam = PamServiceInfo { service: "sshd".into(), tty: None, rhost: None };
        let mut records: BTreeMap<u64, Option<(bool, Vec<G>)>> = BTreeMap::new();
        for s in &c.seeds {
            records.insert(s.u, Some((s.valid, s.gs.clone())));
        }
        let mut oracle_view: Vec<Option<(bool, Vec<G>)>> = vec![];
        for op in &c.ops {
            match op {
                Op::Dir(u, e) => {
                    let (reply, served) = match e {
                        DirEntry::Tok(v, gs) => {
                            let t = UnixUserToken {
                                name: uname(*u),
                                spn: format!("usr{u}@example.com"),
                                displayname: format!("User {u}"),
                                gidnumber: 20000 + *u as u32,
                                uuid: uuuid(*u),
                                shell: None,
                                groups: gs.iter().map(|g| g.unix_group_token()).collect(),
                                sshkeys: vec![],
                                valid: *v,
                            };
                            (MockReply::Json(200, serde_json::to_string(&t).unwrap()), Some(Served::Record(*v, gs.clone())))
                        }
                        DirEntry::Transport => (MockReply::Drop, None),
                        DirEntry::Status(code, i) => {
                            let body = self.oe[*i as usize].1.clone();
                            // for the oracle every other error reply leaves the last known record in force
                            // 404 "no matching entries" is the directory saying the account does not exist
                            let gone = *code == 404 && *i == 0;
                            (MockReply::Json(*code as u16, body), if gone { Some(Served::Gone) } else { None })
                        }
                        DirEntry::Bad => (MockReply::Json(200, "{\"name\":7}".into()), None),
                    };
                    self.mock.write().unwrap().tokens.insert(uname(*u), (reply, served));
                    lines.push(format!("dir {u} {}", e.line(&self.oe)));
                    expect_ok += 1;
                }
                Op::SelfReply(k) => {
                    let r = match k {
                        0 => None,
                        1 => Some(MockReply::Json(401, "\"notauthenticated\"".into())),
                        2 => Some(MockReply::Json(500, "\"status\"".into())),
                        _ => Some(MockReply::Drop),
                    };
                    self.mock.write().unwrap().self_reply = r;
                    lines.push(format!("self {}", (*k < 2) as u8));
                    expect_ok += 1;
                }
                Op::Inval => {
                    self.rt.block_on(host.resolver.invalidate()).expect("invalidate");
                    lines.push("inval".into());
                    expect_ok += 1;
                }
                Op::Offline => {
                    self.rt.block_on(host.resolver.mark_offline());
                    lines.push("offline".into());
                    expect_ok += 1;
                }
                Op::NextCheck => {
                    self.rt.block_on(host.resolver.mark_next_check_now(SystemTime::now() - Duration::from_millis(1)));
                    lines.push("nextcheck".into());
                    expect_ok += 1;
                }
                Op::Query(u) => {
                    let name = uname(*u);
                    let (ans, online, nx) = self.rt.block_on(async {
                        let a = host.resolver.pam_account_allowed(&name, &pam).await;
                        let online = host.provider.is_online().await;
                        let nx = host.resolver.check_nxcache(&Id::Name(name.clone())).await.is_some();
                        (a, online, nx)
                    });
                    let ans = match ans {
                        Ok(Some(true)) => "1",
                        Ok(Some(false)) => "0",
                        Ok(None) => "none",
                        Err(()) => "err",
                    };
                    // fold what the mock handed out since the last look into the host's knowledge
                    {
                        let mut m = self.mock.write().unwrap();
                        for (id, s) in m.served.drain() {
                            let uu: u64 = id.trim_start_matches("usr").parse().unwrap_or(u64::MAX);
                            records.insert(
                                uu,
                                match s {
                                    Served::Record(v, gs) => Some((v, gs)),
                                    Served::Gone => None,
                                },
                            );
                        }
                    }
                    oracle_view.push(records.get(u).cloned().flatten());
                    observed.push((lines.len(), *u, format!("{ans} {} {}", if online { "on" } else { "off" }, nx as u8)));
                    lines.push(format!("q {u}"));
                }
            }
        }
        let _ = expect_ok;
        let replies = self.drv.ask_batch(&lines);
        let input = json!({"stream": "resolver", "case": c.to_json()});
        for (k, ((li, u, got), view)) in observed.iter().zip(oracle_view.iter()).enumerate() {
            let model = replies[*li].replace(" chk ", " off ");
            let ans = got.split(' ').next().unwrap_or("");
            let is_sys = c.sys.contains(u);
            self.rep.count(&format!("stream:{tag}"));
            self.rep.count(&format!("answer:{}{}", if is_sys { "sys:" } else { "" }, ans));
            let nontrivial = !is_sys && !c.allow.is_empty() && (ans == "1" || ans == "0") && view.as_ref().map(|(_, gs)| !gs.is_empty()).unwrap_or(false);
            if nontrivial {
                let (v, gs) = view.as_ref().unwrap();
                self.rep.case(Some(format!("r|{}|{}|{}|{ans}", list_line(&c.allow), *v as u8, groups_line(gs))));
                self.rep.count(&format!("allow-len:{}", c.allow.len().min(4)));
                self.rep.count(&format!("groups:{}", gs.len().min(5)));
            } else {
                self.rep.case(None);
            }
            if !is_sys {
                let named_gs = view.as_ref().map(|(v, gs)| (named(gs), *v));
                if let Err(msg) = oracle(&allow_s, named_gs.as_ref().map(|(g, v)| (g.as_slice(), *v)), ans) {
                    self.rep.fail(Failure {
                        kind: "impl-vs-oracle".into(),
                        class: classify(&msg),
                        input: json!({"stream": "resolver", "case": c.to_json(), "query_index": k}),
                        expected: msg,
                        observed: got.clone(),
                    });
                }
            }
            if model != *got {
                self.fail_model(
                    json!({"stream": "resolver", "case": c.to_json(), "query_index": k, "lines": lines}),
                    model.clone(),
                    got.clone(),
                );
            }
            if self.rep.evaluations % 1499 == 1 {
                self.rep.sample(json!({"history": lines, "query": format!("q {u}"), "impl": got, "model": model}));
            }
        }
        for (i, r) in replies.iter().enumerate() {
            if r == "bad-op" {
                self.fail_model(input.clone(), format!("model accepts line {i}"), format!("bad-op for `{}`", lines[i]));
            }
        }
    }

    /// Pure stream: the provider's decision on explicit tokens.
    fn run_auth(&mut self, allow: &[u64], toks: &[(bool, Vec<G>)], tag: &str) {
        let host = self.host(allow);
        let allow_s: Vec<String> = allow.iter().map(|a| kstr(*a)).collect();
        let lines: Vec<String> = toks.iter().map(|(v, gs)| format!("auth {} {} {}", list_line(allow), *v as u8, groups_line(gs))).collect();
        let replies = self.drv.ask_batch(&lines);
        for (((v, gs), line), model) in toks.iter().zip(lines.iter()).zip(replies.iter()) {
            let tok = user_token(1, ProviderOrigin::Kanidm, gs, *v);
            let got = match self.rt.block_on(host.provider.unix_user_authorise(&tok)) {
                Ok(Some(true)) => "1",
                Ok(Some(false)) => "0",
                Ok(None) => "none",
                Err(_) => "err",
            };
            self.rep.count(&format!("stream:{tag}"));
            self.rep.count(&format!("auth-answer:{got}"));
            let nontrivial = !allow.is_empty() && !gs.is_empty();
            self.rep.case(if nontrivial { Some(format!("a|{line}")) } else { None });
            let input = json!({"stream": "authorise", "allow": allow, "valid": v, "groups": gs_json(gs), "line": line});
            let ng = named(gs);
            if let Err(msg) = oracle(&allow_s, Some((ng.as_slice(), *v)), got) {
                self.rep.fail(Failure { kind: "impl-vs-oracle".into(), class: classify(&msg), input: input.clone(), expected: msg, observed: got.into() });
            }
            if model != got {
                self.fail_model(input, model.clone(), got.into());
            }
            if self.rep.evaluations % 1499 == 1 {
                self.rep.sample(json!({"request": line, "allow": allow_s, "groups": ng.iter().map(|(n, u)| format!("{n} / {u}")).collect::<Vec<_>>(), "impl": got, "model": model}));
            }
        }
    }
}

// ---------------------------------------------------------------------------------------------
// generators

fn gen_group(r: &mut Rng, bases: u64) -> G {
    let b = r.below(bases);
    let name = match r.below(20) {
        0 => r.below(bases) * VARIANTS + 1,            // named like some group's uuid
        1 => b * VARIANTS + *r.pick(&[2u64, 5, 6, 7]), // odd spelling as the real name
        2 => r.below(bases) * VARIANTS,                // another group's plain name (duplicate names)
        _ => b * VARIANTS,
    };
    G { b, name }
}
fn gen_allow(r: &mut Rng, bases: u64, profile: u64) -> Vec<u64> {
    if profile % 6 == 0 {
        return vec![];
    }
    let n = r.range(0, 4);
    let mut v = vec![];
    for _ in 0..n {
        let b = r.below(bases + 1); // sometimes a group nobody is in
        let variant = match r.below(10) {
            0..=3 => 0,
            4..=6 => 1,
            _ => r.range(2, 7),
        };
        let a = b * VARIANTS + variant;
        v.push(a);
        if r.chance(1, 8) {
            v.push(a);
        }
    }
    v
}
fn gen_groups(r: &mut Rng, bases: u64) -> Vec<G> {
    let n = match r.below(8) {
        0 => 0,
        1 => 1,
        _ => r.range(1, 5),
    };
    let mut gs = vec![];
    for _ in 0..n {
        let g = gen_group(r, bases);
        gs.push(g);
        if r.chance(1, 10) {
            gs.push(g);
        }
    }
    gs
}
/// Make membership hinge on exactly one element (or just miss).
fn boundary(r: &mut Rng, allow: &[u64], gs: &mut Vec<G>) {
    if allow.is_empty() {
        return;
    }
    let pick = *r.pick(allow);
    let b = pick / VARIANTS;
    match r.below(5) {
        0 => gs.push(G { b, name: b * VARIANTS }),                 // the group itself, last
        1 => gs.insert(0, G { b: b + 50, name: pick }),            // another group *named* exactly like the entry
        2 => gs.retain(|g| !allow.contains(&g.name) && !allow.contains(&g.uuid_atom())), // not a member
        3 => gs.push(G { b, name: b * VARIANTS + 2 }),             // right group under a different name: uuid decides
        _ => gs.push(G { b: b + 50, name: (pick / VARIANTS) * VARIANTS + ((pick % VARIANTS) + 1) % VARIANTS }), // near miss
    }
}

/// Directory tokens within one resolver case use one consistent group table (index -> name),
/// as a directory would; the sqlite cache purges rows with clashing names.
fn gen_case(r: &mut Rng, bases: u64, allow: Vec<u64>) -> Case {
    let table: Vec<G> = (0..bases)
        .map(|b| G { b, name: if r.chance(1, 6) { b * VARIANTS + *r.pick(&[2u64, 5, 6, 7]) } else { b * VARIANTS } })
        .collect();
    let nusers = r.range(2, 4);
    let sys: Vec<u64> = match r.below(4) {
        0 => vec![],
        1 => vec![9],
        2 => vec![9, r.range(1, nusers)], // a passwd entry shadowing a directory user
        _ => vec![r.range(1, nusers)],
    };
    let pick_groups = |r: &mut Rng| -> Vec<G> {
        let mut gs: Vec<G> = table.iter().filter(|_| r.chance(1, 2)).cloned().collect();
        if r.chance(1, 3) && !allow.is_empty() {
            let pick = *r.pick(&allow);
            let b = pick / VARIANTS;
            match r.below(3) {
                0 => {
                    if let Some(g) = table.iter().find(|g| g.b == b) {
                        if !gs.contains(g) {
                            gs.push(*g);
                        }
                    }
                }
                1 => gs.retain(|g| !allow.contains(&g.name) && !allow.contains(&g.uuid_atom())),
                _ => {}
            }
        }
        r.shuffle(&mut gs);
        gs
    };
    let mut seeds = vec![];
    if r.chance(1, 3) {
        for _ in 0..r.range(1, 2) {
            seeds.push(Seed { u: r.range(1, nusers), known: !r.chance(1, 4), valid: !r.chance(1, 4), expired: r.chance(1, 2), gs: pick_groups(r) });
        }
        // one row per account (a second seed for the same account would replace the first)
        seeds.dedup_by_key(|s| s.u);
        if seeds.len() == 2 && seeds[0].u == seeds[1].u {
            seeds.pop();
        }
    }
    let mut ops = vec![];
    // most histories start with a populated directory
    for u in 1..=nusers {
        if r.chance(4, 5) {
            ops.push(Op::Dir(u, DirEntry::Tok(!r.chance(1, 5), pick_groups(r))));
        }
    }
    let n = r.range(6, 18);
    for _ in 0..n {
        let u = if r.chance(1, 10) { nusers + 1 } else { r.range(1, nusers) };
        let op = match r.below(100) {
            0..=44 => Op::Query(if r.chance(1, 12) { 9 } else { u }),
            45..=62 => Op::Dir(u, DirEntry::Tok(!r.chance(1, 4), pick_groups(r))),
            63..=69 => Op::Dir(u, DirEntry::Status(*r.pick(&[404u64, 404, 400, 400, 401, 403, 500, 409]), r.below(8))),
            70..=72 => Op::Dir(u, DirEntry::Transport),
            73..=74 => Op::Dir(u, DirEntry::Bad),
            75..=86 => Op::Inval,
            87..=90 => Op::Offline,
            91..=96 => Op::NextCheck,
            _ => Op::SelfReply(r.below(4)),
        };
        // a change is usually followed by a look
        let follow = matches!(op, Op::Dir(..) | Op::Inval | Op::NextCheck) && r.chance(1, 2);
        let target = match &op {
            Op::Dir(u, _) => *u,
            _ => u,
        };
        ops.push(op);
        if follow {
            ops.push(Op::Query(target));
        }
    }
    ops.push(Op::Query(r.range(1, nusers)));
    Case { allow, sys, seeds, ops }
}

/// Exhaustive small scope for the decision: every sub-list of a 5-atom allow universe x every
/// group list of length <= 2 over 4 groups x valid flag.
fn exhaustive(ctx: &mut Ctx, thorough: bool) -> u64 {
    // groups: A = (b0 named grp0), B = (b1 named grp1), C = (b2 *named* A's uuid string), D = (b0 named Grp0)
    let pool = [G { b: 0, name: 0 }, G { b: 1, name: 8 }, G { b: 2, name: 1 }, G { b: 0, name: 2 }];
    // allow universe: A's name, A's uuid, B's uuid, upper-case spelling of A's uuid, B's spn
    let universe: Vec<u64> = if thorough { vec![0, 1, 9, 3, 13] } else { vec![0, 1, 3] };
    let all: Vec<Vec<u64>> = (0..(1u32 << universe.len()))
        .map(|mask| universe.iter().enumerate().filter(|(i, _)| mask >> i & 1 == 1).map(|(_, a)| *a).collect())
        .collect();
    ctx.prebuild(&all);
    let mut lists: Vec<Vec<G>> = vec![vec![]];
    for a in &pool {
        lists.push(vec![*a]);
        for b in &pool {
            lists.push(vec![*a, *b]);
        }
    }
    let mut toks = vec![];
    for gs in &lists {
        toks.push((true, gs.clone()));
        toks.push((false, gs.clone()));
    }
    let mut n = 0;
    for mask in 0..(1u32 << universe.len()) {
        let allow: Vec<u64> = universe.iter().enumerate().filter(|(i, _)| mask >> i & 1 == 1).map(|(_, a)| *a).collect();
        ctx.run_auth(&allow, &toks, "exhaustive");
        n += toks.len() as u64;
    }
    n
}

fn main() {
    std::env::set_var("KANIDM_DEV_YOLO", "1");
    let args = Args::parse();
    let rt = tokio::runtime::Builder::new_multi_thread().worker_threads(8).enable_all().build().unwrap();
    let mock: Mock = Arc::new(RwLock::new(MockState::default()));
    let listener = rt.block_on(async { TcpListener::bind("127.0.0.1:0").await.unwrap() });
    let port = listener.local_addr().unwrap().port();
    rt.spawn(serve(listener, mock.clone()));
    let mut ctx = Ctx {
        rt,
        mock,
        uri: format!("http://127.0.0.1:{port}"),
        drv: Driver::spawn(&args.driver),
        oe: oe_table(),
        hosts_built: 0,
        hosts: HashMap::new(),
        dir: {
            let d = std::env::temp_dir().join(format!("verif-c45-{}", std::process::id()));
            std::fs::create_dir_all(&d).unwrap();
            d
        },
        rep: Report::new(
            "host-authz",
            "each evaluation = one real decision: `unix_user_authorise` on an explicit token (stream authorise) or one \
             `Resolver::pam_account_allowed` call inside a history on a real host reset to its start state (stream resolver: real system provider, \
             sqlite cache, kanidm provider over HTTP to a mock directory); non-trivial = a directory user (no passwd entry) whose \
             judged record has >= 1 group, the allowed-login list is non-empty and the answer is allow or deny (so the set \
             intersection and the validity flag really decide); distinct = distinct (allowed list, record, answer)",
        ),
    };
    // the model's "record is gone" table must be the five shapes the mock can produce
    let shapes = ctx.drv.ask("shapes");
    ctx.rep.note(format!("model gone-shapes: {shapes}"));
    if let Some(path) = &args.replay {
        let v: Value = serde_json::from_str(&std::fs::read_to_string(path).unwrap()).unwrap();
        let inp = &v["input"];
        if inp["stream"] == "authorise" {
            ctx.run_auth(&u64s(&inp["allow"]), &[(inp["valid"].as_bool().unwrap(), gs_from(&inp["groups"]))], "replay");
        } else {
            ctx.run_case(&Case::from_json(&inp["case"]), "replay");
        }
        ctx.rep.write(&args.out);
        let _ = std::fs::remove_dir_all(&ctx.dir);
        println!("c45 replay: {} cases, {} failures", ctx.rep.evaluations, ctx.rep.failures.len());
        return;
    }
    let n = exhaustive(&mut ctx, args.thorough());
    ctx.rep.exhaustive = true;
    ctx.rep.note(format!(
        "exhaustive (authorise): every sub-list of {} x 21 group lists (length <= 2 over A, B, C named like A's uuid, D = A under another name) x valid flag = {n} decisions",
        if args.thorough() { "{A.name, A.uuid, B.uuid, upper-case A.uuid, B.spn}" } else { "{A.name, A.uuid, upper-case A.uuid}" }
    ));
    // the allowed-login lists of this run (one real host each, built concurrently)
    let npool = args.cases(16, 120).min(400);
    let pool: Vec<(u64, Vec<u64>)> = (0..npool)
        .map(|k| {
            let mut r = Rng::for_case(args.seed ^ 0xa110, k);
            let bases = r.range(2, 4);
            (bases, gen_allow(&mut r, bases, k))
        })
        .collect();
    ctx.prebuild(&pool.iter().map(|(_, a)| a.clone()).collect::<Vec<_>>());
    // random decisions
    let na = args.cases(1_000, 8_000);
    for i in 0..na {
        let mut r = Rng::for_case(args.seed, i);
        let (bases, allow) = pool[(i % npool) as usize].clone();
        let mut toks = vec![];
        for _ in 0..r.range(4, 10) {
            let mut gs = gen_groups(&mut r, bases);
            if r.chance(1, 3) {
                boundary(&mut r, &allow, &mut gs);
            }
            toks.push((!r.chance(1, 4), gs));
        }
        ctx.run_auth(&allow, &toks, "authorise");
    }
    // random histories
    let nr = args.cases(2_000, 12_000);
    for i in 0..nr {
        let mut r = Rng::for_case(args.seed ^ 0x45, i);
        let (bases, allow) = pool[(r.below(npool)) as usize].clone();
        let c = gen_case(&mut r, bases, allow);
        ctx.run_case(&c, "resolver");
    }
    ctx.rep.model_requests = ctx.drv.requests;
    ctx.rep.note(format!("{} real hosts built (Db + SoftTpm + KanidmProvider + SystemProvider + Resolver)", ctx.hosts_built));
    ctx.rep.write(&args.out);
    let _ = std::fs::remove_dir_all(&ctx.dir);
    println!("c45: {} cases, {} failures", ctx.rep.evaluations, ctx.rep.failures.len());
}
