fn main() {}
