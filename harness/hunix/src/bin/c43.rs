//! C43 — correspondence + oracle for the PAM module (`pam_sparkle_common::core`, reached through
//! the add-only re-exports of cargo feature `verif-hooks`).
//!
//! Streams (one report):
//! * `conn`   : real `sm_authenticate_connected` / `sm_authenticate` against a scripted resolver
//!              daemon on a real Unix socket (socketpair, or — through `RequestOptions::Main` and a
//!              generated config file — a listening socket): every reply kind, wrong reply kinds,
//!              `Error`, undecodable / truncated frames, early disconnects, (a few) timeouts; a
//!              scripted `PamHandler` (answers, refusals, errors, running dry).
//! * `fb`     : real `sm_authenticate_fallback` on random shadow *files* (written to disk, parsed by
//!              the real `read_etc_shadow_file`): supported / unsupported / locked / empty /
//!              malformed hashes, expiry dates around `now`; `check_pw` is compared with libcrypt.
//! * `acct`   : real `acct_mgmt` through `RequestOptions::Main` (scripted daemon; or no daemon and
//!              the machine's own /etc/passwd + /etc/shadow).
//! * `crypt`  : `CryptPw::from_str` on random password fields.
//! Every case goes to the implementation, to the Lean model (`km_c43`) and to an oracle written
//! from the property text only.
use hunix::*;
use pam_sparkle_common::constants::PamResultCode;
use pam_sparkle_common::module::PamResult;
use pam_sparkle_common::verif_hooks as core;
use pam_sparkle_common::ModuleOptions;
use serde_json::{json, Value};
use sparkle_unix_common::client_sync::{DaemonClientBlocking, UnixStream};
use sparkle_unix_common::unix_passwd::{read_etc_passwd_file, read_etc_shadow_file, CryptPw, EtcShadow, EtcUser};
use sparkle_unix_common::unix_proto::{
    ClientRequest, ClientResponse, DeviceAuthorizationResponse, PamAuthRequest, PamAuthResponse, PamServiceInfo,
};
use std::cell::RefCell;
use std::collections::VecDeque;
use std::ffi::{c_char, CStr, CString};
use std::io::{Read, Write};
use std::os::unix::net::UnixListener;
use std::str::FromStr;
use time::OffsetDateTime;

// ---------------------------------------------------------------------------------------------
// independent password verification: the C library

#[link(name = "crypt")]
extern "C" {
    fn crypt(key: *const c_char, setting: *const c_char) -> *mut c_char;
}
fn lib_crypt(key: &str, setting: &str) -> Option<String> {
    let k = CString::new(key).ok()?;
    let s = CString::new(setting).ok()?;
    let r = unsafe { crypt(k.as_ptr(), s.as_ptr()) };
    if r.is_null() {
        return None;
    }
    let out = unsafe { CStr::from_ptr(r) }.to_string_lossy().to_string();
    if out.starts_with('*') {
        None
    } else {
        Some(out)
    }
}
/// `crypt(cred, hash) == hash` (memoised: the hash pool of a run is small)
fn lib_verify(cred: &str, hash: &str) -> bool {
    thread_local! {
        static MEMO: RefCell<std::collections::HashMap<(String, String), bool>> = RefCell::new(Default::default());
    }
    let key = (cred.to_string(), hash.to_string());
    if let Some(v) = MEMO.with_borrow(|m| m.get(&key).copied()) {
        return v;
    }
    let v = !hash.is_empty() && lib_crypt(cred, hash).map(|h| h == hash).unwrap_or(false);
    MEMO.with_borrow_mut(|m| m.insert(key, v));
    v
}

// ---------------------------------------------------------------------------------------------
// codes and handler answers

fn code_from(n: u32) -> PamResultCode {
    assert!(n <= 31);
    // repr(C) fieldless enum with discriminants 0..=31
    unsafe { std::mem::transmute::<u32, PamResultCode>(n) }
}
fn code_name(c: &PamResultCode) -> String {
    format!("{c:?}")
}

/// `PamResult<Option<String>>` as data: Ok(Some(n)) / Ok(None) / Err(code)
#[derive(Clone, Debug, PartialEq)]
enum Ans {
    Val(u64),
    Nothing,
    Err(u32),
}
impl Ans {
    fn line(&self) -> String {
        match self {
            Ans::Val(n) => format!("o{n}"),
            Ans::Nothing => "on".into(),
            Ans::Err(c) => format!("e{c}"),
        }
    }
    fn to_json(&self) -> Value {
        match self {
            Ans::Val(n) => json!({"v": n}),
            Ans::Nothing => json!("n"),
            Ans::Err(c) => json!({"e": c}),
        }
    }
    fn from_json(v: &Value) -> Ans {
        if let Some(n) = v.get("v") {
            Ans::Val(n.as_u64().unwrap())
        } else if let Some(c) = v.get("e") {
            Ans::Err(c.as_u64().unwrap() as u32)
        } else {
            Ans::Nothing
        }
    }
}
fn acct_name(n: u64) -> String {
    format!("user{n}")
}
fn cred_str(n: u64) -> String {
    format!("cred-{n}")
}
fn atom_of(s: &str, prefix: &str) -> String {
    s.strip_prefix(prefix).map(|x| x.to_string()).unwrap_or(format!("?{s}"))
}

#[derive(Clone, Debug, PartialEq)]
struct HandlerScript {
    service_info: Option<u32>, // Some(code) = Err
    account: Ans,
    authtok: Ans,
    prompts: Vec<Ans>,
}
impl HandlerScript {
    fn to_json(&self) -> Value {
        json!({"svc": self.service_info, "acct": self.account.to_json(), "tok": self.authtok.to_json(),
               "prompts": self.prompts.iter().map(|p| p.to_json()).collect::<Vec<_>>()})
    }
    fn from_json(v: &Value) -> HandlerScript {
        HandlerScript {
            service_info: v["svc"].as_u64().map(|x| x as u32),
            account: Ans::from_json(&v["acct"]),
            authtok: Ans::from_json(&v["tok"]),
            prompts: v["prompts"].as_array().unwrap().iter().map(Ans::from_json).collect(),
        }
    }
    fn svc_line(&self) -> String {
        match self.service_info {
            None => "on".into(),
            Some(c) => format!("e{c}"),
        }
    }
    fn prompts_line(&self) -> String {
        if self.prompts.is_empty() {
            "-".into()
        } else {
            self.prompts.iter().map(|p| p.line()).collect::<Vec<_>>().join(",")
        }
    }
}

struct Handler {
    script: HandlerScript,
    prompts: RefCell<VecDeque<Ans>>,
    calls: RefCell<Vec<&'static str>>,
}
impl Handler {
    fn new(s: &HandlerScript) -> Handler {
        Handler { script: s.clone(), prompts: RefCell::new(s.prompts.iter().cloned().collect()), calls: RefCell::new(vec![]) }
    }
    fn next(&self, call: &'static str) -> Ans {
        self.calls.borrow_mut().push(call);
        // a conversation that has run dry fails with PAM_CONV_ERR
        self.prompts.borrow_mut().pop_front().unwrap_or(Ans::Err(19))
    }
    fn cred(&self, call: &'static str) -> PamResult<Option<String>> {
        match self.next(call) {
            Ans::Val(n) => Ok(Some(cred_str(n))),
            Ans::Nothing => Ok(None),
            Ans::Err(c) => Err(code_from(c)),
        }
    }
    fn shown(&self, call: &'static str) -> PamResult<()> {
        match self.next(call) {
            Ans::Err(c) => Err(code_from(c)),
            _ => Ok(()),
        }
    }
}
impl core::PamHandler for Handler {
    fn account_id(&self) -> PamResult<String> {
        self.calls.borrow_mut().push("ai");
        match &self.script.account {
            Ans::Val(n) => Ok(acct_name(*n)),
            Ans::Nothing => Ok(acct_name(0)),
            Ans::Err(c) => Err(code_from(*c)),
        }
    }
    fn service_info(&self) -> PamResult<PamServiceInfo> {
        self.calls.borrow_mut().push("si");
        match self.script.service_info {
            None => Ok(PamServiceInfo { service: "sshd".into(), tty: Some("tty1".into()), rhost: None }),
            Some(c) => Err(code_from(c)),
        }
    }
    fn envlist(&self) -> PamResult<Vec<String>> {
        Ok(vec![])
    }
    fn set_env(&self, _value: &str) -> PamResult<()> {
        Ok(())
    }
    fn authtok(&self) -> PamResult<Option<String>> {
        self.calls.borrow_mut().push("at");
        match &self.script.authtok {
            Ans::Val(n) => Ok(Some(cred_str(*n))),
            Ans::Nothing => Ok(None),
            Ans::Err(c) => Err(code_from(*c)),
        }
    }
    fn message(&self, _prompt: &str) -> PamResult<()> {
        self.shown("msg")
    }
    fn message_device_grant(&self, _data: &DeviceAuthorizationResponse) -> PamResult<()> {
        self.shown("dg")
    }
    fn prompt_for_password(&self) -> PamResult<Option<String>> {
        self.cred("pw")
    }
    fn prompt_for_pin(&self, _msg: Option<&str>) -> PamResult<Option<String>> {
        self.cred("pin")
    }
    fn prompt_for_mfacode(&self) -> PamResult<Option<String>> {
        self.cred("mfa")
    }
}

// ---------------------------------------------------------------------------------------------
// scripted daemon

#[derive(Clone, Debug, PartialEq)]
enum Ev {
    /// PamAuthResponse variant name, session id
    Step(String, u64),
    /// PamStatus(Some(true)/Some(false)/None)
    Status(Option<bool>),
    /// another ClientResponse variant
    Other(String),
    /// the call fails: 0 = close without answering, 1 = undecodable frame, 2 = truncated frame then
    /// close, 3 = no answer until the client times out, 4 = a variant the client does not know
    Fail(u64),
}
const STEPS: [&str; 10] =
    ["Unknown", "Success", "Denied", "Password", "DeviceAuthorizationGrant", "MFACode", "MFAPoll", "MFAPollWait", "SetupPin", "Pin"];
const OTHERS: [&str; 8] = ["SshKeys", "NssAccounts", "NssAccount", "NssGroups", "NssGroup", "ProviderStatus", "Ok", "Error"];
impl Ev {
    fn line(&self) -> String {
        match self {
            Ev::Step(k, sid) => format!("s:{k}:{sid}"),
            Ev::Status(Some(true)) => "p:1".into(),
            Ev::Status(Some(false)) => "p:0".into(),
            Ev::Status(None) => "p:n".into(),
            Ev::Other(k) => format!("o:{k}"),
            Ev::Fail(_) => "f".into(),
        }
    }
    fn to_json(&self) -> Value {
        match self {
            Ev::Step(k, sid) => json!({"s": k, "sid": sid}),
            Ev::Status(o) => json!({"p": o}),
            Ev::Other(k) => json!({"o": k}),
            Ev::Fail(k) => json!({"f": k}),
        }
    }
    fn from_json(v: &Value) -> Ev {
        if let Some(k) = v.get("s") {
            Ev::Step(k.as_str().unwrap().into(), v["sid"].as_u64().unwrap())
        } else if let Some(p) = v.get("p") {
            Ev::Status(p.as_bool())
        } else if let Some(k) = v.get("o") {
            Ev::Other(k.as_str().unwrap().into())
        } else {
            Ev::Fail(v["f"].as_u64().unwrap())
        }
    }
    fn response(&self) -> Option<ClientResponse> {
        let dar = || DeviceAuthorizationResponse {
            device_code: "dc".into(),
            user_code: "uc".into(),
            verification_uri: "https://example.com/dev".into(),
            verification_uri_complete: None,
            expires_in: 2,
            interval: None,
            message: None,
        };
        Some(match self {
            Ev::Step(k, sid) => ClientResponse::PamAuthenticateStepResponse {
                session_id: *sid,
                response: match k.as_str() {
                    "Unknown" => PamAuthResponse::Unknown,
                    "Success" => PamAuthResponse::Success,
                    "Denied" => PamAuthResponse::Denied,
                    "Password" => PamAuthResponse::Password,
                    "DeviceAuthorizationGrant" => PamAuthResponse::DeviceAuthorizationGrant { data: dar() },
                    "MFACode" => PamAuthResponse::MFACode { msg: "code".into() },
                    // interval 0: the module sleeps `polling_interval` before every MFAPollWait retry
                    "MFAPoll" => PamAuthResponse::MFAPoll { msg: "poll".into(), polling_interval: 0 },
                    "MFAPollWait" => PamAuthResponse::MFAPollWait,
                    "SetupPin" => PamAuthResponse::SetupPin { msg: "setup".into() },
                    "Pin" => PamAuthResponse::Pin,
                    o => panic!("unknown step {o}"),
                },
            },
            Ev::Status(o) => ClientResponse::PamStatus(*o),
            Ev::Other(k) => match k.as_str() {
                "SshKeys" => ClientResponse::SshKeys(vec!["ssh-ed25519 AAAA".into()]),
                "NssAccounts" => ClientResponse::NssAccounts(vec![]),
                "NssAccount" => ClientResponse::NssAccount(None),
                "NssGroups" => ClientResponse::NssGroups(vec![]),
                "NssGroup" => ClientResponse::NssGroup(None),
                "ProviderStatus" => ClientResponse::ProviderStatus(vec![]),
                "Ok" => ClientResponse::Ok,
                "Error" => ClientResponse::Error(kanidm_proto::internal::OperationError::InvalidState),
                o => panic!("unknown other {o}"),
            },
            Ev::Fail(_) => return None,
        })
    }
}

/// What the daemon side saw and did.
#[derive(Default, Debug)]
struct DaemonLog {
    requests: Vec<String>,
    /// the last thing the daemon did was to send an explicit `Success` step reply
    last_was_success: bool,
    /// the last thing the daemon did was to send `PamStatus(Some(true))`
    last_was_allowed: bool,
    acted: usize,
}

fn read_frame(s: &mut UnixStream) -> Option<Vec<u8>> {
    let mut len = [0u8; 4];
    s.read_exact(&mut len).ok()?;
    let n = u32::from_be_bytes(len) as usize;
    let mut buf = vec![0u8; n];
    s.read_exact(&mut buf).ok()?;
    Some(buf)
}
fn canon_request(r: &ClientRequest) -> String {
    match r {
        ClientRequest::PamAuthenticateInit { account_id, .. } => format!("init:{}", atom_of(account_id, "user")),
        ClientRequest::PamAccountAllowed { account_id, .. } => format!("acct:{}", atom_of(account_id, "user")),
        ClientRequest::PamAuthenticateStep { request, session_id } => {
            let (k, c) = match request {
                PamAuthRequest::Password { cred } => ("Password", atom_of(cred, "cred-")),
                PamAuthRequest::DeviceAuthorizationGrant { .. } => ("DeviceAuthorizationGrant", "-".into()),
                PamAuthRequest::MFACode { cred } => ("MFACode", atom_of(cred, "cred-")),
                PamAuthRequest::MFAPoll => ("MFAPoll", "-".into()),
                PamAuthRequest::SetupPin { pin } => ("SetupPin", atom_of(pin, "cred-")),
                PamAuthRequest::Pin { cred } => ("Pin", atom_of(cred, "cred-")),
            };
            format!("step:{k}:{c}:{session_id}")
        }
        o => format!("?{}", o.as_safe_string()),
    }
}
/// Serve one connection according to the script.
fn serve(mut s: UnixStream, script: Vec<Ev>) -> DaemonLog {
    let mut log = DaemonLog::default();
    let mut it = script.into_iter();
    loop {
        let Some(frame) = read_frame(&mut s) else { return log };
        match serde_json::from_slice::<ClientRequest>(&frame) {
            Ok(r) => log.requests.push(canon_request(&r)),
            Err(e) => log.requests.push(format!("?undecodable {e}")),
        }
        let Some(ev) = it.next() else {
            // the daemon goes away
            return log;
        };
        log.acted += 1;
        log.last_was_success = false;
        log.last_was_allowed = false;
        match &ev {
            Ev::Fail(0) => return log,
            Ev::Fail(1) => {
                let body = b"{\"NotAResponse\": [1, 2".to_vec();
                let _ = s.write_all(&(body.len() as u32).to_be_bytes());
                let _ = s.write_all(&body);
                let _ = s.flush();
                // the client gives up on this frame; wait for it to hang up
                let _ = read_frame(&mut s);
                return log;
            }
            Ev::Fail(2) => {
                let _ = s.write_all(&100u32.to_be_bytes());
                let _ = s.write_all(b"{\"PamStatus\":");
                let _ = s.flush();
                return log;
            }
            Ev::Fail(3) => {
                // say nothing until the client has gone
                let _ = read_frame(&mut s);
                return log;
            }
            Ev::Fail(_) => {
                let body = b"\"SuccessfulLogin\"".to_vec();
                let _ = s.write_all(&(body.len() as u32).to_be_bytes());
                let _ = s.write_all(&body);
                let _ = s.flush();
                let _ = read_frame(&mut s);
                return log;
            }
            ev => {
                let resp = ev.response().unwrap();
                let body = serde_json::to_vec(&resp).unwrap();
                if s.write_all(&(body.len() as u32).to_be_bytes()).is_err() || s.write_all(&body).is_err() {
                    return log;
                }
                let _ = s.flush();
                log.last_was_success = matches!(ev, Ev::Step(k, _) if k == "Success");
                log.last_was_allowed = matches!(ev, Ev::Status(Some(true)));
            }
        }
    }
}

// ---------------------------------------------------------------------------------------------
// cases

#[derive(Clone, Debug, PartialEq)]
struct ShadowLine {
    name: u64,
    pw: String,
    /// days since the epoch
    expire_days: Option<i64>,
}
#[derive(Clone, Debug, PartialEq)]
enum Case {
    /// route: 0 = socketpair + sm_authenticate_connected, 1 = listening socket + config file + sm_authenticate,
    /// 2 = listening socket + `DaemonClientBlocking::new(path, 1)` + sm_authenticate_connected
    Conn { ufp: bool, iuu: bool, h: HandlerScript, script: Vec<Ev>, route: u64 },
    Fb { ufp: bool, iuu: bool, h: HandlerScript, now: i64, users: Vec<u64>, shadow: Vec<ShadowLine> },
    Acct { iuu: bool, h: HandlerScript, script: Vec<Ev> },
    /// no daemon: the machine's own /etc/passwd and /etc/shadow; account = index into passwd or a missing name
    Etc { acct_mgmt: bool, ufp: bool, iuu: bool, account: Option<usize>, prompt: u64 },
    Crypt { pw: String },
}
fn hex(s: &str) -> String {
    if s.is_empty() {
        "-".into()
    } else {
        s.bytes().map(|b| format!("{b:02x}")).collect()
    }
}
impl Case {
    fn to_json(&self) -> Value {
        match self {
            Case::Conn { ufp, iuu, h, script, route } => {
                json!({"kind": "conn", "ufp": ufp, "iuu": iuu, "h": h.to_json(), "script": script.iter().map(|e| e.to_json()).collect::<Vec<_>>(), "route": route})
            }
            Case::Fb { ufp, iuu, h, now, users, shadow } => json!({"kind": "fb", "ufp": ufp, "iuu": iuu, "h": h.to_json(), "now": now, "users": users,
                "shadow": shadow.iter().map(|s| json!({"name": s.name, "pw": s.pw, "expire_days": s.expire_days})).collect::<Vec<_>>()}),
            Case::Acct { iuu, h, script } => json!({"kind": "acct", "iuu": iuu, "h": h.to_json(), "script": script.iter().map(|e| e.to_json()).collect::<Vec<_>>()}),
            Case::Etc { acct_mgmt, ufp, iuu, account, prompt } => json!({"kind": "etc", "acct_mgmt": acct_mgmt, "ufp": ufp, "iuu": iuu, "account": account, "prompt": prompt}),
            Case::Crypt { pw } => json!({"kind": "crypt", "pw": pw}),
        }
    }
    fn from_json(v: &Value) -> Case {
        let evs = |v: &Value| v.as_array().unwrap().iter().map(Ev::from_json).collect::<Vec<_>>();
        match v["kind"].as_str().unwrap() {
            "conn" => Case::Conn {
                ufp: v["ufp"].as_bool().unwrap(),
                iuu: v["iuu"].as_bool().unwrap(),
                h: HandlerScript::from_json(&v["h"]),
                script: evs(&v["script"]),
                route: v["route"].as_u64().unwrap(),
            },
            "fb" => Case::Fb {
                ufp: v["ufp"].as_bool().unwrap(),
                iuu: v["iuu"].as_bool().unwrap(),
                h: HandlerScript::from_json(&v["h"]),
                now: v["now"].as_i64().unwrap(),
                users: v["users"].as_array().unwrap().iter().map(|x| x.as_u64().unwrap()).collect(),
                shadow: v["shadow"]
                    .as_array()
                    .unwrap()
                    .iter()
                    .map(|s| ShadowLine { name: s["name"].as_u64().unwrap(), pw: s["pw"].as_str().unwrap().into(), expire_days: s["expire_days"].as_i64() })
                    .collect(),
            },
            "acct" => Case::Acct { iuu: v["iuu"].as_bool().unwrap(), h: HandlerScript::from_json(&v["h"]), script: evs(&v["script"]) },
            "etc" => Case::Etc {
                acct_mgmt: v["acct_mgmt"].as_bool().unwrap(),
                ufp: v["ufp"].as_bool().unwrap(),
                iuu: v["iuu"].as_bool().unwrap(),
                account: v["account"].as_u64().map(|x| x as usize),
                prompt: v["prompt"].as_u64().unwrap(),
            },
            _ => Case::Crypt { pw: v["pw"].as_str().unwrap().into() },
        }
    }
}

struct Ctx {
    drv: Driver,
    rep: Report,
    dir: std::path::PathBuf,
    seq: u64,
    etc_users: Vec<EtcUser>,
    etc_shadow: Vec<EtcShadow>,
}

fn opts(ufp: bool, iuu: bool) -> ModuleOptions {
    ModuleOptions { debug: false, use_first_pass: ufp, ignore_unknown_user: iuu }
}
fn show_out(code: &PamResultCode, sent: &[String], calls: &[&'static str], consumed: usize) -> String {
    format!(
        "code={} sent={} calls={} consumed={consumed}",
        code_name(code),
        if sent.is_empty() { "-".into() } else { sent.join(";") },
        if calls.is_empty() { "-".into() } else { calls.join(",") }
    )
}
fn script_line(s: &[Ev]) -> String {
    if s.is_empty() {
        "-".into()
    } else {
        s.iter().map(|e| e.line()).collect::<Vec<_>>().join(";")
    }
}

impl Ctx {
    fn fail(&mut self, kind: &str, class: &str, c: &Case, expected: String, observed: String) {
        self.rep.fail(Failure { kind: kind.into(), class: class.into(), input: json!({"case": c.to_json()}), expected, observed });
    }

    /// Listening socket + config file for `RequestOptions::Main`; returns (config path, listener).
    fn listen(&mut self) -> (&'static str, UnixListener, std::path::PathBuf) {
        self.seq += 1;
        let sock = self.dir.join(format!("sock{}", self.seq));
        let cfg = self.dir.join(format!("unixd{}.toml", self.seq));
        let l = UnixListener::bind(&sock).expect("bind");
        std::fs::write(&cfg, format!("sock_path = {:?}\nconn_timeout = 1\n", sock.to_string_lossy())).unwrap();
        // `config_path: &'static str`
        let leaked: &'static str = Box::leak(cfg.to_string_lossy().to_string().into_boxed_str());
        (leaked, l, sock)
    }
    fn no_daemon_config(&mut self) -> &'static str {
        self.seq += 1;
        let cfg = self.dir.join(format!("unixd{}.toml", self.seq));
        std::fs::write(&cfg, format!("sock_path = {:?}\nconn_timeout = 1\n", self.dir.join("nobody-listens").to_string_lossy())).unwrap();
        Box::leak(cfg.to_string_lossy().to_string().into_boxed_str())
    }

    fn run(&mut self, c: &Case) {
        let now_real = OffsetDateTime::UNIX_EPOCH;
        match c {
            Case::Conn { ufp, iuu, h, script, route } => {
                let handler = Handler::new(h);
                let o = opts(*ufp, *iuu);
                let (code, log) = if *route == 2 {
                    // listening socket, client with a 1 s timeout (the shortest there is): used for the
                    // scripts in which the daemon goes quiet or away — the client then spins until its timeout
                    let (cfg, l, sock) = self.listen();
                    let sc = script.clone();
                    let t = std::thread::spawn(move || {
                        let (s, _) = l.accept().expect("accept");
                        serve(s, sc)
                    });
                    let client = DaemonClientBlocking::new(&sock.to_string_lossy(), 1).expect("connect");
                    let code = core::sm_authenticate_connected(&handler, &o, now_real, &client);
                    drop(client);
                    let log = t.join().unwrap();
                    let _ = std::fs::remove_file(sock);
                    let _ = std::fs::remove_file(cfg);
                    (code, log)
                } else if *route == 0 {
                    let (a, b) = UnixStream::pair().expect("socketpair");
                    let sc = script.clone();
                    let t = std::thread::spawn(move || serve(b, sc));
                    let client = DaemonClientBlocking::from(a);
                    let code = core::sm_authenticate_connected(&handler, &o, now_real, &client);
                    drop(client);
                    (code, t.join().unwrap())
                } else {
                    let (cfg, l, sock) = self.listen();
                    let sc = script.clone();
                    let t = std::thread::spawn(move || {
                        let (s, _) = l.accept().expect("accept");
                        serve(s, sc)
                    });
                    let _ = core::CLIENT.replace(None);
                    let code = core::sm_authenticate(&handler, &o, core::RequestOptions::Main { config_path: cfg }, now_real);
                    let _ = core::CLIENT.replace(None);
                    let log = t.join().unwrap();
                    let _ = std::fs::remove_file(sock);
                    let _ = std::fs::remove_file(cfg);
                    (code, log)
                };
                let got = show_out(&code, &log.requests, &handler.calls.borrow(), log.acted);
                let line = format!(
                    "conn {} {} {} {} {} {} {}",
                    *ufp as u8,
                    *iuu as u8,
                    h.svc_line(),
                    h.account.line(),
                    h.authtok.line(),
                    h.prompts_line(),
                    script_line(script)
                );
                let model = self.drv.ask(&line);
                self.rep.count("stream:conn");
                self.rep.count(&format!("conn-route:{route}"));
                self.rep.count(&format!("conn-code:{}", code_name(&code)));
                self.rep.count(&format!("conn-consumed:{}", log.acted.min(6)));
                for e in script.iter().take(log.acted) {
                    self.rep.count(&format!("conn-ev:{}", match e {
                        Ev::Step(k, _) => k.clone(),
                        Ev::Status(_) => "PamStatus".into(),
                        Ev::Other(k) => k.clone(),
                        Ev::Fail(k) => format!("fail{k}"),
                    }));
                }
                self.rep.case(if log.acted >= 1 { Some(line.clone()) } else { None });
                // oracle: success only after an explicit Success from the daemon; never with a handler error
                if code == PamResultCode::PAM_SUCCESS && !log.last_was_success {
                    self.fail("impl-vs-oracle", "C43:success-without-daemon-success", c, "PAM_SUCCESS only when the daemon's last reply was an explicit Success".into(), got.clone());
                }
                if code != PamResultCode::PAM_SUCCESS && log.last_was_success {
                    // not demanded by the property (fail closed), recorded for the histogram only
                    self.rep.count("conn-success-reply-but-nonsuccess");
                }
                if model != got {
                    self.fail("impl-vs-model", "unclassified", c, model.clone(), got.clone());
                }
                if self.rep.evaluations % 977 == 1 {
                    self.rep.sample(json!({"request": line, "impl": got, "model": model}));
                }
            }
            Case::Acct { iuu, h, script } => {
                let handler = Handler::new(h);
                let o = opts(false, *iuu);
                let (cfg, l, sock) = self.listen();
                let sc = script.clone();
                let t = std::thread::spawn(move || {
                    // acct_mgmt asks for pam info before it connects: if the handler fails nobody connects
                    l.set_nonblocking(true).unwrap();
                    let t0 = std::time::Instant::now();
                    loop {
                        match l.accept() {
                            Ok((s, _)) => {
                                s.set_nonblocking(false).unwrap();
                                return serve(s, sc);
                            }
                            Err(_) if t0.elapsed().as_millis() < 150 => std::thread::sleep(std::time::Duration::from_millis(1)),
                            Err(_) => return DaemonLog::default(),
                        }
                    }
                });
                let _ = core::CLIENT.replace(None);
                let code = core::acct_mgmt(&handler, &o, core::RequestOptions::Main { config_path: cfg }, now_real);
                let connected = core::CLIENT.replace(None).is_some();
                if !connected {
                    // nobody will connect: let the accept loop run out
                }
                let log = t.join().unwrap();
                let _ = std::fs::remove_file(sock);
                let _ = std::fs::remove_file(cfg);
                let got = show_out(&code, &log.requests, &handler.calls.borrow(), log.acted);
                let line = format!("acctd 0 {} {} {} {}", *iuu as u8, h.svc_line(), h.account.line(), script_line(script));
                let model = self.drv.ask(&line);
                self.rep.count("stream:acct");
                self.rep.count(&format!("acct-code:{}", code_name(&code)));
                self.rep.case(if log.acted >= 1 { Some(line.clone()) } else { None });
                if code == PamResultCode::PAM_SUCCESS && !log.last_was_allowed {
                    self.fail("impl-vs-oracle", "C43:acct-success-without-daemon-allow", c, "PAM_SUCCESS only after PamStatus(Some(true))".into(), got.clone());
                }
                if model != got {
                    self.fail("impl-vs-model", "unclassified", c, model, got);
                }
            }
            Case::Fb { ufp, iuu, h, now, users, shadow } => {
                // a real shadow file, parsed by the real parser
                self.seq += 1;
                let path = self.dir.join(format!("shadow{}", self.seq));
                let text: String = shadow
                    .iter()
                    .map(|s| format!("{}:{}:19000:0:99999:7::{}:\n", acct_name(s.name), s.pw, s.expire_days.map(|d| d.to_string()).unwrap_or_default()))
                    .collect();
                std::fs::write(&path, &text).unwrap();
                let parsed = read_etc_shadow_file(&path).unwrap_or_default();
                let _ = std::fs::remove_file(&path);
                let parsed_ok = parsed.len() == shadow.len();
                let etc_users: Vec<EtcUser> = users
                    .iter()
                    .map(|u| EtcUser { name: acct_name(*u), password: "x".into(), uid: 1000 + *u as u32, gid: 1000 + *u as u32, gecos: String::new(), homedir: "/".into(), shell: "/bin/sh".into() })
                    .collect();
                let handler = Handler::new(h);
                let o = opts(*ufp, *iuu);
                let t = OffsetDateTime::from_unix_timestamp(*now).unwrap();
                let res = std::panic::catch_unwind(std::panic::AssertUnwindSafe(|| {
                    core::sm_authenticate_fallback(&handler, &o, t, etc_users, parsed.clone())
                }));
                let code = match res {
                    Ok(c) => c,
                    Err(p) => {
                        // the module panicked: in the real cdylib this unwinds into `extern "C" pam_sm_authenticate`
                        // and aborts the host process (sshd, login, sudo) - no result at all
                        let msg = p.downcast_ref::<String>().cloned().or_else(|| p.downcast_ref::<&str>().map(|s| s.to_string())).unwrap_or_default();
                        self.rep.count("stream:fb");
                        self.rep.count("fb-code:panic");
                        self.rep.case(None);
                        let field = match &h.account {
                            Ans::Val(n) => shadow.iter().find(|s| s.name == *n).map(|s| s.pw.clone()).unwrap_or_default(),
                            _ => String::new(),
                        };
                        let class = if field.starts_with("$5$") { "C43:panic-on-malformed-sha256-hash" } else { "C43:panic-in-fallback" };
                        self.fail("impl-vs-oracle", class, c, "a non-success PamResultCode (every error yields a non-success result)".into(), format!("panic: {msg}"));
                        return;
                    }
                };
                let got = show_out(&code, &[], &handler.calls.borrow(), 0);
                // credentials that may be offered, hashes in play: what does the C library say?
                let mut creds: Vec<u64> = vec![];
                if let Ans::Val(n) = &h.authtok {
                    creds.push(*n);
                }
                for p in &h.prompts {
                    if let Ans::Val(n) = p {
                        creds.push(*n);
                    }
                }
                creds.sort();
                creds.dedup();
                let shown: Vec<&ShadowLine> = if parsed_ok { shadow.iter().collect() } else { vec![] };
                let mut verifs = vec![];
                for s in &shown {
                    for cr in &creds {
                        if lib_verify(&cred_str(*cr), &s.pw) {
                            verifs.push(format!("{}/{}", hex(&s.pw), cr));
                        }
                    }
                }
                let shadow_line = if shown.is_empty() {
                    "-".to_string()
                } else {
                    shown
                        .iter()
                        .map(|s| format!("{}:{}:{}", s.name, hex(&s.pw), s.expire_days.map(|d| (d * 86400).to_string()).unwrap_or("n".into())))
                        .collect::<Vec<_>>()
                        .join(";")
                };
                let line = format!(
                    "fb {} {} {} {} {} {} {} {} {}",
                    *ufp as u8,
                    *iuu as u8,
                    h.account.line(),
                    h.authtok.line(),
                    h.prompts_line(),
                    now,
                    if users.is_empty() { "-".into() } else { users.iter().map(|u| u.to_string()).collect::<Vec<_>>().join(",") },
                    shadow_line,
                    if verifs.is_empty() { "-".into() } else { verifs.join(",") }
                );
                let model = self.drv.ask(&line);
                self.rep.count("stream:fb");
                self.rep.count(&format!("fb-code:{}", code_name(&code)));
                if !parsed_ok {
                    self.rep.count("fb-shadow-file-rejected");
                }
                // oracle, from the text: success only if the account's shadow entry holds a supported hash
                // that verifies the password and the account has not expired; locked / empty never authenticate
                let acct = match &h.account {
                    Ans::Val(n) => Some(*n),
                    Ans::Nothing => Some(0),
                    Ans::Err(_) => None,
                };
                let entry = acct.and_then(|a| shown.iter().find(|s| s.name == a).cloned());
                if let Some(e) = &entry {
                    self.rep.count(&format!("fb-field:{}", field_class(&e.pw)));
                }
                let nontrivial = entry.is_some() && acct.map(|a| users.contains(&a)).unwrap_or(false);
                self.rep.case(if nontrivial { Some(line.clone()) } else { None });
                if code == PamResultCode::PAM_SUCCESS {
                    let ok = match &entry {
                        None => Err("no shadow entry for the account".to_string()),
                        Some(e) => {
                            let supported = e.pw.starts_with("$6$") || e.pw.starts_with("$5$") || e.pw.starts_with("$y$");
                            let locked = e.pw.is_empty() || e.pw.starts_with('!') || e.pw.starts_with('*');
                            let expired = e.expire_days.map(|d| *now >= d * 86400).unwrap_or(false);
                            let verifies = creds.iter().any(|cr| lib_verify(&cred_str(*cr), &e.pw));
                            if locked {
                                Err("locked or empty password field".to_string())
                            } else if !supported {
                                Err("unsupported hash".to_string())
                            } else if expired {
                                Err("account expired".to_string())
                            } else if !verifies {
                                Err("no offered credential verifies against the hash (libcrypt)".to_string())
                            } else {
                                Ok(())
                            }
                        }
                    };
                    if let Err(why) = ok {
                        let class = if entry.as_ref().map(|e| trailing_digest_chars(&e.pw, &creds)).unwrap_or(false) {
                            "C43:sha-crypt-trailing-digest-chars-accepted"
                        } else if why.contains("locked") {
                            "C43:locked-or-empty-authenticated"
                        } else if why.contains("expired") {
                            "C43:expired-authenticated"
                        } else {
                            "C43:fallback-success-without-verified-hash"
                        };
                        self.fail("impl-vs-oracle", class, c, format!("non-success: {why}"), got.clone());
                    }
                }
                if model != got {
                    // the model's `verify` is libcrypt's verdict: where the sha-crypt crate is more lenient the two differ
                    let class = if code == PamResultCode::PAM_SUCCESS && entry.as_ref().map(|e| trailing_digest_chars(&e.pw, &creds)).unwrap_or(false) {
                        "C43:sha-crypt-trailing-digest-chars-accepted"
                    } else {
                        "unclassified"
                    };
                    self.fail("impl-vs-model", class, c, model.clone(), got.clone());
                }
                if self.rep.evaluations % 977 == 2 {
                    self.rep.sample(json!({"request": line, "impl": got, "model": model}));
                }
            }
            Case::Etc { acct_mgmt, ufp, iuu, account, prompt } => {
                let name_atom = |i: usize| i as u64 + 1;
                let acct_atom = account.map(name_atom).unwrap_or(0);
                let real_name = account.and_then(|i| self.etc_users.get(i)).map(|u| u.name.clone()).unwrap_or("no-such-user-c43".into());
                // handler answering with the real account name
                struct EtcHandler(Handler, String);
                impl core::PamHandler for EtcHandler {
                    fn account_id(&self) -> PamResult<String> {
                        self.0.calls.borrow_mut().push("ai");
                        Ok(self.1.clone())
                    }
                    fn service_info(&self) -> PamResult<PamServiceInfo> {
                        self.0.service_info()
                    }
                    fn envlist(&self) -> PamResult<Vec<String>> {
                        Ok(vec![])
                    }
                    fn set_env(&self, _v: &str) -> PamResult<()> {
                        Ok(())
                    }
                    fn authtok(&self) -> PamResult<Option<String>> {
                        self.0.authtok()
                    }
                    fn message(&self, p: &str) -> PamResult<()> {
                        self.0.message(p)
                    }
                    fn message_device_grant(&self, d: &DeviceAuthorizationResponse) -> PamResult<()> {
                        self.0.message_device_grant(d)
                    }
                    fn prompt_for_password(&self) -> PamResult<Option<String>> {
                        self.0.prompt_for_password()
                    }
                    fn prompt_for_pin(&self, m: Option<&str>) -> PamResult<Option<String>> {
                        self.0.prompt_for_pin(m)
                    }
                    fn prompt_for_mfacode(&self) -> PamResult<Option<String>> {
                        self.0.prompt_for_mfacode()
                    }
                }
                let hs = HandlerScript { service_info: None, account: Ans::Val(acct_atom), authtok: Ans::Nothing, prompts: vec![Ans::Val(*prompt)] };
                let handler = EtcHandler(Handler::new(&hs), real_name.clone());
                let o = opts(*ufp, *iuu);
                let cfg = self.no_daemon_config();
                let _ = core::CLIENT.replace(None);
                let now = OffsetDateTime::from_unix_timestamp(1_790_000_000).unwrap();
                let code = if *acct_mgmt {
                    core::acct_mgmt(&handler, &o, core::RequestOptions::Main { config_path: cfg }, now)
                } else {
                    core::sm_authenticate(&handler, &o, core::RequestOptions::Main { config_path: cfg }, now)
                };
                let _ = core::CLIENT.replace(None);
                let _ = std::fs::remove_file(cfg);
                let got = show_out(&code, &[], &handler.0.calls.borrow(), 0);
                let users: Vec<String> = (0..self.etc_users.len()).map(|i| name_atom(i).to_string()).collect();
                let idx_of = |n: &str| self.etc_users.iter().position(|u| u.name == n);
                let shadow: Vec<String> = self
                    .etc_shadow
                    .iter()
                    .filter_map(|s| {
                        let i = idx_of(&s.name)?;
                        let pw = s.password.to_string();
                        // `CryptPw::Invalid` displays as "x": the original field is gone, and is not needed
                        Some(format!(
                            "{}:{}:{}",
                            name_atom(i),
                            hex(&pw),
                            s.epoch_expire_seconds.map(|t| t.unix_timestamp().to_string()).unwrap_or("n".into())
                        ))
                    })
                    .collect();
                let ul = if users.is_empty() { "-".into() } else { users.join(",") };
                let sl = if shadow.is_empty() { "-".into() } else { shadow.join(";") };
                let line = if *acct_mgmt {
                    format!("acctf 0 {} on o{} 1790000000 {} {}", *iuu as u8, acct_atom, ul, sl)
                } else {
                    format!("fb {} {} o{} on o{} 1790000000 {} {} -", *ufp as u8, *iuu as u8, acct_atom, prompt, ul, sl)
                };
                let model = self.drv.ask(&line);
                self.rep.count("stream:etc");
                self.rep.count(&format!("etc-code:{}", code_name(&code)));
                self.rep.case(None);
                if !*acct_mgmt && code == PamResultCode::PAM_SUCCESS {
                    // nobody in this machine's shadow file has the password "cred-N"
                    self.fail("impl-vs-oracle", "C43:fallback-success-without-verified-hash", c, "non-success".into(), got.clone());
                }
                if model != got {
                    self.fail("impl-vs-model", "unclassified", &Case::Etc { acct_mgmt: *acct_mgmt, ufp: *ufp, iuu: *iuu, account: *account, prompt: *prompt }, model, got);
                }
            }
            Case::Crypt { pw } => {
                let k = CryptPw::from_str(pw).map(|c| format!("{c:?}")).unwrap_or("err".into());
                let got = match k.as_str() {
                    "crypt sha512" => "Sha512",
                    "crypt sha256" => "Sha256",
                    "crypt yescrypt" => "YesCrypt",
                    "x" => "Invalid",
                    o => o,
                }
                .to_string();
                let model = self.drv.ask(&format!("crypt {}", hex(pw)));
                self.rep.count("stream:crypt");
                self.rep.count(&format!("crypt-kind:{got}"));
                self.rep.case(None);
                let locked = pw.is_empty() || pw.starts_with('!') || pw.starts_with('*');
                if locked && got != "Invalid" {
                    self.fail("impl-vs-oracle", "C43:locked-or-empty-authenticated", c, "Invalid".into(), got.clone());
                }
                if model != got {
                    self.fail("impl-vs-model", "unclassified", c, model, got);
                }
            }
        }
    }
}

/// A sha-crypt field with extra characters after a digest that (cut to its proper length)
/// verifies one of the credentials: the verifier of the sha-crypt crate accepts it, crypt(3) does not.
fn trailing_digest_chars(pw: &str, creds: &[u64]) -> bool {
    let want = if pw.starts_with("$5$") {
        43
    } else if pw.starts_with("$6$") {
        86
    } else {
        return false;
    };
    let Some(pos) = pw.rfind('$') else { return false };
    let digest = &pw[pos + 1..];
    if digest.len() <= want || !digest.is_char_boundary(want) {
        return false;
    }
    let cut = format!("{}{}", &pw[..pos + 1], &digest[..want]);
    creds.iter().any(|c| lib_verify(&cred_str(*c), &cut))
}

fn field_class(pw: &str) -> &'static str {
    if pw.is_empty() {
        "empty"
    } else if pw.starts_with('!') || pw.starts_with('*') {
        "locked"
    } else if pw.starts_with("$6$") {
        "sha512"
    } else if pw.starts_with("$5$") {
        "sha256"
    } else if pw.starts_with("$y$") {
        "yescrypt"
    } else {
        "other"
    }
}

// ---------------------------------------------------------------------------------------------
// generators

const ERR_CODES: [u32; 8] = [19, 4, 5, 7, 9, 10, 25, 30];

fn gen_ans(r: &mut Rng, creds: u64) -> Ans {
    match r.below(12) {
        0 => Ans::Nothing,
        1 => Ans::Err(*r.pick(&ERR_CODES)),
        _ => Ans::Val(r.range(1, creds)),
    }
}
fn gen_handler(r: &mut Rng, nprompts: u64) -> HandlerScript {
    let mut prompts = vec![];
    for _ in 0..nprompts {
        prompts.push(gen_ans(r, 3));
    }
    HandlerScript {
        service_info: if r.chance(1, 25) { Some(*r.pick(&ERR_CODES)) } else { None },
        account: if r.chance(1, 25) { Ans::Err(*r.pick(&ERR_CODES)) } else { Ans::Val(r.range(1, 4)) },
        authtok: match r.below(6) {
            0 => Ans::Nothing,
            1 => Ans::Err(*r.pick(&ERR_CODES)),
            _ => Ans::Val(r.range(1, 3)),
        },
        prompts,
    }
}
/// `slow` scripts end with the daemon going quiet or away (the client spins until its timeout,
/// 1-2 s); all others end in a reply or frame on which the module returns at once — unless the
/// handler makes it return earlier.
fn gen_script(r: &mut Rng, slow: bool) -> Vec<Ev> {
    let n = match r.below(10) {
        0 | 1 => 0,
        2 | 3 => 1,
        _ => r.range(2, 5),
    };
    let sid = r.range(1, 9);
    let mut s = vec![];
    let mut polled = false;
    for _ in 0..n {
        let k = *r.pick(&["Password", "Password", "MFACode", "MFAPoll", "MFAPollWait", "SetupPin", "Pin", "DeviceAuthorizationGrant"]);
        if k == "MFAPollWait" && !polled {
            polled = true;
            s.push(Ev::Step("MFAPoll".into(), sid));
        } else {
            if k == "MFAPoll" {
                polled = true;
            }
            s.push(Ev::Step(k.into(), if r.chance(1, 10) { sid + 1 } else { sid }));
        }
    }
    if slow {
        match r.below(4) {
            0 => {} // the daemon goes away after its last reply
            1 => s.push(Ev::Fail(0)),
            2 => s.push(Ev::Fail(2)),
            _ => s.push(Ev::Fail(3)),
        }
        return s;
    }
    s.push(match r.below(100) {
        0..=39 => Ev::Step("Success".into(), sid),
        40..=54 => Ev::Step("Denied".into(), sid),
        55..=66 => Ev::Step("Unknown".into(), sid),
        67..=79 => Ev::Other(OTHERS[r.below(OTHERS.len() as u64) as usize].into()),
        80..=87 => Ev::Status(*r.pick(&[Some(true), Some(true), Some(false), None])),
        88..=93 => Ev::Fail(1),
        _ => Ev::Fail(4),
    });
    // replies after the decisive one must never be looked at
    if r.chance(1, 4) {
        s.push(Ev::Step("Success".into(), sid));
    }
    s
}

struct Hashes {
    /// (hash, credential atom it was made from)
    good: Vec<(String, u64)>,
    unsupported: Vec<String>,
}
fn make_hashes(thorough: bool) -> Hashes {
    let mut good = vec![];
    for cr in 1..=3u64 {
        let c = cred_str(cr);
        // yescrypt with small cost parameters (`j75`: ~20 ms here; the usual `j9T` takes ~2 s per hash in this
        // sandbox and is only sampled once, in the thorough tier)
        for setting in ["$6$saltsalt", "$6$rounds=1000$abcdefgh", "$5$saltsalt", "$5$rounds=2000$qrstuvwx", "$y$j75$F5Jx5fExrKuPp53xLKQ..1", "$y$j85$abcdefgh"] {
            let h = lib_crypt(&c, &format!("{setting}{cr}")).or_else(|| lib_crypt(&c, setting)).expect("libcrypt supports sha256/sha512/yescrypt");
            good.push((h, cr));
        }
        if thorough && cr == 1 {
            good.push((lib_crypt(&c, "$y$j9T$F5Jx5fExrKuPp53xLKQ..1").expect("yescrypt j9T"), cr));
        }
    }
    let mut unsupported = vec![];
    for setting in ["$1$saltsalt", "ab", "$2b$05$abcdefghijklmnopqrstuu", "$7$CU..../....saltsaltsalt"] {
        if let Some(h) = lib_crypt(&cred_str(1), setting) {
            unsupported.push(h);
        }
    }
    Hashes { good, unsupported }
}
fn gen_field(r: &mut Rng, hs: &Hashes) -> String {
    let (g, _) = r.pick(&hs.good).clone();
    match r.below(20) {
        0 => String::new(),
        1 => "!".into(),
        2 => "*".into(),
        3 => format!("!{g}"),
        4 => "!!".into(),
        5 => "*LK*".into(),
        6 => "x".into(),
        7 => r.pick(&hs.unsupported).clone(),
        8 => {
            // one character of the digest changed
            let mut b = g.into_bytes();
            let i = b.len() - 1 - r.below(8) as usize;
            b[i] = if b[i] == b'a' { b'b' } else { b'a' };
            String::from_utf8(b).unwrap()
        }
        9 => r.pick(&["$6$", "$5$", "$y$", "$6$saltsalt", "$6$saltsalt$", "$y$j9T$", "$6", "$", "$$", "$Y$j9T$abc$def", " $6$saltsalt$abc", "$6 $x"]).to_string(),
        10 => g.to_uppercase(),
        // digest-shape boundary (D32): length 43 / 86 and the last character's stray bits
        11 | 12 => {
            let mut t = g.clone();
            match r.below(7) {
                0 => {
                    t.pop();
                }
                1 => t.push('a'),
                2 => t.push_str("ab"),
                3 => {
                    t.pop();
                    t.push(*r.pick(&['z', 'E', '2', 'D', '1', '.']));
                }
                4 => {
                    let i = t.len() - 5;
                    t.replace_range(i..i + 1, "!");
                }
                5 => t.push('$'),
                _ => t.push_str("$x"),
            }
            t
        }
        _ => g,
    }
}
fn gen_fb(r: &mut Rng, hs: &Hashes) -> Case {
    let nusers = r.range(1, 4);
    let mut users: Vec<u64> = (1..=nusers).filter(|_| !r.chance(1, 8)).collect();
    if r.chance(1, 10) {
        users.push(1); // duplicate passwd line
    }
    let mut shadow = vec![];
    // `now` in days since the epoch, plus a second-of-day
    let today = 20_000 + r.below(100) as i64;
    let now = today * 86400 + *r.pick(&[0i64, 1, 43_200, 86_399]);
    for u in 1..=nusers {
        if r.chance(1, 8) {
            continue;
        }
        let expire_days = match r.below(16) {
            0..=6 => None,
            7 | 8 => Some(today),
            9 | 10 => Some(today + 1),
            11 => Some(today - 1),
            12 => Some(0),
            13 | 14 => Some(today + 1000),
            _ => Some(-1),
        };
        shadow.push(ShadowLine { name: u, pw: gen_field(r, hs), expire_days });
        if r.chance(1, 12) {
            // a second line for the same account: the first one counts
            shadow.push(ShadowLine { name: u, pw: gen_field(r, hs), expire_days: None });
        }
    }
    let np = r.below(3);
    let mut h = gen_handler(r, np);
    h.service_info = None;
    if !r.chance(1, 6) {
        h.account = Ans::Val(r.range(1, nusers));
    }
    // usually offer the credential matching one of the hashes, sometimes another
    Case::Fb { ufp: r.chance(1, 2), iuu: r.chance(1, 3), h, now, users, shadow }
}
fn gen_pwfield(r: &mut Rng) -> String {
    let alphabet: Vec<char> = "$$$$56y!*x./abAB0 :=".chars().filter(|c| *c != ':').collect();
    let n = r.below(8);
    let mut s = String::new();
    if r.chance(1, 2) {
        s += r.pick(&["$6$", "$5$", "$y$", "$6", "$", "!$6$", "*", "$Y$", "$1$", "$2b$", ""]);
    }
    for _ in 0..n {
        s.push(*r.pick(&alphabet));
    }
    s
}

fn main() {
    // panics of the code under test are caught and reported as failures; keep stderr readable
    std::panic::set_hook(Box::new(|_| {}));
    let args = Args::parse();
    let dir = std::env::temp_dir().join(format!("verif-c43-{}", std::process::id()));
    std::fs::create_dir_all(&dir).unwrap();
    let mut ctx = Ctx {
        drv: Driver::spawn(&args.driver),
        rep: Report::new(
            "pam",
            "each evaluation = one real call of sm_authenticate_connected / sm_authenticate / sm_authenticate_fallback / acct_mgmt / \
             CryptPw::from_str; non-trivial = (conn, acct) the scripted daemon acted on at least one request, (fb) the account has a \
             passwd and a shadow line so that expiry, hash kind and verification decide; distinct = distinct request line",
        ),
        dir: dir.clone(),
        seq: 0,
        etc_users: read_etc_passwd_file("/etc/passwd").unwrap_or_default(),
        etc_shadow: read_etc_shadow_file("/etc/shadow").unwrap_or_default(),
    };
    if let Some(path) = &args.replay {
        let v: Value = serde_json::from_str(&std::fs::read_to_string(path).unwrap()).unwrap();
        let c = Case::from_json(&v["input"]["case"]);
        ctx.run(&c);
        ctx.rep.write(&args.out);
        let _ = std::fs::remove_dir_all(&dir);
        println!("c43 replay: {} cases, {} failures", ctx.rep.evaluations, ctx.rep.failures.len());
        return;
    }
    let t0 = std::time::Instant::now();
    let mut lap = t0;
    let mut timing: Vec<String> = vec![];
    let mut mark = |name: &str, lap: &mut std::time::Instant| {
        timing.push(format!("{name} {:.1}s", lap.elapsed().as_secs_f64()));
        *lap = std::time::Instant::now();
    };
    let hs = make_hashes(args.thorough());
    mark("hashes", &mut lap);
    // exhaustive: every single reply kind as the first reply, both option settings, stacked token or not
    let mut n_ex = 0;
    for ufp in [false, true] {
        for iuu in [false, true] {
            let h = HandlerScript { service_info: None, account: Ans::Val(1), authtok: Ans::Val(1), prompts: vec![Ans::Val(2), Ans::Val(2), Ans::Val(3)] };
            let mut firsts: Vec<Ev> = STEPS.iter().filter(|k| **k != "MFAPollWait").map(|k| Ev::Step(k.to_string(), 4)).collect();
            firsts.extend(OTHERS.iter().map(|k| Ev::Other(k.to_string())));
            firsts.extend([Ev::Status(Some(true)), Ev::Status(Some(false)), Ev::Status(None), Ev::Fail(1), Ev::Fail(4)]);
            for f in &firsts {
                for second in [Ev::Step("Success".into(), 4), Ev::Step("Denied".into(), 4), Ev::Fail(1)] {
                    let script = vec![f.clone(), second];
                    ctx.run(&Case::Conn { ufp, iuu, h: h.clone(), script: script.clone(), route: 0 });
                    ctx.run(&Case::Acct { iuu, h: h.clone(), script });
                    n_ex += 2;
                }
            }
        }
    }
    // ... and the daemon going quiet / away at the first or second call (1 s each: the client spins until its timeout)
    {
        let h = HandlerScript { service_info: None, account: Ans::Val(1), authtok: Ans::Nothing, prompts: vec![Ans::Val(2), Ans::Val(2), Ans::Val(3)] };
        let mut slow: Vec<Vec<Ev>> = vec![vec![], vec![Ev::Fail(0)], vec![Ev::Fail(2)], vec![Ev::Fail(3)]];
        if args.thorough() {
            for k in STEPS.iter().filter(|k| !["Unknown", "Success", "Denied", "MFAPollWait"].contains(k)) {
                slow.push(vec![Ev::Step(k.to_string(), 4)]);
                slow.push(vec![Ev::Step(k.to_string(), 4), Ev::Fail(0)]);
            }
        } else {
            slow.push(vec![Ev::Step("Password".into(), 4)]);
            slow.push(vec![Ev::Step("MFAPoll".into(), 4), Ev::Fail(2)]);
        }
        for script in slow {
            ctx.run(&Case::Conn { ufp: false, iuu: false, h: h.clone(), script, route: 2 });
            n_ex += 1;
        }
        ctx.run(&Case::Acct { iuu: false, h: h.clone(), script: vec![] });
        n_ex += 1;
        if args.thorough() {
            ctx.run(&Case::Acct { iuu: true, h: h.clone(), script: vec![Ev::Fail(2)] });
            ctx.run(&Case::Acct { iuu: true, h: h.clone(), script: vec![Ev::Fail(0)] });
            n_ex += 2;
        }
    }
    mark("exhaustive", &mut lap);
    ctx.rep.exhaustive = true;
    ctx.rep.note(format!("exhaustive: every reply kind / undecodable frame as first reply x (Success | Denied | undecodable) next x use_first_pass x ignore_unknown_user, for sm_authenticate_connected and acct_mgmt; plus the daemon going quiet or away at the first / second call = {n_ex} cases"));
    let nconn = args.cases(3_000, 60_000);
    for i in 0..nconn {
        let mut r = Rng::for_case(args.seed, i);
        let script = gen_script(&mut r, false);
        let np = r.below(8);
        let h = gen_handler(&mut r, np);
        let route = if r.chance(1, 6) { 1 } else { 0 };
        ctx.run(&Case::Conn { ufp: r.chance(1, 2), iuu: r.chance(1, 3), h, script, route });
    }
    mark("conn", &mut lap);
    // scripts in which the daemon goes quiet or away somewhere (1-2 s each)
    for i in 0..args.cases(4, 60).min(240) {
        let mut r = Rng::for_case(args.seed ^ 0x71, i);
        let script = gen_script(&mut r, true);
        let mut h = gen_handler(&mut r, 8);
        h.service_info = None;
        ctx.run(&Case::Conn { ufp: r.chance(1, 2), iuu: false, h, script, route: if i % 5 == 4 { 1 } else { 2 } });
    }
    // one MFAPollWait without a preceding MFAPoll (sleeps the default 1 s interval)
    ctx.run(&Case::Conn {
        ufp: false,
        iuu: false,
        h: HandlerScript { service_info: None, account: Ans::Val(1), authtok: Ans::Nothing, prompts: vec![] },
        script: vec![Ev::Step("MFAPollWait".into(), 3), Ev::Step("Success".into(), 3)],
        route: 0,
    });
    mark("conn-slow", &mut lap);
    let nacct = args.cases(250, 5_000);
    for i in 0..nacct {
        let mut r = Rng::for_case(args.seed ^ 0xacc7, i);
        let mut script = gen_script(&mut r, false);
        if r.chance(2, 3) {
            script.insert(0, Ev::Status(*r.pick(&[Some(true), Some(false), None])));
        }
        let h = gen_handler(&mut r, 0);
        ctx.run(&Case::Acct { iuu: r.chance(1, 2), h, script });
    }
    mark("acct", &mut lap);
    // regression (D32, repaired): sha-crypt fields whose digest part is not a canonical 43 / 86-character encoding
    // used to panic (sha256) or to verify with trailing characters; they must end in PAM_AUTH_ERR
    if !args.extra.contains_key("fb-only-case") {
        let good = hs.good.iter().find(|(h, c)| h.starts_with("$5$saltsalt") && *c == 1).map(|(h, _)| h.clone()).unwrap();
        let mut last_changed = good.clone().into_bytes();
        let n = last_changed.len();
        last_changed[n - 1] = if last_changed[n - 1] == b'z' { b'y' } else { b'z' };
        let g6 = hs.good.iter().find(|(h, c)| h.starts_with("$6$saltsalt") && *c == 1).map(|(h, _)| h.clone()).unwrap();
        let gy = hs.good.iter().find(|(h, c)| h.starts_with("$y$j75$") && *c == 1).map(|(h, _)| h.clone()).unwrap();
        let mut g6_last = g6.clone().into_bytes();
        let n6 = g6_last.len();
        g6_last[n6 - 1] = if g6_last[n6 - 1] == b'z' { b'y' } else { b'z' };
        let witnesses = vec![
            format!("{g6}a"),
            format!("{g6}ab"),
            String::from_utf8(g6_last).unwrap(),
            format!("{gy}a"),
            format!("{}", &gy[..gy.len() - 1]),
            format!("{good}$"),
            format!("{good}ab"),
            "$5$saltsalt$short".to_string(),
            format!("{}", &good[..good.len() - 1]),
            format!("{good}a"),
            String::from_utf8(last_changed).unwrap(),
            "$5$saltsalt$!!!!!!!!!!!!!!!!!!!!!!!!!!!!!!!!!!!!!!!!!!!".to_string(),
            "$6$saltsalt$short".to_string(),
            "$y$j75$F5Jx5fExrKuPp53xLKQ..1$short".to_string(),
        ];
        for w in witnesses {
            ctx.run(&Case::Fb {
                ufp: false,
                iuu: false,
                h: HandlerScript { service_info: None, account: Ans::Val(1), authtok: Ans::Nothing, prompts: vec![Ans::Val(1)] },
                now: 1_700_000_000,
                users: vec![1],
                shadow: vec![ShadowLine { name: 1, pw: w, expire_days: None }],
            });
        }
    }
    let nfb = args.cases(1_200, 25_000);
    for i in 0..nfb {
        if let Some(only) = args.extra.get("fb-only-case") {
            if only.parse::<u64>().ok() != Some(i) {
                continue;
            }
        }
        let mut r = Rng::for_case(args.seed ^ 0xfb, i);
        let c = gen_fb(&mut r, &hs);
        ctx.run(&c);
    }
    mark("fb", &mut lap);
    let netc = args.cases(40, 400);
    let nreal = ctx.etc_users.len();
    for i in 0..netc {
        let mut r = Rng::for_case(args.seed ^ 0xe7c, i);
        let account = if nreal == 0 || r.chance(1, 4) { None } else { Some(r.below(nreal as u64) as usize) };
        ctx.run(&Case::Etc { acct_mgmt: r.chance(1, 2), ufp: r.chance(1, 2), iuu: r.chance(1, 2), account, prompt: r.range(1, 3) });
    }
    mark("etc", &mut lap);
    let ncrypt = args.cases(2_000, 40_000);
    for i in 0..ncrypt {
        let mut r = Rng::for_case(args.seed ^ 0xc4, i);
        ctx.run(&Case::Crypt { pw: gen_pwfield(&mut r) });
    }
    mark("crypt", &mut lap);
    ctx.rep.note(format!("time per stream: {}", timing.join(", ")));
    ctx.rep.model_requests = ctx.drv.requests;
    ctx.rep.note(format!("{} good hashes from libcrypt (sha512, sha256, yescrypt), {} unsupported-scheme hashes; /etc/passwd has {} entries, /etc/shadow {}", hs.good.len(), hs.unsupported.len(), ctx.etc_users.len(), ctx.etc_shadow.len()));
    ctx.rep.write(&args.out);
    let _ = std::fs::remove_dir_all(&dir);
    println!("c43: {} cases, {} failures", ctx.rep.evaluations, ctx.rep.failures.len());
}
