//! Helpers shared by the unix-integration harness binaries (`src/bin/cXX.rs`).
pub use hcommon::*;
