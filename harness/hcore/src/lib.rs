//! Helpers shared by the kanidmd_core-linked harness binaries (`src/bin/cXX.rs`).
pub use hcommon::*;

// `codec.rs` expects `error!` / `trace!` in scope the way kanidmd_core's crate root provides them.
#[cfg(not(feature = "link-core"))]
#[macro_use]
extern crate tracing;

/// C14: the replication wire codec — the real source file, compiled here unchanged.
#[cfg(not(feature = "link-core"))]
#[path = "/repo/server/core/src/repl/codec.rs"]
#[allow(dead_code, unused_imports)]
pub mod repl_codec;

/// C14: the replication wire codec — from the compiled `kanidmd_core` crate.
#[cfg(feature = "link-core")]
pub use kanidmd_core::verif_hooks::c14 as repl_codec;
