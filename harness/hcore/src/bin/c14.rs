//! C14 — replication wire framing: correspondence + oracle for the REAL `ConsumerCodec` /
//! `SupplierCodec` (server/core/src/repl/codec.rs: by default that very file compiled into `hcore`,
//! with `--features link-core` the compiled `kanidmd_core` through `verif_hooks::c14`).
//!
//! A case = direction, frame limit `max`, a byte stream built segment by segment (real messages
//! through the real encoder, hand-made bad frames: zero header, oversize header, non-JSON
//! payload, a truncated last frame, or plain garbage) and a schedule of reads (chunking).
//! For each case
//!   * the real decoder is driven like `Framed` does (append the read, `decode` until `Ok(None)`,
//!     stop at the first `Err`), recording per read: frames taken (payload length + hash of the
//!     bytes consumed), buffer length, error kind;
//!   * the Lean model (`km_c14`, function `feedAll`/`feed`) gets the same chunks and must print
//!     the same trace ("impl-vs-model");
//!   * the oracle, written from the property text and the stream's construction only (no
//!     model): messages delivered == messages sent before the first bad frame, in order; clean
//!     end / exact pending byte count / the right error raised exactly at the read that
//!     completes the bad header (not later: "rejected rather than buffered"); the same
//!     outcome as delivering the whole stream in one read; and the same through the real
//!     `tokio_util::codec::FramedRead` over an `AsyncRead` that hands out the chunks
//!     ("impl-vs-oracle").
use bytes::BytesMut;
use futures_util::StreamExt;
use hcore::*;
use hcore::repl_codec::{
    ConsumerCodec, ConsumerRequest, SupplierCodec, SupplierResponse, CODEC_BYTESMUT_ALLOCATION_LIMIT,
};
use kanidmd_lib::repl::proto::{
    ReplAnchoredCidRange, ReplCidRange, ReplEntryV1, ReplIncrementalContext, ReplIncrementalEntryV1,
    ReplRefreshContext, ReplRuvRange,
};
use serde_json::{json, Value};
use std::collections::BTreeMap;
use std::io;
use std::pin::Pin;
use std::task::{Context, Poll};
use std::time::Duration;
use tokio::io::{AsyncRead, ReadBuf};
use tokio_util::codec::{Decoder, Encoder, FramedRead};
use uuid::Uuid;

// ---------------------------------------------------------------------------------------------
// messages

#[derive(Clone, Copy, PartialEq, Eq, Debug)]
enum Dir {
    /// consumer → supplier: `ConsumerCodec` encodes `ConsumerRequest`, `SupplierCodec` decodes it
    C2S,
    /// supplier → consumer: `SupplierCodec` encodes `SupplierResponse`, `ConsumerCodec` decodes it
    S2C,
}

impl Dir {
    fn name(self) -> &'static str {
        match self {
            Dir::C2S => "c2s",
            Dir::S2C => "s2c",
        }
    }
    fn parse(s: &str) -> Dir {
        if s == "c2s" {
            Dir::C2S
        } else {
            Dir::S2C
        }
    }
}

enum AnyMsg {
    Req(ConsumerRequest),
    Resp(SupplierResponse),
}

impl AnyMsg {
    fn value(&self) -> Value {
        match self {
            AnyMsg::Req(m) => serde_json::to_value(m).unwrap(),
            AnyMsg::Resp(m) => serde_json::to_value(m).unwrap(),
        }
    }
    /// serde_json's own serialisation of the typed message (independent of the codec).
    fn payload(&self) -> Vec<u8> {
        match self {
            AnyMsg::Req(m) => serde_json::to_vec(m).unwrap(),
            AnyMsg::Resp(m) => serde_json::to_vec(m).unwrap(),
        }
    }
    /// The REAL encoder, appending to `dst`.
    fn encode(self, dst: &mut BytesMut) -> io::Result<()> {
        match self {
            AnyMsg::Req(m) => ConsumerCodec::new(0).encode(m, dst),
            AnyMsg::Resp(m) => SupplierCodec::new(0).encode(m, dst),
        }
    }
}

fn uuid_of(r: &mut Rng) -> Uuid {
    Uuid::from_u128(((r.next() as u128) << 64) | r.next() as u128)
}

fn dur(r: &mut Rng) -> Duration {
    Duration::new(r.below(4_000_000_000), r.below(1_000_000_000) as u32)
}

fn tombstone_json(r: &mut Rng) -> Value {
    let d = dur(r);
    json!({"uuid": uuid_of(r), "st": {"Tombstone": {"at": {"t": {"secs": d.as_secs(), "nanos": d.subsec_nanos()}, "s": uuid_of(r)}}}})
}

fn anchored(r: &mut Rng, size: u64) -> BTreeMap<Uuid, ReplAnchoredCidRange> {
    let n = r.below(size.min(6) + 1);
    (0..n)
        .map(|_| {
            let k = r.below(size + 1);
            (uuid_of(r), ReplAnchoredCidRange { ts_min: dur(r), anchors: (0..k).map(|_| dur(r)).collect(), ts_max: dur(r) })
        })
        .collect()
}

/// `size` steers the payload length (0 = the smallest messages, 6..9 byte payloads).
fn gen_msg(dir: Dir, r: &mut Rng, size: u64) -> AnyMsg {
    match dir {
        Dir::C2S => AnyMsg::Req(match if size == 0 { r.below(2) } else { r.below(4) } {
            0 => ConsumerRequest::Ping,
            1 => ConsumerRequest::Refresh,
            _ => {
                let n = r.below(size * 2 + 1);
                ConsumerRequest::Incremental(ReplRuvRange::V1 {
                    domain_uuid: uuid_of(r),
                    ranges: (0..n).map(|_| (uuid_of(r), ReplCidRange { ts_min: dur(r), ts_max: dur(r) })).collect(),
                })
            }
        }),
        Dir::S2C => AnyMsg::Resp(match if size == 0 { 0 } else { r.below(8) } {
            0 => SupplierResponse::Pong,
            1 => SupplierResponse::Incremental(ReplIncrementalContext::DomainMismatch),
            2 => SupplierResponse::Incremental(ReplIncrementalContext::NoChangesAvailable),
            3 => SupplierResponse::Incremental(ReplIncrementalContext::RefreshRequired),
            4 => SupplierResponse::Incremental(ReplIncrementalContext::UnwillingToSupply),
            5 | 6 => {
                let ne = r.below(size + 1);
                let entries: Vec<ReplIncrementalEntryV1> =
                    (0..ne).map(|_| serde_json::from_value(tombstone_json(r)).expect("ReplIncrementalEntryV1 json")).collect();
                SupplierResponse::Incremental(ReplIncrementalContext::V1 {
                    domain_version: r.below(20) as u32,
                    domain_patch_level: r.below(3) as u32,
                    domain_uuid: uuid_of(r),
                    ranges: anchored(r, size),
                    schema_entries: vec![],
                    meta_entries: vec![],
                    entries,
                })
            }
            _ => {
                let ne = r.below(size + 1);
                let entries: Vec<ReplEntryV1> =
                    (0..ne).map(|_| serde_json::from_value(tombstone_json(r)).expect("ReplEntryV1 json")).collect();
                SupplierResponse::Refresh(ReplRefreshContext::V1 {
                    domain_version: r.below(20) as u32,
                    domain_devel: r.chance(1, 2),
                    domain_uuid: uuid_of(r),
                    ranges: anchored(r, size),
                    schema_entries: vec![],
                    meta_entries: entries,
                    entries: vec![],
                })
            }
        }),
    }
}

// ---------------------------------------------------------------------------------------------
// the real decoder, driven like Framed

enum AnyDec {
    Sup(SupplierCodec),
    Con(ConsumerCodec),
}

impl AnyDec {
    fn new(dir: Dir, max: usize) -> AnyDec {
        match dir {
            Dir::C2S => AnyDec::Sup(SupplierCodec::new(max)),
            Dir::S2C => AnyDec::Con(ConsumerCodec::new(max)),
        }
    }
}

impl Decoder for AnyDec {
    type Item = Value;
    type Error = io::Error;
    fn decode(&mut self, src: &mut BytesMut) -> Result<Option<Value>, io::Error> {
        Ok(match self {
            AnyDec::Sup(c) => c.decode(src)?.map(|m| serde_json::to_value(&m).unwrap()),
            AnyDec::Con(c) => c.decode(src)?.map(|m| serde_json::to_value(&m).unwrap()),
        })
    }
}

fn fnv(b: &[u8]) -> u64 {
    let mut h: u64 = 0xcbf29ce484222325;
    for x in b {
        h ^= *x as u64;
        h = h.wrapping_mul(0x100000001b3);
    }
    h
}

fn err_kind(e: &io::Error) -> &'static str {
    let msg = e.to_string();
    match e.kind() {
        io::ErrorKind::InvalidInput if msg.contains("empty request") => "zero",
        io::ErrorKind::InvalidInput if msg.contains("JSON decode error") => "json",
        io::ErrorKind::OutOfMemory => "big",
        _ if msg.contains("bytes remaining on stream") => "eof-remaining",
        _ => "other",
    }
}

#[derive(Default, Debug)]
struct Run {
    /// per read, in the driver's reply format
    trace: Vec<String>,
    msgs: Vec<Value>,
    fault: Option<&'static str>,
    fault_read: Option<usize>,
    final_buf: usize,
    /// hash of the payload serde_json rejected (tells the model's abstract `parse`)
    bad_hash: Option<u64>,
    anomalies: Vec<String>,
}

fn run_impl(dir: Dir, max: usize, chunks: &[Vec<u8>]) -> Run {
    run_impl_cap(dir, max, chunks, None)
}

/// `cap`: the read buffer starts with that capacity (what a connection's buffer looks like after
/// a large frame went through it); `None` = a fresh `BytesMut::new()`.
fn run_impl_cap(dir: Dir, max: usize, chunks: &[Vec<u8>], cap: Option<usize>) -> Run {
    let mut dec = AnyDec::new(dir, max);
    let mut buf = match cap {
        Some(n) => BytesMut::with_capacity(n),
        None => BytesMut::new(),
    };
    let mut run = Run::default();
    for (ri, chunk) in chunks.iter().enumerate() {
        if run.fault.is_some() {
            run.trace.push("d".into());
            continue;
        }
        buf.extend_from_slice(chunk);
        let mut frames: Vec<String> = vec![];
        let tail;
        loop {
            let before = buf.to_vec();
            // a panic inside the decoder (split_at / advance out of range, debug_assert) is a
            // finding with a replayable input, not a crash of the harness
            let res = match std::panic::catch_unwind(std::panic::AssertUnwindSafe(|| dec.decode(&mut buf))) {
                Ok(r) => r,
                Err(_) => {
                    run.anomalies.push(format!("read {ri}: decode PANICKED on a {}-byte buffer", before.len()));
                    run.fault = Some("panic");
                    run.fault_read = Some(ri);
                    tail = format!("epanic:{}", before.len());
                    break;
                }
            };
            match res {
                Ok(Some(v)) => {
                    let consumed = before.len() as i64 - buf.len() as i64;
                    if consumed < 8 || before[consumed as usize..] != buf[..] {
                        run.anomalies.push(format!("read {ri}: frame consumed {consumed} bytes / remainder is not the suffix"));
                        run.fault = Some("anomaly");
                        run.fault_read = Some(ri);
                        tail = format!("eanomaly:{}", buf.len());
                        break;
                    }
                    let payload = &before[8..consumed as usize];
                    frames.push(format!("f{}:{}", payload.len(), fnv(payload)));
                    // the abstraction "parse is a function of the payload bytes"
                    if serde_json::from_slice::<Value>(payload).ok() != Some(v.clone()) {
                        run.anomalies.push(format!("read {ri}: delivered message is not the JSON of the bytes consumed"));
                    }
                    run.msgs.push(v);
                }
                Ok(None) => {
                    if before[..] != buf[..] {
                        run.anomalies.push(format!("read {ri}: Ok(None) changed the buffer"));
                    }
                    tail = format!("n{}", buf.len());
                    break;
                }
                Err(e) => {
                    let k = err_kind(&e);
                    if k == "json" {
                        let consumed = before.len().saturating_sub(buf.len());
                        if consumed >= 8 {
                            run.bad_hash = Some(fnv(&before[8..consumed]));
                        }
                    } else if before[..] != buf[..] {
                        run.anomalies.push(format!("read {ri}: Err({k}) changed the buffer"));
                    }
                    run.fault = Some(k);
                    run.fault_read = Some(ri);
                    tail = format!("e{k}:{}", buf.len());
                    break;
                }
            }
        }
        run.trace.push(if frames.is_empty() { tail } else { format!("{} {}", frames.join(","), tail) });
    }
    run.final_buf = buf.len();
    run
}

/// `AsyncRead` that hands out exactly the scheduled chunks (never more than one per poll).
struct ChunkReader {
    chunks: Vec<Vec<u8>>,
    idx: usize,
    off: usize,
}

impl AsyncRead for ChunkReader {
    fn poll_read(mut self: Pin<&mut Self>, _cx: &mut Context<'_>, out: &mut ReadBuf<'_>) -> Poll<io::Result<()>> {
        while self.idx < self.chunks.len() && self.off >= self.chunks[self.idx].len() {
            self.idx += 1;
            self.off = 0;
        }
        if self.idx >= self.chunks.len() {
            return Poll::Ready(Ok(())); // EOF
        }
        let (idx, off) = (self.idx, self.off);
        let n = (self.chunks[idx].len() - off).min(out.remaining());
        out.put_slice(&self.chunks[idx][off..off + n]);
        self.off += n;
        Poll::Ready(Ok(()))
    }
}

/// The same chunks through the real `FramedRead`: (messages, terminal error kind).
fn run_framed(rt: &tokio::runtime::Runtime, dir: Dir, max: usize, chunks: &[Vec<u8>], cap: Option<usize>) -> (Vec<Value>, Option<&'static str>) {
    let reader = ChunkReader { chunks: chunks.iter().filter(|c| !c.is_empty()).cloned().collect(), idx: 0, off: 0 };
    let mut fr = match cap {
        Some(n) => FramedRead::with_capacity(reader, AnyDec::new(dir, max), n),
        None => FramedRead::new(reader, AnyDec::new(dir, max)),
    };
    let r = std::panic::catch_unwind(std::panic::AssertUnwindSafe(|| run_framed_inner(rt, &mut fr)));
    r.unwrap_or((vec![], Some("panic")))
}

fn run_framed_inner(rt: &tokio::runtime::Runtime, fr: &mut FramedRead<ChunkReader, AnyDec>) -> (Vec<Value>, Option<&'static str>) {
    rt.block_on(async {
        let mut msgs = vec![];
        loop {
            match fr.next().await {
                Some(Ok(v)) => msgs.push(v),
                Some(Err(e)) => return (msgs, Some(err_kind(&e))),
                None => return (msgs, None),
            }
        }
    })
}

// ---------------------------------------------------------------------------------------------
// stream construction and the expectation the property text attaches to it

#[derive(Clone, Debug, PartialEq)]
enum End {
    /// all frames delivered, nothing pending
    Clean,
    /// a proper prefix of a legitimate frame is pending: that many bytes stay buffered
    Pending(usize),
    /// the stream must end with this error, raised by the read that delivers byte `at_byte`
    Fault { kind: String, at_byte: usize },
    /// garbage: only chunking-independence is demanded
    Unknown,
}

struct Case {
    dir: Dir,
    max: usize,
    stream: Vec<u8>,
    sent: Vec<Value>,
    end: End,
    /// frame boundaries (for the non-triviality rule and histogram)
    bounds: Vec<usize>,
    limit_edge: bool,
    label: String,
    /// initial capacity of the decoder's read buffer (None = fresh buffer); the model has no
    /// capacity, so it is not part of the model request: the trace must not depend on it
    cap: Option<usize>,
}

fn hex(b: &[u8]) -> String {
    if b.is_empty() {
        return "-".into();
    }
    let mut s = String::with_capacity(b.len() * 2);
    for x in b {
        s.push_str(&format!("{x:02x}"));
    }
    s
}

fn unhex(s: &str) -> Vec<u8> {
    if s == "-" {
        return vec![];
    }
    (0..s.len() / 2).map(|i| u8::from_str_radix(&s[2 * i..2 * i + 2], 16).unwrap()).collect()
}

#[derive(Clone, Copy, PartialEq, Debug)]
enum Tail {
    None,
    Zero,
    BigHdr,
    BigMsg,
    BadJson,
    Truncated,
    Garbage,
}

/// Build a stream: `nmsgs` legitimate messages, then the tail, then (after a bad frame) maybe
/// more legitimate frames that must NOT be delivered. `edge`: choose `max` at -1/0/+1 around a
/// real payload length.
fn build_case(dir: Dir, r: &mut Rng, nmsgs: u64, size: u64, tail: Tail, edge: bool) -> Case {
    let mut msgs: Vec<AnyMsg> = (0..nmsgs)
        .map(|_| {
            let sz = if r.chance(1, 3) { 0 } else { size };
            gen_msg(dir, r, sz)
        })
        .collect();
    let mut stream = BytesMut::new();
    let mut frame_lens = vec![];
    let mut vals = vec![];
    for m in msgs.drain(..) {
        vals.push(m.value());
        let before = stream.len();
        m.encode(&mut stream).expect("encode");
        frame_lens.push(stream.len() - before - 8);
    }
    let biggest = frame_lens.iter().copied().max().unwrap_or(8);
    let mut limit_edge = false;
    let mut max = biggest + r.below(if size == 0 { 4 } else { 64 }) as usize;
    if edge && !frame_lens.is_empty() {
        // a limit one below / at / one above some real payload length
        let l = *r.pick(&frame_lens);
        max = match r.below(3) {
            0 => l.saturating_sub(1),
            1 => l,
            _ => l + 1,
        };
        limit_edge = true;
    }
    // expectation: frames up to the first over-limit one
    let mut sent = vec![];
    let mut bounds = vec![];
    let mut end = End::Clean;
    let mut pos = 0usize;
    for (v, l) in vals.iter().zip(frame_lens.iter()) {
        if *l > max {
            end = End::Fault { kind: "big".into(), at_byte: pos + 7 };
            break;
        }
        sent.push(v.clone());
        pos += 8 + l;
        bounds.push(pos);
    }
    let mut label = format!("{tail:?}");
    if end == End::Clean {
        let start = stream.len();
        match tail {
            Tail::None => {}
            Tail::Zero => {
                stream.extend_from_slice(&0u64.to_be_bytes());
                let extra = r.below(12) as usize;
                stream.extend_from_slice(&r.bytes(extra));
                end = End::Fault { kind: "zero".into(), at_byte: start + 7 };
            }
            Tail::BigHdr => {
                let l: u64 = match r.below(6) {
                    0 => max as u64 + 1,
                    1 => max as u64 + 2,
                    2 => 1 << 32,
                    3 => 1 << 63,
                    4 => u64::MAX,
                    _ => max as u64 + 1 + r.below(1000),
                };
                stream.extend_from_slice(&l.to_be_bytes());
                // none, some, or (when small) all of the announced payload present
                let extra = match r.below(3) {
                    0 => 0,
                    1 => r.below(20) as usize,
                    _ => (l.min(4096)) as usize,
                };
                stream.extend_from_slice(&r.bytes(extra));
                end = End::Fault { kind: "big".into(), at_byte: start + 7 };
            }
            Tail::BigMsg => {
                // a REAL message over the limit (a few tries with growing size; if none is
                // over the limit it simply is one more legitimate frame)
                let mut m = gen_msg(dir, r, size);
                for t in 0..6 {
                    if m.payload().len() > max {
                        break;
                    }
                    m = gen_msg(dir, r, size + 1 + t);
                }
                let v = m.value();
                let before = stream.len();
                m.encode(&mut stream).expect("encode");
                let l = stream.len() - before - 8;
                if l > max {
                    end = End::Fault { kind: "big".into(), at_byte: start + 7 };
                } else {
                    sent.push(v);
                    bounds.push(stream.len());
                }
            }
            Tail::BadJson => {
                let l = (1 + r.below(max.max(1).min(40) as u64)) as usize;
                if l <= max {
                    stream.extend_from_slice(&(l as u64).to_be_bytes());
                    let payload: Vec<u8> = (0..l).map(|i| b"!x}"[i % 3]).collect();
                    stream.extend_from_slice(&payload);
                    end = End::Fault { kind: "json".into(), at_byte: start + 8 + l - 1 };
                }
            }
            Tail::Truncated => {
                let m = gen_msg(dir, r, size);
                let mut one = BytesMut::new();
                m.encode(&mut one).expect("encode");
                if one.len() - 8 <= max {
                    let keep = 1 + r.below(one.len() as u64 - 1) as usize;
                    stream.extend_from_slice(&one[..keep]);
                    end = End::Pending(keep);
                } else {
                    stream.extend_from_slice(&one[..]);
                    end = End::Fault { kind: "big".into(), at_byte: start + 7 };
                }
            }
            Tail::Garbage => {
                let n = 1 + r.below(60) as usize;
                let mut g = r.bytes(n);
                // make the length field plausible most of the time
                if r.chance(3, 4) {
                    for b in g.iter_mut().take(7) {
                        *b = 0;
                    }
                }
                stream.extend_from_slice(&g);
                end = End::Unknown;
            }
        }
        // after a bad frame: more legitimate frames that must not be delivered
        if matches!(end, End::Fault { .. }) && r.chance(1, 2) {
            gen_msg(dir, r, 0).encode(&mut stream).expect("encode");
        }
    } else {
        label = "BigMsg(edge)".into();
    }
    Case { dir, max, stream: stream.to_vec(), sent, end, bounds, limit_edge, label, cap: None }
}

fn split(stream: &[u8], cuts: &[usize]) -> Vec<Vec<u8>> {
    let mut out = vec![];
    let mut prev = 0;
    for c in cuts {
        out.push(stream[prev..*c].to_vec());
        prev = *c;
    }
    out.push(stream[prev..].to_vec());
    out
}

// ---------------------------------------------------------------------------------------------

struct Ctx {
    drv: Driver,
    rep: Report,
    rt: tokio::runtime::Runtime,
    framed_every: u64,
}

impl Ctx {
    fn fail(&mut self, kind: &str, input: &Value, expected: String, observed: String) {
        self.rep.fail(Failure { kind: kind.into(), class: "unclassified".into(), input: input.clone(), expected, observed });
    }

    /// One case under one chunking: impl, model, oracle.
    fn eval(&mut self, c: &Case, chunks: &[Vec<u8>], exhaustive: bool) {
        let input = json!({
            "dir": c.dir.name(), "max": c.max, "label": c.label, "capacity": c.cap,
            "chunks": chunks.iter().map(|x| hex(x)).collect::<Vec<_>>(),
            "sent": c.sent,
            "end": match &c.end {
                End::Clean => json!("clean"),
                End::Pending(k) => json!({"pending": k}),
                End::Fault { kind, at_byte } => json!({"fault": kind, "at_byte": at_byte}),
                End::Unknown => json!("unknown"),
            },
        });
        let run = run_impl_cap(c.dir, c.max, chunks, c.cap);

        // ---- model
        let line = format!(
            "run {} {} {}",
            c.max,
            run.bad_hash.map(|h| h.to_string()).unwrap_or_else(|| "-".into()),
            chunks.iter().map(|x| hex(x)).collect::<Vec<_>>().join(" ")
        );
        let model = self.drv.ask(&line);
        let got = run.trace.join(";");
        if model != got {
            self.fail("impl-vs-model", &input, model.clone(), got.clone());
        }

        // ---- oracle (property text + construction of the stream; no model)
        let mut problems: Vec<String> = run.anomalies.clone();
        if c.end != End::Unknown && run.msgs != c.sent {
            problems.push(format!("delivered {} messages, sent {} before the first bad frame; sequences differ", run.msgs.len(), c.sent.len()));
        }
        // read index that delivers byte `b`
        let read_of = |b: usize| -> Option<usize> {
            let mut acc = 0;
            for (i, ch) in chunks.iter().enumerate() {
                acc += ch.len();
                if acc > b {
                    return Some(i);
                }
            }
            None
        };
        match &c.end {
            End::Clean => {
                if run.fault.is_some() || run.final_buf != 0 {
                    problems.push(format!("expected a clean end, got fault {:?}, {} bytes pending", run.fault, run.final_buf));
                }
            }
            End::Pending(k) => {
                if run.fault.is_some() || run.final_buf != *k {
                    problems.push(format!("expected {k} bytes pending and no error, got fault {:?}, {} pending", run.fault, run.final_buf));
                }
            }
            End::Fault { kind, at_byte } => {
                if run.fault != Some(kind.as_str()) {
                    problems.push(format!("expected the stream to end with error `{kind}`, got {:?}", run.fault));
                } else if run.fault_read != read_of(*at_byte) {
                    problems.push(format!(
                        "error `{kind}` must be raised by read #{:?} (the one delivering byte {at_byte}), was raised by read #{:?}",
                        read_of(*at_byte), run.fault_read
                    ));
                }
            }
            End::Unknown => {}
        }
        // chunking independence against the implementation itself
        if chunks.len() > 1 || c.cap.is_some() {
            let whole = run_impl(c.dir, c.max, &[c.stream.clone()]);
            if whole.msgs != run.msgs || whole.fault != run.fault || (run.fault.is_none() && whole.final_buf != run.final_buf) {
                problems.push(format!(
                    "one read of the whole stream gives {} messages / fault {:?} / {} pending, this chunking gives {} / {:?} / {}",
                    whole.msgs.len(), whole.fault, whole.final_buf, run.msgs.len(), run.fault, run.final_buf
                ));
            }
        }
        // the real FramedRead on the same chunks
        if self.rep.evaluations % self.framed_every == 0 {
            let (fmsgs, ferr) = run_framed(&self.rt, c.dir, c.max, chunks, c.cap);
            self.rep.count("framed-read:runs");
            let want_err: Option<&str> = match (&run.fault, run.final_buf) {
                (Some(k), _) => Some(k),
                (None, 0) => None,
                (None, _) => Some("eof-remaining"),
            };
            if fmsgs != run.msgs || ferr != want_err {
                problems.push(format!(
                    "FramedRead delivers {} messages / ends with {:?}; the decode loop delivers {} / {:?}",
                    fmsgs.len(), ferr, run.msgs.len(), want_err
                ));
            }
            if c.end != End::Unknown && fmsgs != c.sent {
                problems.push("FramedRead: delivered sequence differs from the sent sequence".into());
            }
        }
        if !problems.is_empty() {
            self.fail("impl-vs-oracle", &input, format!("sent {} messages, end {:?}", c.sent.len(), c.end), problems.join(" | "));
        }

        // ---- bookkeeping
        let mut cut = 0;
        let mut inside = false;
        for ch in &chunks[..chunks.len() - 1] {
            cut += ch.len();
            if cut > 0 && cut < c.stream.len() && !c.bounds.contains(&cut) {
                inside = true;
            }
        }
        let frames_total = c.bounds.len() + usize::from(c.end != End::Clean);
        let nontrivial = chunks.len() >= 2 && inside && (frames_total >= 2 || c.limit_edge || matches!(c.end, End::Fault { .. } | End::Pending(_)));
        self.rep.case(if nontrivial { Some(format!("{:016x}{}", fnv(line.as_bytes()), c.cap.map(|n| format!("@{n}")).unwrap_or_default())) } else { None });
        if let Some(n) = c.cap {
            self.rep.count(&format!("read-buffer-capacity:{}", if n >= CODEC_BYTESMUT_ALLOCATION_LIMIT { ">=allocation-limit" } else { "<allocation-limit" }));
        }
        self.rep.count(&format!("tail:{}", c.label));
        self.rep.count(&format!("dir:{}", c.dir.name()));
        self.rep.count(&format!("end:{}", match (&run.fault, run.final_buf) {
            (Some(k), _) => format!("err-{k}"),
            (None, 0) => "clean".into(),
            (None, _) => "pending".into(),
        }));
        self.rep.count(&format!("chunks:{}", match chunks.len() { 1 => "1", 2 => "2", 3 => "3", 4 => "4", 5..=16 => "5-16", _ => "17+" }));
        self.rep.count(&format!("frames:{}", match run.msgs.len() { 0 => "0", 1 => "1", 2..=3 => "2-3", 4..=8 => "4-8", _ => "9+" }));
        self.rep.count(&format!("stream-bytes:{}", match c.stream.len() { 0..=31 => "<32", 32..=255 => "32-255", 256..=2047 => "256-2047", _ => "2048+" }));
        if c.limit_edge {
            self.rep.count("limit-edge(max in len-1/len/len+1)");
        }
        if exhaustive {
            self.rep.count("exhaustive-split-cases");
        }
        if (self.rep.evaluations % 7919 == 1 || (nontrivial && self.rep.samples.len() < 2)) && line.len() < 600 {
            self.rep.sample(json!({"request": line, "impl": got, "model": model, "expected_end": format!("{:?}", c.end), "sent": c.sent.len()}));
        }
    }

    /// Every split of the stream into ≤ `parts` non-empty chunks.
    fn exhaustive(&mut self, c: &Case, parts: usize) {
        let n = c.stream.len();
        self.eval(c, &[c.stream.clone()], true);
        if n < 2 {
            return;
        }
        for a in 1..n {
            self.eval(c, &split(&c.stream, &[a]), true);
            if parts < 3 {
                continue;
            }
            for b in a + 1..n {
                self.eval(c, &split(&c.stream, &[a, b]), true);
                if parts < 4 {
                    continue;
                }
                for d in b + 1..n {
                    self.eval(c, &split(&c.stream, &[a, b, d]), true);
                }
            }
        }
    }

    /// The encoder against the model's `encode`: same bytes for the same payload and `dst`.
    fn encoder_case(&mut self, dir: Dir, r: &mut Rng) {
        let sz = r.below(3);
        let m = gen_msg(dir, r, sz);
        let payload = m.payload();
        let want = m.value();
        let pre = r.below(24) as usize;
        let dst0 = r.bytes(pre);
        let mut dst = BytesMut::new();
        dst.extend_from_slice(&dst0);
        m.encode(&mut dst).expect("encode");
        let model = self.drv.ask(&format!("enc {} {}", hex(&payload), hex(&dst0)));
        self.rep.count("encoder-cases");
        let input = json!({"op": "enc", "dir": dir.name(), "payload": hex(&payload), "dst": hex(&dst0)});
        if model != hex(&dst) {
            self.fail("impl-vs-model", &input, model, hex(&dst));
        }
        // oracle: `dst` untouched, and what was appended decodes (alone) to the same message
        let mut problems = vec![];
        if dst[..pre] != dst0[..] {
            problems.push("encoder changed bytes already in dst".to_string());
        }
        let mut only = BytesMut::from(&dst[pre..]);
        let mut dec = AnyDec::new(dir, payload.len());
        match dec.decode(&mut only) {
            Ok(Some(v)) if v == want && only.is_empty() => {}
            other => problems.push(format!("what the encoder appended does not decode back alone: {other:?}")),
        }
        if !problems.is_empty() {
            self.fail("impl-vs-oracle", &input, "dst ++ one decodable frame".into(), problems.join(" | "));
        }
    }

    /// Directed, always run: a read buffer whose CAPACITY is just below / at / above the codec's
    /// allocation limit (the state after a large frame) receiving three small frames, with the
    /// second frame arriving in two reads: cut inside its header, at the end of its header, inside
    /// its body, exactly at the frame boundary, and one read carrying frames one and two whole.
    /// Judged by `eval` like any other case (delivered == sent, clean end, same as one read of the
    /// whole stream, same through FramedRead with that capacity, same trace as the model).
    fn capacity_cases(&mut self, dir: Dir, r: &mut Rng, size: u64) {
        // three messages (every payload is at least 6 bytes); the smallest ones first so that the
        // first failure reported is the easiest to read
        let msgs: Vec<AnyMsg> = vec![gen_msg(dir, r, 0), gen_msg(dir, r, size), gen_msg(dir, r, 0)];
        let mut stream = BytesMut::new();
        let mut sent = vec![];
        let mut bounds = vec![];
        let mut max = 0;
        for m in msgs {
            sent.push(m.value());
            let before = stream.len();
            m.encode(&mut stream).expect("encode");
            max = max.max(stream.len() - before - 8);
            bounds.push(stream.len());
        }
        let (b1, b2, n) = (bounds[0], bounds[1], stream.len());
        let lim = CODEC_BYTESMUT_ALLOCATION_LIMIT;
        // capacities: around the limit itself, around "limit after the first frame was consumed",
        // and well beyond
        let caps = [lim - 1, lim, lim + 1, lim + b1 - 1, lim + b1, lim + b1 + 1, lim + 4096, 2 * lim];
        let cut_sets: Vec<Vec<usize>> = vec![
            vec![b1 + 3, b2],     // inside the header of frame two
            vec![b1 + 8, b2],     // header of frame two complete, no body yet
            vec![b1 + 9, b2],     // inside the body of frame two
            vec![b2 - 1, b2],     // all but the last byte of frame two
            vec![b1, b2],         // exactly at the boundary
            vec![b2],             // frames one and two in one read (pipelined)
            vec![b1 + 3],         // rest of two and all of three in one read
            vec![b1 + 3, b2 + 5], // both following frames fragmented
        ];
        for cap in caps {
            for cuts in &cut_sets {
                let cuts: Vec<usize> = cuts.iter().copied().filter(|c| *c > 0 && *c < n).collect();
                let c = Case {
                    dir,
                    max,
                    stream: stream.to_vec(),
                    sent: sent.clone(),
                    end: End::Clean,
                    bounds: bounds.clone(),
                    limit_edge: false,
                    label: "Capacity".into(),
                    cap: Some(cap),
                };
                self.eval(&c, &split(&c.stream, &cuts), false);
            }
        }
    }

    /// Buffers beyond CODEC_BYTESMUT_ALLOCATION_LIMIT (capacity recycling): implementation and
    /// oracle only (the model has no capacity). The > 8 MiB frame is `"Pong"` followed by JSON
    /// whitespace (cheap to parse unoptimised), hand-framed like the other hand-made tails.
    fn big_buffer_case(&mut self, r: &mut Rng) {
        let pad = CODEC_BYTESMUT_ALLOCATION_LIMIT + 1 + r.below(100_000) as usize;
        let mut payload = b"\"Pong\"".to_vec();
        payload.resize(payload.len() + pad, b' ');
        let total = payload.len();
        let mut stream = (total as u64).to_be_bytes().to_vec();
        stream.extend_from_slice(&payload);
        let mut tailbuf = BytesMut::new();
        SupplierCodec::new(0).encode(SupplierResponse::Incremental(ReplIncrementalContext::RefreshRequired), &mut tailbuf).expect("encode");
        stream.extend_from_slice(&tailbuf);
        let mut problems = vec![];
        // limit exactly at / one below the big frame; buffer capacity beyond the recycling limit
        for (max, expect_ok) in [(total, true), (total - 1, false)] {
            let mut dec = ConsumerCodec::new(max);
            let mut rb = BytesMut::with_capacity(CODEC_BYTESMUT_ALLOCATION_LIMIT + 4096);
            let cuts = [5usize, 8, total + 8 - 3, total + 8 + 2];
            let mut got = vec![];
            let mut err = None;
            'reads: for ch in split(&stream, &cuts) {
                rb.extend_from_slice(&ch);
                loop {
                    match dec.decode(&mut rb) {
                        Ok(Some(m)) => got.push(serde_json::to_value(&m).unwrap()),
                        Ok(None) => break,
                        Err(e) => {
                            err = Some((err_kind(&e), rb.len()));
                            break 'reads;
                        }
                    }
                }
            }
            if expect_ok {
                if got != vec![json!("Pong"), json!({"Incremental": "refreshrequired"})] || err.is_some() || !rb.is_empty() {
                    problems.push(format!("max={max}: decoded {got:?}, error {err:?}, {} bytes left", rb.len()));
                }
            } else if !got.is_empty() || err != Some(("big", 8)) {
                // rejected when exactly the 8 header bytes are buffered (second read), nothing delivered
                problems.push(format!("max={max}: expected OutOfMemory with 8 bytes buffered, got {got:?} / {err:?}"));
            }
        }
        // an empty destination with capacity beyond the limit: the encoder's recycling path
        let mut dst = BytesMut::with_capacity(CODEC_BYTESMUT_ALLOCATION_LIMIT + 1);
        let mut enc2 = ConsumerCodec::new(0);
        enc2.encode(ConsumerRequest::Ping, &mut dst).expect("encode");
        let cap_after = dst.capacity();
        enc2.encode(ConsumerRequest::Refresh, &mut dst).expect("encode");
        let mut dec2 = SupplierCodec::new(64);
        let a = dec2.decode(&mut dst).ok().flatten().map(|m| serde_json::to_value(&m).unwrap());
        let b = dec2.decode(&mut dst).ok().flatten().map(|m| serde_json::to_value(&m).unwrap());
        if a != Some(json!("Ping")) || b != Some(json!("Refresh")) || !dst.is_empty() {
            problems.push(format!("after recycling (capacity {cap_after}): {a:?} {b:?} left {}", dst.len()));
        }
        self.rep.count("big-buffer(>8MiB)-cases");
        if !problems.is_empty() {
            self.fail("impl-vs-oracle", &json!({"op": "big-buffer"}), "Pong, RefreshRequired / early OutOfMemory / Ping, Refresh".into(), problems.join(" | "));
        }
    }
}

fn main() {
    let args = Args::parse();
    // decoder panics are caught and reported per case; keep stderr quiet
    std::panic::set_hook(Box::new(|_| {}));
    let rt = tokio::runtime::Builder::new_current_thread().build().expect("tokio rt");
    let mut ctx = Ctx {
        drv: Driver::spawn(&args.driver),
        rep: Report::new(
            "codec",
            "real Consumer/SupplierCodec on BytesMut vs Lean feedAll + oracle from the stream's construction; \
             streams = real messages via the real encoder + tail (none / zero header / oversize header / over-limit real message / \
             non-JSON payload / truncated frame / garbage); every split into <=4 chunks for short streams, random splits otherwise; \
             directed + 1 in 24 random cases on a read buffer whose capacity is just below / at / above CODEC_BYTESMUT_ALLOCATION_LIMIT \
             with the following frame cut in its header / body / at the boundary (capacity is not part of the model request); \
             non-trivial = >=2 reads, some cut strictly inside a frame, and (>=2 frames, or max within +-1 of a payload length, \
             or the stream ends in a bad/truncated frame); distinct = distinct (max, chunk list)",
        ),
        rt,
        framed_every: 1,
    };

    if let Some(path) = &args.replay {
        let v: Value = serde_json::from_str(&std::fs::read_to_string(path).unwrap()).unwrap();
        let inp = &v["input"];
        if inp["op"].is_string() {
            // encoder / big-buffer cases are seedless re-runs
            let mut r = Rng::for_case(args.seed, 0);
            if inp["op"] == "big-buffer" {
                ctx.big_buffer_case(&mut r);
            } else {
                ctx.encoder_case(Dir::parse(inp["dir"].as_str().unwrap_or("c2s")), &mut r);
            }
        } else {
            let chunks: Vec<Vec<u8>> = inp["chunks"].as_array().unwrap().iter().map(|x| unhex(x.as_str().unwrap())).collect();
            let end = match &inp["end"] {
                Value::String(s) if s == "clean" => End::Clean,
                Value::String(_) => End::Unknown,
                o if o.get("pending").is_some() => End::Pending(o["pending"].as_u64().unwrap() as usize),
                o => End::Fault { kind: o["fault"].as_str().unwrap().to_string(), at_byte: o["at_byte"].as_u64().unwrap() as usize },
            };
            let c = Case {
                dir: Dir::parse(inp["dir"].as_str().unwrap()),
                max: inp["max"].as_u64().unwrap() as usize,
                stream: chunks.concat(),
                sent: inp["sent"].as_array().cloned().unwrap_or_default(),
                end,
                bounds: vec![],
                limit_edge: false,
                label: inp["label"].as_str().unwrap_or("replay").to_string(),
                cap: inp["capacity"].as_u64().map(|n| n as usize),
            };
            ctx.eval(&c, &chunks, false);
        }
        ctx.rep.model_requests = ctx.drv.requests;
        ctx.rep.write(&args.out);
        println!("c14: replay, {} failures", ctx.rep.failures.len());
        return;
    }

    let tails = [Tail::None, Tail::None, Tail::Zero, Tail::BigHdr, Tail::BigMsg, Tail::BadJson, Tail::Truncated, Tail::Garbage];

    // 1. exhaustive splits (<= 4 chunks) of short streams: both directions, every tail
    let nshort = args.cases(16, 240);
    for i in 0..nshort {
        let mut r = Rng::for_case(args.seed ^ 0xE1, i);
        let dir = if i % 2 == 0 { Dir::C2S } else { Dir::S2C };
        let tail = tails[(i as usize / 2) % tails.len()];
        let nm = 1 + r.below(2);
        let c = build_case(dir, &mut r, nm, 0, tail, i % 5 == 4);
        // keep the enumeration bounded: <=4 chunks up to 30 bytes, <=3 up to 100, else <=2
        let parts = match c.stream.len() {
            0..=30 => 4,
            31..=100 => 3,
            _ => 2,
        };
        ctx.exhaustive(&c, parts);
    }
    ctx.rep.note(format!("exhaustive: {nshort} short streams, every split into <=4 non-empty chunks (<=3 beyond 30 bytes, <=2 beyond 100)"));

    // 1b. directed: oversized read buffers (capacity around the allocation limit) x fragmentation
    // of the following frames, both directions; always run, before the random search
    for (i, dir) in [Dir::C2S, Dir::S2C, Dir::C2S, Dir::S2C].into_iter().enumerate() {
        let mut r = Rng::for_case(args.seed ^ 0xCA9, i as u64);
        ctx.capacity_cases(dir, &mut r, if i < 2 { 0 } else { 2 });
    }

    // 2. random longer streams, random schedules (empty reads and byte-by-byte included)
    ctx.framed_every = 3;
    let nrand = args.cases(6_000, 300_000);
    for i in 0..nrand {
        let mut r = Rng::for_case(args.seed, i);
        let dir = if r.chance(1, 2) { Dir::C2S } else { Dir::S2C };
        let tail = *r.pick(&tails);
        let size = *r.pick(&[0u64, 1, 1, 2, 3, 6]);
        let nm = r.below(9);
        let edge = r.chance(1, 3);
        let c = build_case(dir, &mut r, nm, size, tail, edge);
        let n = c.stream.len();
        let mut cuts: Vec<usize> = vec![];
        match r.below(10) {
            0 if n <= 400 => cuts = (1..n).collect(), // byte by byte
            1 => {}                                    // one read
            2 | 3 => {
                // cuts hugging frame boundaries: -1, 0, +1, +7, +8, +9
                for b in &c.bounds {
                    for d in [-1i64, 0, 1, 7, 8, 9] {
                        let p = *b as i64 + d;
                        if p > 0 && (p as usize) < n && r.chance(1, 2) {
                            cuts.push(p as usize);
                        }
                    }
                }
            }
            _ => {
                let k = r.below(12);
                for _ in 0..k {
                    if n > 1 {
                        cuts.push(1 + r.below(n as u64 - 1) as usize);
                    }
                }
            }
        }
        cuts.sort();
        if !r.chance(1, 6) {
            cuts.dedup(); // otherwise duplicates stay = empty reads
        }
        let chunks = if n == 0 { vec![vec![]] } else { split(&c.stream, &cuts) };
        // search bias: 1 case in 24 runs on a read buffer whose capacity is around / beyond the
        // allocation limit (drawn last, so the streams of a seed are those of earlier runs)
        let mut c = c;
        if r.chance(1, 24) {
            let lim = CODEC_BYTESMUT_ALLOCATION_LIMIT;
            c.cap = Some(match r.below(5) {
                0 => lim - 1 - r.below(64) as usize,
                1 => lim,
                2 => lim + r.below(c.stream.len() as u64 + 2) as usize,
                3 => lim + n + r.below(8192) as usize,
                _ => 2 * lim + r.below(8192) as usize,
            });
        }
        ctx.eval(&c, &chunks, false);
        if i % 10 == 0 {
            ctx.encoder_case(dir, &mut r);
        }
    }

    // 3. capacity recycling beyond 8 MiB
    let nbig = if args.thorough() { 3 } else { 1 };
    for i in 0..nbig {
        let mut r = Rng::for_case(args.seed ^ 0xB16, i);
        ctx.big_buffer_case(&mut r);
    }

    ctx.rep.model_requests = ctx.drv.requests;
    ctx.rep.write(&args.out);
    println!("c14: {} cases, {} distinct non-trivial, {} failures", ctx.rep.evaluations, ctx.rep.nontrivial_keys.len(), ctx.rep.failures.len());
}
