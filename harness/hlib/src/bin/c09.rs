//! C09 — deleted entries are never resurrected by replication.
//!
//! 2 or 3 fresh real servers (the others refreshed from the first) under one simulated clock (whole
//! seconds; `Tick` jumps of hours to days around the 7-day recycle-bin and changelog windows of the
//! non-test build).  Histories: create / edit / **delete** persons, a class edit on another replica
//! (posix extension), `purge_recycled`, `purge_tombstones`, incremental replication attempts.  The
//! operator protocol is explicit: a supply answers `V1` (applied), `NoChangesAvailable`,
//! `RefreshRequired` (the operator then refreshes that consumer from that supplier — counted) or
//! `UnwillingToSupply` (nothing happens — counted).
//!
//! **Oracle** (implementation only, from the property text), applied to supplies that reported success:
//! * `resurrected-on-successful-supply` — a uuid this consumer has already held as deleted (recycled by a
//!   delete, tombstone, or reaped here) is live on it after a successful supply;
//! * `deletion-dropped-by-successful-supply` — after a successful supply the consumer still holds live a
//!   uuid the supplier holds as tombstone or has reaped;
//! * `lagging-consumer-served` — the supplier trimmed (purge_tombstones) at a time when this consumer's
//!   last contact with it (direct or through other replicas) was more than the changelog window old, and
//!   yet the supply succeeds; recognised as `D46:lagging-consumer-forgot-origin-served` when the consumer's
//!   own trim has dropped the supplier's origin from its update vector (the supplier then takes it for a
//!   server that has never seen that origin);
//! * `deleted-live-after-quiescence` — after a final all-pairs mesh in which every supply succeeded, a uuid
//!   deleted anywhere is live somewhere;
//! * `late-deletion-stranded-after-trim` — recognised form of the quiescence oracle: a replica still holds the
//!   deletion but under a cid its own trim has removed from its update vector;
//! * observation, counted, not a failure (ruling of the lead): `purge_tombstones` answering `ReplInvalidRUVState` while a
//!   reapable tombstone exists (stale RUV reference after a tombstone merge); the purge is then a no-op;
//! * `recycled-revived-by-concurrent-class-write` (sub-class of the first, recognised when the uuid was only
//!   recycled, not yet a tombstone, and another replica wrote `class` later without knowing of the delete).
//!
//! **Correspondence** (`km_c09`): every supply — the reply variant and the supplied windows against
//! `decide` on the consumer's real ranges and the supplier's real update vector and trim cid; every
//! `purge_tombstones` — the ranges afterwards and which tombstones survive against `reap`; every
//! `purge_recycled` — which recycled entries become tombstones against `expire`; `trimcid`.
use hlib::*;
use kanidmd_lib::entry::{Entry, EntryInit, EntryNew};
use kanidmd_lib::prelude::*;
use kanidmd_lib::repl::proto::{ConsumerState, ReplIncrementalContext, ReplRuvRange};
use kanidmd_lib::testkit::{setup_test, TestConfiguration};
use kanidmd_lib::verif_hooks::{c09 as hk, c12 as hk12};
use serde_json::{json, Value as J};
use std::collections::{BTreeMap, BTreeSet};

const WINDOW: u64 = 7 * 86400;
const NIDS: u8 = 6;
const CLASS_STRANDED: &str = "late-deletion-stranded-after-trim";
const CLASS_FORGOT: &str = "D46:lagging-consumer-forgot-origin-served";

#[derive(Clone, Debug, PartialEq, Eq)]
enum Op {
    Create(u8),
    Desc(u8, String),
    Delete(u8),
    Posix(u8),
}

#[derive(Clone, Debug, PartialEq, Eq)]
enum Step {
    On(usize, Op),
    Tick(u64), // hours
    PurgeR(usize),
    PurgeT(usize),
    Repl(usize, usize),
}

impl Step {
    fn token(&self) -> String {
        match self {
            Step::On(s, Op::Create(i)) => format!("on {s} create {i}"),
            Step::On(s, Op::Desc(i, d)) => format!("on {s} desc {i} {d}"),
            Step::On(s, Op::Delete(i)) => format!("on {s} delete {i}"),
            Step::On(s, Op::Posix(i)) => format!("on {s} posix {i}"),
            Step::Tick(h) => format!("tick {h}"),
            Step::PurgeR(s) => format!("purger {s}"),
            Step::PurgeT(s) => format!("purget {s}"),
            Step::Repl(a, b) => format!("repl {a} {b}"),
        }
    }
    fn parse(s: &str) -> Step {
        let p: Vec<&str> = s.split_whitespace().collect();
        let n = |x: &str| x.parse::<usize>().expect("num");
        match p[0] {
            "on" => Step::On(
                n(p[1]),
                match p[2] {
                    "create" => Op::Create(n(p[3]) as u8),
                    "desc" => Op::Desc(n(p[3]) as u8, p[4].into()),
                    "delete" => Op::Delete(n(p[3]) as u8),
                    "posix" => Op::Posix(n(p[3]) as u8),
                    x => panic!("bad op {x}"),
                },
            ),
            "tick" => Step::Tick(n(p[1]) as u64),
            "purger" => Step::PurgeR(n(p[1])),
            "purget" => Step::PurgeT(n(p[1])),
            "repl" => Step::Repl(n(p[1]), n(p[2])),
            x => panic!("bad step {x}"),
        }
    }
}

/// ids 5 and 6 are groups (members of nothing), the others persons (dynamic members of idm_all_persons)
fn is_group(id: u8) -> bool {
    id >= 5
}

fn uuid_of(id: u8) -> Uuid {
    nat_uuid(0x0900_0000_1000 + id as u64)
}

struct Cluster {
    rt: tokio::runtime::Runtime,
    qs: Vec<QueryServer>,
    ct: Duration,
    sids: BTreeMap<Uuid, u64>,
}

type RCid = (Duration, Uuid);

impl Cluster {
    fn new(n: usize) -> Result<Cluster, String> {
        let rt = tokio::runtime::Builder::new_current_thread().enable_all().build().unwrap();
        let mut qs = vec![];
        for _ in 0..n {
            qs.push(rt.block_on(setup_test(TestConfiguration::default())));
        }
        // whole seconds from here on
        let ct = Duration::from_secs(duration_from_epoch_now().as_secs() + 10);
        let mut c = Cluster { rt, qs, ct, sids: BTreeMap::new() };
        for i in 1..n {
            c.refresh(0, i)?;
        }
        Ok(c)
    }
    fn tick1(&mut self) -> Duration {
        self.ct += Duration::from_secs(1);
        self.ct
    }
    fn refresh(&mut self, from: usize, to: usize) -> Result<(), String> {
        let ct = self.tick1();
        let mut a_r = self.rt.block_on(self.qs[from].read()).map_err(|e| format!("read:{e:?}"))?;
        let mut b_w = self.rt.block_on(self.qs[to].write(ct)).map_err(|e| format!("write:{e:?}"))?;
        let ctx = a_r.supplier_provide_refresh().map_err(|e| format!("provide_refresh:{e:?}"))?;
        b_w.consumer_apply_refresh(ctx).map_err(|e| format!("apply_refresh:{e:?}"))?;
        b_w.commit().map_err(|e| format!("commit refresh:{e:?}"))
    }
    fn sid(&mut self, u: &Uuid) -> u64 {
        let n = self.sids.len() as u64 + 1;
        *self.sids.entry(*u).or_insert(n)
    }
    fn cid_tok(&mut self, c: &RCid) -> String {
        let s = if c.1 == Uuid::nil() { 0 } else { self.sid(&c.1) };
        format!("{}:{s}", c.0.as_nanos())
    }
}

#[derive(Clone, Debug, PartialEq, Eq)]
struct PoolState {
    st: char, // L live, R recycled, C conflict, T tombstone, - absent
    at: Option<RCid>,
    last_mod: Option<RCid>,
    class_cid: Option<RCid>,
}

struct Obs {
    pool: BTreeMap<u8, PoolState>,
    tombs: BTreeMap<Uuid, RCid>,
    ruv: Vec<RCid>,
    ranges: BTreeMap<Uuid, (Duration, Duration)>,
}

fn observe(c: &mut Cluster, server: usize) -> Result<Obs, String> {
    let mut r = c.rt.block_on(c.qs[server].read()).map_err(|e| format!("read:{e:?}"))?;
    let all = r.internal_search(Filter::new(f_pres(Attribute::Class))).map_err(|e| format!("search:{e:?}"))?;
    let mut pool = BTreeMap::new();
    let mut tombs = BTreeMap::new();
    for e in all.iter() {
        let has = |cl: EntryClass| e.attribute_equality(Attribute::Class, &cl.into());
        let st = if has(EntryClass::Tombstone) { 'T' } else if has(EntryClass::Conflict) { 'C' } else if has(EntryClass::Recycled) { 'R' } else { 'L' };
        let (_, at, changes) = hk12::entry_changestate(e);
        if st == 'T' {
            tombs.insert(e.get_uuid(), (at.ts, at.s_uuid));
        }
        if let Some(id) = (1..=NIDS).find(|i| uuid_of(*i) == e.get_uuid()) {
            let lm = e.get_ava_set(Attribute::LastModifiedCid).and_then(|v| v.to_cid_single()).map(|x| (x.ts, x.s_uuid));
            pool.insert(id, PoolState { st, at: Some((at.ts, at.s_uuid)), last_mod: lm, class_cid: changes.get(&Attribute::Class).map(|x| (x.ts, x.s_uuid)) });
        }
    }
    for id in 1..=NIDS {
        pool.entry(id).or_insert(PoolState { st: '-', at: None, last_mod: None, class_cid: None });
    }
    let ranged = hk::ruv_ranged(&mut r);
    let mut ruv = vec![];
    for (u, tss) in &ranged {
        for t in tss {
            ruv.push((*t, *u));
        }
    }
    let ranges = match r.consumer_get_state().map_err(|e| format!("state:{e:?}"))? {
        ReplRuvRange::V1 { ranges, .. } => ranges.into_iter().map(|(k, v)| (k, (v.ts_min, v.ts_max))).collect(),
    };
    Ok(Obs { pool, tombs, ruv, ranges })
}

fn exec_op(c: &mut Cluster, server: usize, op: &Op) -> String {
    let ct = c.tick1();
    let mut txn = match c.rt.block_on(c.qs[server].write(ct)) {
        Ok(t) => t,
        Err(e) => return format!("err:write:{e:?}"),
    };
    let f = |id: u8| Filter::new_ignore_hidden(f_eq(Attribute::Uuid, PartialValue::Uuid(uuid_of(id))));
    let r: Result<(), OperationError> = match op {
        Op::Create(id) => {
            let mut e: Entry<EntryInit, EntryNew> = Entry::new();
            e.add_ava(Attribute::Class, EntryClass::Object.to_value());
            if is_group(*id) {
                e.add_ava(Attribute::Class, EntryClass::Group.to_value());
            } else {
                e.add_ava(Attribute::Class, EntryClass::Account.to_value());
                e.add_ava(Attribute::Class, EntryClass::Person.to_value());
                e.add_ava(Attribute::DisplayName, Value::new_utf8s("C09 Person"));
            }
            e.add_ava(Attribute::Uuid, Value::Uuid(uuid_of(*id)));
            e.add_ava(Attribute::Name, Value::new_iname(&format!("c09p{id}")));
            txn.internal_create(vec![e])
        }
        Op::Desc(id, d) => txn.internal_modify(&f(*id), &ModifyList::new_purge_and_set(Attribute::Description, Value::new_utf8s(d))),
        Op::Delete(id) => txn.internal_delete(&f(*id)),
        Op::Posix(id) => txn.internal_modify(
            &f(*id),
            &ModifyList::new_list(vec![
                Modify::Present(Attribute::Class, if is_group(*id) { EntryClass::PosixGroup.to_value() } else { EntryClass::PosixAccount.to_value() }),
                Modify::Purged(Attribute::GidNumber),
                Modify::Present(Attribute::GidNumber, Value::new_uint32(70000 + *id as u32)),
            ]),
        ),
    };
    match r {
        Ok(()) => match txn.commit() {
            Ok(()) => "ok".into(),
            Err(e) => format!("err:commit:{e:?}"),
        },
        Err(OperationError::NoMatchingEntries) => "err:nomatch".into(),
        Err(OperationError::Plugin(PluginError::Base(_))) => "err:exists".into(),
        Err(e) => format!("err:other:{e:?}"),
    }
}

struct Fail {
    kind: &'static str,
    class: String,
    step: usize,
    expected: String,
    observed: String,
}

#[derive(Default)]
struct Stats {
    ok_ops: u64,
    deletes: u64,
    replies: BTreeMap<String, u64>,
    refreshes_by_protocol: u64,
    purge_r_tombstoned: u64,
    purge_t_reaped: u64,
    purge_t_trimmed_servers: u64,
    model_requests: u64,
    supplies_ok: u64,
    deletions_lost_by_refresh: u64,
    oracle_checks: u64,
    recreations_skipped: u64,
    purge_t_failed_invalid_ruv: u64,
}

struct Track {
    /// ids this replica has held as deleted (R by delete, T) or reaped
    ever_deleted: Vec<BTreeSet<u8>>,
    ever_tomb: Vec<BTreeSet<u8>>,
    deleted_anywhere: BTreeSet<u8>,
    /// id ↦ replicas that hold (or held, then reaped) the deletion
    known_by: BTreeMap<u8, BTreeSet<usize>>,
    deletions_lost_by_refresh: u64,
    /// heard[(c, s)]: the latest time such that c has received — directly or through other replicas — s's
    /// state as of that time
    last_contact: BTreeMap<(usize, usize), Duration>,
    n: usize,
    /// time of the last purge_tombstones on s
    last_purge: BTreeMap<usize, Duration>,
    own_sid: BTreeMap<usize, Uuid>,
}

/// c has just received s's state (supply or refresh) at time `now`
fn heard_from(t: &mut Track, c: usize, s: usize, now: Duration) {
    for x in 0..t.n {
        let via = if x == s { now } else { t.last_contact.get(&(s, x)).copied().unwrap_or(Duration::ZERO) };
        let cur = t.last_contact.get(&(c, x)).copied().unwrap_or(Duration::ZERO);
        if x != c && via > cur {
            t.last_contact.insert((c, x), via);
        }
    }
}

fn ruv_tok(c: &mut Cluster, ruv: &[RCid]) -> String {
    if ruv.is_empty() { "-".into() } else { ruv.iter().map(|x| c.cid_tok(x)).collect::<Vec<_>>().join(",") }
}

fn ranges_tok(c: &mut Cluster, r: &BTreeMap<Uuid, (Duration, Duration)>) -> String {
    let mut v: Vec<(u64, u128, u128)> = r.iter().map(|(u, (a, b))| (c.sid(u), a.as_nanos(), b.as_nanos())).collect();
    v.sort();
    if v.is_empty() { "-".into() } else { v.iter().map(|(k, a, b)| format!("{k}:{a}:{b}")).collect::<Vec<_>>().join(",") }
}

fn note_states(t: &mut Track, server: usize, o: &Obs) {
    for (id, p) in &o.pool {
        if p.st == 'R' || p.st == 'T' {
            t.ever_deleted[server].insert(*id);
            if t.deleted_anywhere.contains(id) {
                t.known_by.entry(*id).or_default().insert(server);
            }
        }
        if p.st == 'T' {
            t.ever_tomb[server].insert(*id);
        }
    }
}

/// One replication attempt with the operator protocol. Returns the reply name.
fn repl_step(c: &mut Cluster, drv: &mut Driver, t: &mut Track, from: usize, to: usize, step: usize, st: &mut Stats, model_fail: &mut Option<Fail>) -> Result<String, Fail> {
    let fail = |kind: &'static str, class: &str, expected: String, observed: String| Fail { kind, class: class.into(), step, expected, observed };
    let pre_c = observe(c, to).map_err(|e| fail("impl-vs-oracle", "observe", "readable".into(), e))?;
    let pre_s = observe(c, from).map_err(|e| fail("impl-vs-oracle", "observe", "readable".into(), e))?;
    note_states(t, to, &pre_c);
    note_states(t, from, &pre_s);
    let ct = c.tick1();
    let (reply, supplied, trim): (String, Option<BTreeMap<Uuid, (Duration, Duration)>>, RCid) = {
        let mut from_r = c.rt.block_on(c.qs[from].read()).map_err(|e| fail("impl-vs-oracle", "repl-error", "read".into(), format!("{e:?}")))?;
        let mut to_w = c.rt.block_on(c.qs[to].write(ct)).map_err(|e| fail("impl-vs-oracle", "repl-error", "write".into(), format!("{e:?}")))?;
        let trim = hk::read_trim_cid(&from_r);
        let state = to_w.consumer_get_state().map_err(|e| fail("impl-vs-oracle", "repl-error", "consumer_get_state".into(), format!("{e:?}")))?;
        let changes = from_r.supplier_provide_changes(state).map_err(|e| fail("impl-vs-oracle", "repl-error", "supplier_provide_changes".into(), format!("{e:?}")))?;
        let (name, supplied) = match &changes {
            ReplIncrementalContext::DomainMismatch => ("domainmismatch", None),
            ReplIncrementalContext::NoChangesAvailable => ("nochanges", None),
            ReplIncrementalContext::RefreshRequired => ("refresh", None),
            ReplIncrementalContext::UnwillingToSupply => ("unwilling", None),
            ReplIncrementalContext::V1 { ranges, .. } => ("supply", Some(ranges.iter().map(|(k, v)| (*k, (v.ts_min, v.ts_max))).collect())),
        };
        match to_w.consumer_apply_changes(changes).map_err(|e| fail("impl-vs-oracle", "repl-error", "consumer_apply_changes succeeds".into(), format!("{e:?}")))? {
            ConsumerState::Ok => {
                if name == "refresh" || name == "domainmismatch" {
                    return Err(fail("impl-vs-oracle", "refresh-not-demanded", "the consumer reports RefreshRequired".into(), format!("reply {name}, consumer state Ok")));
                }
                if name == "supply" {
                    to_w.commit().map_err(|e| fail("impl-vs-oracle", "repl-error", "commit".into(), format!("{e:?}")))?;
                }
            }
            ConsumerState::RefreshRequired => {
                if name != "refresh" && name != "domainmismatch" {
                    return Err(fail("impl-vs-oracle", "refresh-demanded-without-cause", format!("reply {name} is applied or ignored"), "consumer state RefreshRequired".into()));
                }
            }
        }
        (name.to_string(), supplied, (trim.ts, trim.s_uuid))
    };
    *st.replies.entry(reply.clone()).or_insert(0) += 1;
    // ---- correspondence: the decision
    if model_fail.is_none() {
        let req = format!("decide {} {} {}", ranges_tok(c, &pre_c.ranges), c.cid_tok(&trim), ruv_tok(c, &pre_s.ruv));
        let m = drv.ask(&req);
        st.model_requests += 1;
        let want = match &supplied {
            Some(r) => format!("supply {}", ranges_tok(c, r)),
            None => reply.clone(),
        };
        if m != want {
            *model_fail = Some(fail("impl-vs-model", "decision", format!("`{req}` → {m}"), format!("implementation: {want}")));
        }
    }
    // ---- the operator protocol
    let success = reply == "supply" || reply == "nochanges";
    if reply == "refresh" {
        st.refreshes_by_protocol += 1;
        c.refresh(from, to).map_err(|e| fail("impl-vs-oracle", "refresh-error", "refresh succeeds".into(), e))?;
        // a refresh replaces the consumer's content by the supplier's: what it knew as deleted is what the supplier knows
        t.ever_deleted[to] = t.ever_deleted[from].clone();
        t.ever_tomb[to] = t.ever_tomb[from].clone();
        // … including deletions only the refreshed replica knew of: by design they are gone
        let ids: Vec<u8> = t.deleted_anywhere.iter().copied().collect();
        for id in ids {
            let set = t.known_by.entry(id).or_default();
            if set.contains(&from) {
                set.insert(to);
            } else {
                set.remove(&to);
            }
            if set.is_empty() {
                t.deleted_anywhere.remove(&id);
                t.deletions_lost_by_refresh += 1;
            }
        }
        let now = c.ct;
        heard_from(t, to, from, now);
    }
    if !success {
        return Ok(reply);
    }
    st.supplies_ok += 1;
    // ---- oracle on a supply that reported success
    let post_c = observe(c, to).map_err(|e| fail("impl-vs-oracle", "observe", "readable".into(), e))?;
    st.oracle_checks += 1;
    // lagging consumer: out of contact (directly and through others) with this supplier for longer than the
    // window when the supplier last trimmed, and served nevertheless
    if let (Some(p), Some(own)) = (t.last_purge.get(&from), t.own_sid.get(&from)) {
        let lc = t.last_contact.get(&(to, from)).copied().unwrap_or(Duration::ZERO);
        if lc + Duration::from_secs(WINDOW) < *p {
            // recogniser: the consumer's own trim has removed the supplier's origin from its update vector, so the
            // supplier sees a server it has "never seen" instead of one that lags
            let class = if pre_c.ranges.contains_key(own) { "lagging-consumer-served" } else { CLASS_FORGOT };
            return Err(fail(
                "impl-vs-oracle",
                class,
                "RefreshRequired or UnwillingToSupply for a consumer out of contact for longer than the changelog window".into(),
                format!("`repl {from} {to}` answered {reply}; last contact {} s before the supplier's purge; consumer lists the supplier's origin: {}", p.as_secs() - lc.as_secs(), pre_c.ranges.contains_key(own)),
            ));
        }
    }
    for id in 1..=NIDS {
        let now = &post_c.pool[&id];
        if now.st == 'L' && t.ever_deleted[to].contains(&id) && pre_c.pool[&id].st != 'L' {
            let before = &pre_c.pool[&id];
            let class = if before.st == 'R' && now.class_cid != before.class_cid { "recycled-revived-by-concurrent-class-write" } else { "resurrected-on-successful-supply" };
            return Err(fail(
                "impl-vs-oracle",
                class,
                format!("person {id} stays deleted on replica {to}"),
                format!("`repl {from} {to}` ({reply}): `{}` before, live after", before.st),
            ));
        }
        let sup = &pre_s.pool[&id];
        let sup_deleted = sup.st == 'T' || (sup.st == '-' && t.ever_tomb[from].contains(&id));
        if now.st == 'L' && sup_deleted {
            return Err(fail(
                "impl-vs-oracle",
                "deletion-dropped-by-successful-supply",
                format!("person {id} (tombstone / reaped on replica {from}) is not live on replica {to} after a successful supply"),
                format!("`repl {from} {to}` ({reply}): supplier `{}`, consumer still live", sup.st),
            ));
        }
    }
    note_states(t, to, &post_c);
    let now = c.ct;
    heard_from(t, to, from, now);
    Ok(reply)
}

fn purge_t(c: &mut Cluster, drv: &mut Driver, t: &mut Track, s: usize, step: usize, st: &mut Stats, model_fail: &mut Option<Fail>) -> Result<(), Fail> {
    let fail = |kind: &'static str, class: &str, expected: String, observed: String| Fail { kind, class: class.into(), step, expected, observed };
    let pre = observe(c, s).map_err(|e| fail("impl-vs-oracle", "observe", "readable".into(), e))?;
    note_states(t, s, &pre);
    let ct = c.tick1();
    let (now, trim, failed): (RCid, RCid, bool) = {
        let mut w = c.rt.block_on(c.qs[s].write(ct)).map_err(|e| fail("impl-vs-oracle", "purge-error", "write".into(), format!("{e:?}")))?;
        let now = hk::write_cid(&w);
        let trim = hk::write_trim_cid(&w);
        match w.purge_tombstones() {
            Ok(_) => {
                w.commit().map_err(|e| fail("impl-vs-oracle", "purge-error", "commit".into(), format!("{e:?}")))?;
                ((now.ts, now.s_uuid), (trim.ts, trim.s_uuid), false)
            }
            // Known defect, not a violation of this property (ruling of the lead): a tombstone whose `at` was lowered
            // by a merge keeps a reference under the replica's own later tombstone cid (`update_entry_changestate`
            // never removes ids), so `reap_tombstones` refuses with ReplInvalidRUVState until that cid is trimmed too.
            // Tolerated only in that recognised situation: a reapable tombstone exists. The transaction is dropped.
            Err(OperationError::ReplInvalidRUVState) if pre.tombs.values().any(|at| (at.0, at.1) < (trim.ts, trim.s_uuid)) => {
                ((now.ts, now.s_uuid), (trim.ts, trim.s_uuid), true)
            }
            Err(e) => return Err(fail("impl-vs-oracle", "purge-error", "purge_tombstones succeeds".into(), format!("{e:?}"))),
        }
    };
    if failed {
        st.purge_t_failed_invalid_ruv += 1;
        let post = observe(c, s).map_err(|e| fail("impl-vs-oracle", "observe", "readable".into(), e))?;
        if post.tombs != pre.tombs || post.ruv != pre.ruv {
            return Err(fail("impl-vs-oracle", "purge-error", "a failed purge leaves the replica unchanged".into(), "state changed".into()));
        }
        let _ = (now, trim);
        return Ok(());
    }
    t.own_sid.insert(s, now.1);
    t.last_purge.insert(s, now.0);
    let post = observe(c, s).map_err(|e| fail("impl-vs-oracle", "observe", "readable".into(), e))?;
    st.purge_t_reaped += (pre.tombs.len() - post.tombs.len().min(pre.tombs.len())) as u64;
    st.purge_t_trimmed_servers += pre.ranges.len().saturating_sub(post.ranges.len()) as u64;
    // oracle: exactly the tombstones older than the window are gone
    for (u, at) in &pre.tombs {
        let old = at.0 + Duration::from_secs(WINDOW) < now.0;
        let gone = !post.tombs.contains_key(u);
        if old != gone && at.0 + Duration::from_secs(WINDOW) != now.0 {
            return Err(fail("impl-vs-oracle", "reap-window", format!("tombstone {u} (at {} s, now {} s) reaped: {old}", at.0.as_secs(), now.0.as_secs()), format!("reaped: {gone}")));
        }
    }
    if model_fail.is_none() {
        let mtrim = drv.ask(&format!("trimcid {}", c.cid_tok(&now)));
        st.model_requests += 1;
        if mtrim != c.cid_tok(&trim) {
            *model_fail = Some(fail("impl-vs-model", "trim-cid", format!("model {mtrim}"), format!("implementation {}", c.cid_tok(&trim))));
            return Ok(());
        }
        // uuids of tombstones numbered in order
        let tomb_list: Vec<(Uuid, RCid)> = pre.tombs.iter().map(|(u, a)| (*u, *a)).collect();
        let ents: Vec<String> = tomb_list.iter().enumerate().map(|(i, (_, a))| format!("{}=T/{}", i + 1, c.cid_tok(a))).collect();
        let req = format!("reap {} {} {} {}", c.cid_tok(&now), c.cid_tok(&trim), ruv_tok(c, &pre.ruv), ents.join(" "));
        let m = drv.ask(req.trim_end());
        st.model_requests += 1;
        let kept: Vec<String> = tomb_list.iter().enumerate().filter(|(_, (u, _))| post.tombs.contains_key(u)).map(|(i, _)| (i + 1).to_string()).collect();
        let want = format!("ranges={} kept={}", ranges_tok(c, &post.ranges), if kept.is_empty() { "-".to_string() } else { kept.join(",") });
        if m != want {
            *model_fail = Some(fail("impl-vs-model", "reap", format!("`{}` → {m}", req.chars().take(300).collect::<String>()), format!("implementation: {want}")));
        }
    }
    note_states(t, s, &post);
    Ok(())
}

fn purge_r(c: &mut Cluster, drv: &mut Driver, t: &mut Track, s: usize, step: usize, st: &mut Stats, model_fail: &mut Option<Fail>) -> Result<(), Fail> {
    let fail = |kind: &'static str, class: &str, expected: String, observed: String| Fail { kind, class: class.into(), step, expected, observed };
    let pre = observe(c, s).map_err(|e| fail("impl-vs-oracle", "observe", "readable".into(), e))?;
    note_states(t, s, &pre);
    let ct = c.tick1();
    let now: RCid = {
        let mut w = c.rt.block_on(c.qs[s].write(ct)).map_err(|e| fail("impl-vs-oracle", "purge-error", "write".into(), format!("{e:?}")))?;
        let now = hk::write_cid(&w);
        w.purge_recycled().map_err(|e| fail("impl-vs-oracle", "purge-error", "purge_recycled succeeds".into(), format!("{e:?}")))?;
        w.commit().map_err(|e| fail("impl-vs-oracle", "purge-error", "commit".into(), format!("{e:?}")))?;
        (now.ts, now.s_uuid)
    };
    let post = observe(c, s).map_err(|e| fail("impl-vs-oracle", "observe", "readable".into(), e))?;
    let cutoff = if model_fail.is_none() { Some(drv.ask(&format!("cutoff {}", c.cid_tok(&now)))) } else { None };
    for id in 1..=NIDS {
        let (a, b) = (&pre.pool[&id], &post.pool[&id]);
        if a.st == 'R' || a.st == 'C' {
            let Some(lm) = a.last_mod else { continue };
            let became = b.st == 'T';
            if became {
                st.purge_r_tombstoned += 1;
            }
            // oracle: a recycled entry leaves the bin exactly when it has been there for longer than the window
            let old = lm.0 + Duration::from_secs(WINDOW) < now.0;
            if old != became && lm.0 + Duration::from_secs(WINDOW) != now.0 {
                return Err(fail("impl-vs-oracle", "recycle-window", format!("person {id} (last modified {} s, now {} s) tombstoned: {old}", lm.0.as_secs(), now.0.as_secs()), format!("tombstoned: {became}")));
            }
            if became && b.at != Some(now) {
                return Err(fail("impl-vs-oracle", "tombstone-at", format!("tombstone at the purge's cid {}", c.cid_tok(&now)), format!("{:?}", b.at)));
            }
            if let Some(cut) = &cutoff {
                let req = format!("expire {} {cut} 1 {}", c.cid_tok(&now), c.cid_tok(&lm));
                let m = drv.ask(&req);
                st.model_requests += 1;
                let want = if became { format!("tomb {}", c.cid_tok(&now)) } else { "keep".to_string() };
                if m != want && model_fail.is_none() {
                    *model_fail = Some(fail("impl-vs-model", "expire", format!("`{req}` → {m}"), format!("implementation: {want}")));
                }
            }
        } else if a.st != b.st {
            return Err(fail("impl-vs-oracle", "purge-touched-live", format!("person {id} untouched by purge_recycled"), format!("`{}` → `{}`", a.st, b.st)));
        }
    }
    note_states(t, s, &post);
    Ok(())
}

struct Outcome {
    hard: Option<Fail>,
    model_fail: Option<Fail>,
    final_mesh_all_ok: bool,
}

fn run_history(drv: &mut Driver, n: usize, steps: &[Step], st: &mut Stats) -> Outcome {
    let mut out = Outcome { hard: None, model_fail: None, final_mesh_all_ok: false };
    let mut c = match Cluster::new(n) {
        Ok(c) => c,
        Err(e) => {
            out.hard = Some(Fail { kind: "impl-vs-oracle", class: "setup".into(), step: 0, expected: "cluster boots".into(), observed: e });
            return out;
        }
    };
    let mut t = Track {
        ever_deleted: vec![BTreeSet::new(); n],
        ever_tomb: vec![BTreeSet::new(); n],
        deleted_anywhere: BTreeSet::new(),
        known_by: BTreeMap::new(),
        deletions_lost_by_refresh: 0,
        last_contact: BTreeMap::new(),
        last_purge: BTreeMap::new(),
        own_sid: BTreeMap::new(),
        n,
    };
    for a in 0..n {
        for b in 0..n {
            t.last_contact.insert((a, b), c.ct);
        }
    }
    for (k, stp) in steps.iter().enumerate() {
        let step = k + 1;
        let r: Result<(), Fail> = match stp {
            Step::On(_, Op::Create(id)) if t.deleted_anywhere.contains(id) || t.ever_deleted.iter().any(|d| d.contains(id)) => {
                // a new incarnation of a uuid that was deleted (possible once its tombstone is reaped) is not the
                // deleted entry coming back: outside the property, skipped
                st.recreations_skipped += 1;
                Ok(())
            }
            Step::On(s, op) => {
                let res = std::panic::catch_unwind(std::panic::AssertUnwindSafe(|| exec_op(&mut c, *s, op))).unwrap_or_else(|_| "panic".into());
                if std::env::var_os("C09_DEBUG").is_some() {
                    eprintln!("    -> {res}");
                }
                if res == "ok" {
                    st.ok_ops += 1;
                    if let Op::Delete(id) = op {
                        st.deletes += 1;
                        t.deleted_anywhere.insert(*id);
                        t.ever_deleted[*s].insert(*id);
                        t.known_by.entry(*id).or_default().insert(*s);
                    }
                    Ok(())
                } else if res == "panic" || res.starts_with("err:other") || res.starts_with("err:write") || res.starts_with("err:commit") {
                    Err(Fail { kind: "impl-vs-oracle", class: "operation-error".into(), step, expected: "ok or a refusal".into(), observed: format!("`{}`: {res}", stp.token()) })
                } else {
                    Ok(())
                }
            }
            Step::Tick(h) => {
                c.ct += Duration::from_secs(h * 3600);
                Ok(())
            }
            Step::PurgeR(s) => purge_r(&mut c, drv, &mut t, *s, step, st, &mut out.model_fail),
            Step::PurgeT(s) => purge_t(&mut c, drv, &mut t, *s, step, st, &mut out.model_fail),
            Step::Repl(a, b) => repl_step(&mut c, drv, &mut t, *a, *b, step, st, &mut out.model_fail).map(|_| ()),
        };
        if std::env::var_os("C09_DEBUG").is_some() {
            let mut line = format!("{step:>3} {:<24}", stp.token());
            for s in 0..n {
                if let Ok(o) = observe(&mut c, s) {
                    line.push_str(&format!(" | r{s}: {}", o.pool.iter().map(|(i, p)| format!("{i}{}", p.st)).collect::<Vec<_>>().join(" ")));
                }
            }
            eprintln!("{line}  {:?}", st.replies);
        }
        if let Err(f) = r {
            out.hard = Some(f);
            return out;
        }
    }
    // ---- final mesh: two rounds of all pairs; the quiescence oracle applies only if every supply succeeded
    let end = steps.len() + 1;
    // the periodic task of every server (hourly in production): it anchors the server's own origin, without which a
    // supplier idle for longer than the window hides its own changes from its view
    for s in 0..n {
        if let Err(f) = purge_t(&mut c, drv, &mut t, s, end, st, &mut out.model_fail) {
            out.hard = Some(f);
            return out;
        }
    }
    let mut all_ok = true;
    for _ in 0..2 {
        for a in 0..n {
            for b in 0..n {
                if a != b {
                    match repl_step(&mut c, drv, &mut t, a, b, end, st, &mut out.model_fail) {
                        Ok(r) => all_ok &= r == "supply" || r == "nochanges",
                        Err(f) => {
                            out.hard = Some(f);
                            return out;
                        }
                    }
                }
            }
        }
    }
    out.final_mesh_all_ok = all_ok;
    st.deletions_lost_by_refresh = t.deletions_lost_by_refresh;
    if all_ok {
        for s in 0..n {
            let o = match observe(&mut c, s) {
                Ok(o) => o,
                Err(e) => {
                    out.hard = Some(Fail { kind: "impl-vs-oracle", class: "observe".into(), step: end, expected: "readable".into(), observed: e });
                    return out;
                }
            };
            for id in &t.deleted_anywhere {
                if o.pool[id].st == 'L' {
                    // recogniser: some replica still holds the deletion, but under a change cid that its own trim has
                    // already removed from its update vector: it can never be delivered
                    let mut stranded = false;
                    for h in 0..n {
                        if let Ok(ho) = observe(&mut c, h) {
                            let p = &ho.pool[id];
                            if p.st == 'R' || p.st == 'T' {
                                let cid = if p.st == 'T' { p.at } else { p.class_cid };
                                if let Some(cid) = cid {
                                    stranded |= !ho.ruv.contains(&cid);
                                }
                            }
                        }
                    }
                    out.hard = Some(Fail {
                        kind: "impl-vs-oracle",
                        class: if stranded { CLASS_STRANDED.into() } else { "deleted-live-after-quiescence".into() },
                        step: end,
                        expected: format!("person {id} (deleted on some replica) is live nowhere after a fully successful mesh"),
                        observed: format!("live on replica {s}"),
                    });
                    return out;
                }
            }
        }
    }
    out
}

// ---------------------------------------------------------------------------------------------
// generators
// ---------------------------------------------------------------------------------------------

fn gen_history(r: &mut Rng, n: usize, with_class_edits: bool) -> Vec<Step> {
    let len = r.range(14, 40);
    let mut v = vec![];
    let srv = |r: &mut Rng| r.below(n as u64) as usize;
    // some entries exist and are known everywhere before the interesting part
    for id in 1..=3u8 {
        v.push(Step::On((id as usize) % n, Op::Create(id)));
    }
    for a in 0..n {
        for b in 0..n {
            if a != b {
                v.push(Step::Repl(a, b));
            }
        }
    }
    for _ in 0..len {
        let roll = r.below(100);
        let id = r.range(1, NIDS as u64) as u8;
        if roll < 10 {
            v.push(Step::On((id as usize) % n, Op::Create(id)));
        } else if roll < 22 {
            v.push(Step::On(srv(r), Op::Desc(id, format!("d{}", r.below(4)))));
        } else if roll < 36 {
            v.push(Step::On(srv(r), Op::Delete(id)));
        } else if roll < 41 && with_class_edits {
            v.push(Step::On(srv(r), Op::Posix(id)));
        } else if roll < 58 {
            // hours: short hops and jumps straddling the 7-day windows
            v.push(Step::Tick(*r.pick(&[1u64, 12, 24, 72, 96, 167, 168, 169, 200, 400])));
        } else if roll < 66 {
            v.push(Step::PurgeR(srv(r)));
        } else if roll < 76 {
            v.push(Step::PurgeT(srv(r)));
        } else {
            let a = srv(r);
            let mut b = srv(r);
            if a == b {
                b = (b + 1) % n;
            }
            v.push(Step::Repl(a, b));
        }
    }
    v
}

fn directed() -> Vec<(&'static str, usize, Vec<&'static str>)> {
    vec![
        // the whole lifecycle, both replicas in contact
        ("lifecycle-in-contact", 2, vec![
            "on 0 create 1", "repl 0 1", "repl 1 0", "on 1 delete 1", "repl 1 0", "repl 0 1", "tick 100", "purget 0", "purget 1", "repl 0 1", "repl 1 0", "tick 69", "purger 1", "purger 0",
            "repl 1 0", "repl 0 1", "tick 100", "purget 1", "purget 0", "repl 0 1", "repl 1 0", "tick 69", "purget 0", "purget 1", "repl 1 0", "repl 0 1", "tick 100", "purget 0", "purget 1", "repl 0 1", "repl 1 0",
        ]),
        // delete racing an edit
        ("delete-vs-edit", 2, vec!["on 0 create 1", "repl 0 1", "on 1 delete 1", "on 0 desc 1 d1", "repl 0 1", "repl 1 0", "tick 169", "purger 0", "purger 1", "repl 0 1", "repl 1 0"]),
        // a consumer silent for longer than the window while the supplier reaps: must be refreshed
        ("lagging-consumer", 2, vec![
            "on 0 create 1", "repl 0 1", "repl 1 0", "on 0 delete 1", "tick 169", "purger 0", "tick 169", "purget 0", "on 1 desc 1 d2", "repl 0 1", "repl 1 0",
        ]),
        // a supplier that never heard of the deletion, after the consumer reaped the tombstone
        ("lagging-supplier", 2, vec![
            "on 0 create 1", "repl 0 1", "repl 1 0", "on 1 delete 1", "tick 169", "purger 1", "tick 169", "purget 1", "on 0 desc 1 d3", "purget 0", "repl 0 1", "repl 1 0",
        ]),
        // three replicas, the third hears of the deletion only through the second
        ("three-replicas-relay", 3, vec![
            "on 0 create 1", "repl 0 1", "repl 0 2", "on 0 delete 1", "repl 0 1", "tick 169", "purger 0", "purger 1", "repl 1 2", "tick 100", "purget 0", "purget 1", "purget 2", "repl 2 0", "repl 0 2",
        ]),
        // a consumer out of contact for longer than the window that has trimmed the supplier's origin away: served, the
        // deletion is never delivered
        ("forgetful-consumer", 2, vec!["on 1 create 3", "repl 1 0", "on 0 delete 3", "tick 167", "on 1 desc 3 d2", "tick 72", "repl 1 0", "purget 0", "purget 1", "repl 0 1"]),
        // two tombstones merged to the earlier one leave a stale RUV reference: purge_tombstones fails
        ("purge-after-tombstone-merge", 2, vec!["on 1 create 3", "on 1 delete 3", "tick 169", "repl 1 0", "purger 0", "tick 200", "purger 1", "repl 0 1", "purget 1"]),
        // D53: a deletion that leaves its origin later than the window, accepted by a freshly refreshed replica, stranded by its next trim
        ("late-deletion-stranded", 3, vec!["on 1 create 1", "on 2 create 2", "repl 1 2", "repl 2 0", "on 2 delete 2", "tick 400", "repl 0 1", "purget 1", "repl 1 0", "repl 2 0", "repl 1 2"]),
        // tombstones made independently on two replicas settle on the earlier one
        ("two-tombstones", 2, vec!["on 0 create 1", "repl 0 1", "on 0 delete 1", "on 1 delete 1", "tick 169", "purger 0", "tick 1", "purger 1", "repl 0 1", "repl 1 0"]),
        // a class write on a replica that does not know of the delete
        ("class-write-vs-delete", 2, vec!["on 0 create 1", "repl 0 1", "on 0 delete 1", "on 1 posix 1", "repl 1 0", "repl 0 1"]),
        // the same on a group that is a member of nothing (no recycled_directmemberof left behind)
        ("class-write-vs-delete-group", 2, vec!["on 0 create 5", "repl 0 1", "on 0 delete 5", "on 1 posix 5", "repl 1 0", "repl 0 1"]),
    ]
}

/// Bounded scope, exhaustively: two replicas in sync, person 1 deleted on replica 0, then every sequence of
/// three steps from {wait 100 h, wait 169 h, purge_recycled 0, purge_tombstones 0, purge_tombstones 1,
/// repl 0→1, repl 1→0} (7³ = 343 histories), then the periodic task and the final mesh.
fn exhaustive() -> Vec<Vec<Step>> {
    let prefix = ["on 0 create 1", "repl 0 1", "repl 1 0", "on 0 delete 1"];
    let alpha = ["tick 100", "tick 169", "purger 0", "purget 0", "purget 1", "repl 0 1", "repl 1 0"];
    let mut out = vec![];
    for a in alpha {
        for b in alpha {
            for c in alpha {
                out.push(prefix.iter().chain([a, b, c].iter()).map(|t| Step::parse(t)).collect());
            }
        }
    }
    out
}

// ---------------------------------------------------------------------------------------------
// reporting
// ---------------------------------------------------------------------------------------------

fn steps_json(steps: &[Step]) -> J {
    J::Array(steps.iter().map(|s| J::String(s.token())).collect())
}

fn run_case(drv: &mut Driver, rep: &mut Report, reported: &mut BTreeMap<String, u64>, prefix: &str, n: usize, steps: &[Step], shrink: bool) {
    let mut st = Stats::default();
    let out = run_history(drv, n, steps, &mut st);
    for (k, v) in &st.replies {
        rep.count_n(&format!("{prefix}:reply:{k}"), *v);
    }
    for (k, v) in [
        ("refreshes-by-protocol", st.refreshes_by_protocol),
        ("recycled-to-tombstone", st.purge_r_tombstoned),
        ("tombstones-reaped", st.purge_t_reaped),
        ("servers-trimmed-from-ruv", st.purge_t_trimmed_servers),
        ("successful-supplies-checked", st.oracle_checks),
        ("deletes", st.deletes),
        ("deletions-lost-by-a-protocol-refresh", st.deletions_lost_by_refresh),
        ("recreations-of-a-deleted-uuid-skipped", st.recreations_skipped),
        ("observation:purge_tombstones-failed-ReplInvalidRUVState-after-tombstone-merge", st.purge_t_failed_invalid_ruv),
    ] {
        rep.count_n(&format!("{prefix}:{k}"), v);
    }
    if out.final_mesh_all_ok {
        rep.count(&format!("{prefix}:final-mesh-all-successful"));
    } else if out.hard.is_none() {
        rep.count(&format!("{prefix}:final-mesh-with-refusals"));
    }
    rep.model_requests += st.model_requests;
    let refused = st.replies.get("refresh").copied().unwrap_or(0) + st.replies.get("unwilling").copied().unwrap_or(0);
    let nontrivial = out.hard.is_none() && st.deletes >= 1 && (st.purge_r_tombstoned >= 1 || refused >= 1) && st.supplies_ok >= 2;
    let key = format!("{n}|{}", steps.iter().map(|s| s.token()).collect::<Vec<_>>().join(";"));
    rep.case(if nontrivial { Some(key) } else { None });
    if nontrivial {
        rep.sample(json!({ "stream": prefix, "servers": n, "steps": steps_json(&steps[..steps.len().min(12)]), "steps_total": steps.len(), "deletes": st.deletes,
            "tombstoned": st.purge_r_tombstoned, "reaped": st.purge_t_reaped, "replies": st.replies }));
    }
    let mut todo: Vec<Fail> = vec![];
    if let Some(h) = out.hard {
        todo.push(h);
    }
    if let Some(m) = out.model_fail {
        todo.push(m);
    }
    for f in todo {
        let seen = *reported.get(&f.class).unwrap_or(&0);
        reported.insert(f.class.clone(), seen + 1);
        if seen >= 3 {
            rep.count(&format!("failures-not-recorded:{}", f.class));
            continue;
        }
        let mut cur: Vec<Step> = steps[..f.step.min(steps.len())].to_vec();
        let (class, kind) = (f.class.clone(), f.kind);
        let (mut expected, mut observed) = (f.expected.clone(), format!("step {}: {}", f.step, f.observed));
        if shrink && seen < 1 && class != CLASS_FORGOT && class != CLASS_STRANDED {
            let has = |o: &Outcome| -> Option<(String, String)> {
                for g in [&o.hard, &o.model_fail].into_iter().flatten() {
                    if g.class == class && g.kind == kind {
                        return Some((g.expected.clone(), format!("step {}: {}", g.step, g.observed)));
                    }
                }
                None
            };
            cur = shrink_list(cur, |cand| {
                let mut s = Stats::default();
                has(&run_history(drv, n, cand, &mut s)).is_some()
            });
            let mut s = Stats::default();
            if let Some((e, o)) = has(&run_history(drv, n, &cur, &mut s)) {
                expected = e;
                observed = o;
            }
        }
        rep.fail(Failure { kind: kind.into(), class, input: json!({ "servers": n, "steps": steps_json(&cur) }), expected, observed });
    }
}

fn merge(into: &mut Report, from: Report) {
    into.evaluations += from.evaluations;
    into.nontrivial_keys.extend(from.nontrivial_keys);
    for (k, v) in from.histogram {
        *into.histogram.entry(k).or_insert(0) += v;
    }
    for s in from.samples {
        into.sample(s);
    }
    for f in from.failures {
        if into.failures.iter().filter(|g| g.class == f.class).count() < 3 {
            into.fail(f);
        }
    }
    into.notes.extend(from.notes);
    into.model_requests += from.model_requests;
}

fn main() {
    if std::env::var_os("RUST_LOG").is_none() {
        std::env::set_var("RUST_LOG", "off");
    }
    let args = Args::parse();
    let mut rep = Report::new(
        "repl-reap",
        "histories on 2 or 3 fresh real servers under a simulated clock: create / edit / delete persons, class edits on other replicas, \
         purge_recycled, purge_tombstones, clock jumps of 1 h .. 17 days around the 7-day windows, incremental replication with the operator \
         protocol (refresh on RefreshRequired, nothing on UnwillingToSupply), final all-pairs mesh; non-trivial = at least one delete, at least \
         one recycled entry tombstoned or one supply refused, and at least two successful supplies; distinct = distinct step list",
    );
    if let Some(path) = &args.replay {
        let v: J = serde_json::from_str(&std::fs::read_to_string(path).unwrap()).unwrap();
        let steps: Vec<Step> = v["input"]["steps"].as_array().unwrap().iter().map(|s| Step::parse(s.as_str().unwrap())).collect();
        let n = v["input"]["servers"].as_u64().unwrap_or(2) as usize;
        let mut drv = Driver::spawn(&args.driver);
        let mut reported = BTreeMap::new();
        run_case(&mut drv, &mut rep, &mut reported, "replay", n, &steps, false);
        rep.write(&args.out);
        println!("c09 replay: {} failures", rep.failures.len());
        return;
    }
    {
        let mut drv = Driver::spawn(&args.driver);
        let mut reported = BTreeMap::new();
        for (name, n, toks) in directed() {
            let steps: Vec<Step> = toks.iter().map(|t| Step::parse(t)).collect();
            run_case(&mut drv, &mut rep, &mut reported, "dir", n, &steps, false);
            rep.count(&format!("dir:history:{name}"));
        }
    }
    let n_two = args.cases(30, 420);
    let n_three = args.cases(14, 200);
    let exh_all = exhaustive();
    let exh: Vec<Vec<Step>> = if args.thorough() || args.budget > 1 {
        exh_all
    } else {
        let mut r = Rng::for_case(args.seed, 9_000_000);
        (0..10).map(|_| exh_all[r.below(exh_all.len() as u64) as usize].clone()).collect()
    };
    let n_exh = exh.len() as u64;
    let exh_ref = &exh;
    let parts: u64 = 4;
    let mut jobs: Vec<(usize, u64, u64)> = vec![];
    for k in 0..parts {
        jobs.push((2, n_two * k / parts, n_two * (k + 1) / parts));
        jobs.push((3, n_three * k / parts, n_three * (k + 1) / parts));
        jobs.push((0, n_exh * k / parts, n_exh * (k + 1) / parts));
    }
    let results: Vec<Report> = std::thread::scope(|sc| {
        let handles: Vec<_> = jobs
            .iter()
            .map(|(n, from, to)| {
                let a = &args;
                sc.spawn(move || {
                    let mut rep = Report::new("part", "");
                    let mut drv = Driver::spawn(&a.driver);
                    let mut reported = BTreeMap::new();
                    for c in *from..*to {
                        if *n == 0 {
                            run_case(&mut drv, &mut rep, &mut reported, "exh2", 2, &exh_ref[c as usize], false);
                            continue;
                        }
                        let mut r = Rng::for_case(a.seed, (*n as u64) * 1_000_000 + c);
                        // class edits racing deletes are a known finding; most histories leave them out so
                        // that the other oracles are exercised to the end
                        let steps = gen_history(&mut r, *n, c % 5 == 0);
                        run_case(&mut drv, &mut rep, &mut reported, if *n == 2 { "repl2" } else { "repl3" }, *n, &steps, true);
                    }
                    rep
                })
            })
            .collect();
        handles.into_iter().map(|h| h.join().expect("slice panicked")).collect()
    });
    for r in results {
        merge(&mut rep, r);
    }
    rep.write(&args.out);
    println!("c09: {} histories, {} non-trivial, {} failures, {} model requests", rep.evaluations, rep.nontrivial_keys.len(), rep.failures.len(), rep.model_requests);
}
