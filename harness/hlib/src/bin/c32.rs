//! C32, stream `tokens` — bearer tokens are accepted only for live sessions.
//!
//! One fresh in-memory `IdmServer` per history.  Accounts: the builtin `anonymous` (nat 0), two
//! password persons (1, 2), one service account (3).  A history is a list of self-contained op
//! strings (times are absolute nanoseconds, non-decreasing):
//!
//!   login P T              Init/Begin/Cred through `IdmServer::auth` (P = 0 anonymous, 1|2 person);
//!                          the UAT is kept, the queued `AuthSessionRecord` is held back
//!   record J T             `process_delayedaction(AuthSessionRecord)` for the J-th held-back record
//!   revoke K T             `account_destroy_session_token`-style `Modify::Removed(UserAuthTokenSession)`
//!   delcred P T / setcred P T   purge / replace the primary credential
//!   valid A VF EX T        purge-and-set AccountValidFrom / AccountExpire (`-` = absent)
//!   del A T                delete the entry
//!   apiissue EXP C T       `service_account_generate_api_token` (EXP ns or `-`, C = compact 0|1)
//!   apidestroy K T         `service_account_destroy_api_token`
//!   keyrevoke K T          `KeyActionRevoke` of the key that signed token K
//!   keyrotate T            `KeyActionRotate`
//!   present K WHEN FORM    present token K at WHEN (`abs:N`, `grace:D`, `exp:D`, `vf:D`, `ex:D` =
//!                          boundary instant + signed delta D) in FORM plain | pre | badsig | extexp | foreign
//!
//! After every state op *every* issued token is presented at the op's time (plain and
//! pre-validated paths) — "each issued token presented before and after each event".
//!
//! Channels
//!  * impl-vs-model: every presentation (`val` / `valpre` of `km_c32`) and, after every state op,
//!    the UserAuthTokenSession / ApiTokenSession maps of the accounts (`sess` / `api`).
//!  * impl-vs-oracle (property text only, evaluated on the real replies, the real entries and the
//!    harness' own ledger of what it did): an accepted token is untampered, signed by a key of this
//!    domain that was never revoked, not expired, belongs to an existing account inside its validity
//!    window, is answered with its own identity, and — once `issued_at + 300 s` has passed — its
//!    session is recorded on the account (login: matching expiry, not revoked; api: record present)
//!    and the history contains no revocation / credential removal / destroy after the recording.
use hlib::*;
use kanidm_proto::internal::{ApiToken as ProtoApiToken, UserAuthToken};
use kanidm_proto::v1::{AuthIssueSession, AuthMech};
use kanidmd_lib::entry::{Entry, EntryInit, EntryNew};
use kanidmd_lib::idm::authentication::{AuthCredential, AuthState, ClientAuthInfo};
use kanidmd_lib::idm::delayed::{AuthSessionRecord, DelayedAction};
use kanidmd_lib::idm::event::{AuthEvent, AuthEventStep, AuthEventStepCred, AuthEventStepInit, AuthEventStepMech};
use kanidmd_lib::idm::server::{IdmServer, IdmServerDelayed, IdmServerTransaction};
use kanidmd_lib::idm::serviceaccount::{DestroyApiTokenEvent, GenerateApiTokenEvent};
use kanidmd_lib::prelude::*;
use kanidmd_lib::testkit::{setup_idm_test, TestConfiguration};
use kanidmd_lib::value::SessionState;
use kanidmd_lib::verif_hooks::c23::ident_internal;
use kanidmd_lib::verif_hooks::c27::cred_password;
use compact_jwt::JwsCompact;
use serde_json::{json, Value as Json};
use std::collections::{BTreeMap, BTreeSet};
use std::str::FromStr;
use std::time::Duration;

const NS: u128 = 1_000_000_000;
const DAY: u128 = 86_400 * NS;
/// 2049-03-22 04:26:40 UTC — far ahead of any wall clock this runs under (the server boots, and
/// creates its first keys, at the real `now`; every history instant must lie after that).
const T0: u128 = 2_500_000_000 * NS;
/// The grace window the property speaks of, as documented (5 minutes); deliberately not read from
/// the source so that a changed constant is an oracle matter.
const ORACLE_GRACE: u128 = 300 * NS;
const PW: &str = "eicieY7ahchaoCh0eeTa-c32";

fn dur(ns: u128) -> Duration {
    Duration::new((ns / NS) as u64, (ns % NS) as u32)
}
fn odt(ns: u128) -> time::OffsetDateTime {
    time::OffsetDateTime::UNIX_EPOCH + dur(ns)
}
fn odt_ns(t: time::OffsetDateTime) -> u128 {
    t.unix_timestamp_nanos() as u128
}
fn opt(x: Option<u128>) -> String {
    x.map(|v| v.to_string()).unwrap_or_else(|| "-".into())
}

// ---- base64url (no padding) ------------------------------------------------------------------
const B64: &[u8; 64] = b"ABCDEFGHIJKLMNOPQRSTUVWXYZabcdefghijklmnopqrstuvwxyz0123456789-_";
fn b64_dec(s: &str) -> Option<Vec<u8>> {
    let mut out = vec![];
    let (mut acc, mut bits) = (0u32, 0u32);
    for c in s.bytes() {
        let v = B64.iter().position(|b| *b == c)? as u32;
        acc = (acc << 6) | v;
        bits += 6;
        if bits >= 8 {
            bits -= 8;
            out.push((acc >> bits) as u8);
            acc &= (1 << bits) - 1;
        }
    }
    Some(out)
}
fn b64_enc(d: &[u8]) -> String {
    let mut s = String::new();
    for ch in d.chunks(3) {
        let n = ch.len();
        let v = (ch[0] as u32) << 16 | (*ch.get(1).unwrap_or(&0) as u32) << 8 | *ch.get(2).unwrap_or(&0) as u32;
        for i in 0..=n {
            s.push(B64[((v >> (18 - 6 * i)) & 63) as usize] as char);
        }
    }
    s
}

// ---- tokens ----------------------------------------------------------------------------------
#[derive(Clone, Debug, PartialEq)]
enum Kind {
    Uat,
    Apit,
    Apic,
}

#[derive(Clone, Debug)]
struct Tok {
    jws: String,
    kind: Kind,
    acct: u64,
    sid: Uuid,
    sid_nat: u64,
    /// issued_at as the token carries it (compact api tokens: as stored on the record)
    iat: u128,
    exp: Option<u128>,
    kid_nat: u64,
    cred_nat: Option<u64>,
    // ledger (what the harness itself did to this token's session)
    recorded: bool,
    revoked_after_record: bool,
    cred_removed: bool,
    destroyed: bool,
}

#[derive(Clone, Debug)]
struct Acct {
    nat: u64,
    uuid: Uuid,
    name: String,
    exists: bool,
    cred_nat: Option<u64>,
    vf: Option<u128>,
    ex: Option<u128>,
}

struct World {
    idms: IdmServer,
    delayed: IdmServerDelayed,
    accts: Vec<Acct>,
    toks: Vec<Tok>,
    pending: Vec<(usize, AuthSessionRecord)>,
    sids: BTreeMap<Uuid, u64>,
    kids: BTreeMap<String, u64>,
    creds: BTreeMap<Uuid, u64>,
    next_cred: u64,
    revoked_kids: BTreeSet<u64>,
    now: u128,
    foreign: Option<String>,
}

/// What one history produced.
#[derive(Default)]
struct Outcome {
    failures: Vec<Failure>,
    presentations: u64,
    accepted: u64,
    accepted_past_grace: u64,
    rejected_kinds: BTreeSet<String>,
    hist: BTreeMap<String, u64>,
    sample: Option<Json>,
}

impl Outcome {
    fn count(&mut self, k: &str) {
        *self.hist.entry(k.to_string()).or_insert(0) += 1;
    }
}

fn person_entry(name: &str, uuid: Uuid, cred: Option<kanidmd_lib::credential::Credential>) -> Entry<EntryInit, EntryNew> {
    let mut e: Entry<EntryInit, EntryNew> = Entry::new();
    e.add_ava(Attribute::Class, EntryClass::Object.to_value());
    e.add_ava(Attribute::Class, EntryClass::Account.to_value());
    e.add_ava(Attribute::Class, EntryClass::Person.to_value());
    e.add_ava(Attribute::Name, Value::new_iname(name));
    e.add_ava(Attribute::Uuid, Value::Uuid(uuid));
    e.add_ava(Attribute::Description, Value::new_utf8s(name));
    e.add_ava(Attribute::DisplayName, Value::new_utf8s(name));
    if let Some(c) = cred {
        e.add_ava(Attribute::PrimaryCredential, Value::new_credential("primary", c));
    }
    e
}

fn service_entry(name: &str, uuid: Uuid) -> Entry<EntryInit, EntryNew> {
    let mut e: Entry<EntryInit, EntryNew> = Entry::new();
    e.add_ava(Attribute::Class, EntryClass::Object.to_value());
    e.add_ava(Attribute::Class, EntryClass::Account.to_value());
    e.add_ava(Attribute::Class, EntryClass::ServiceAccount.to_value());
    e.add_ava(Attribute::Name, Value::new_iname(name));
    e.add_ava(Attribute::Uuid, Value::Uuid(uuid));
    e.add_ava(Attribute::Description, Value::new_utf8s(name));
    e.add_ava(Attribute::DisplayName, Value::new_utf8s(name));
    e
}

impl World {
    async fn new(foreign: Option<String>) -> World {
        let (idms, delayed, _audit) = setup_idm_test(TestConfiguration::default()).await;
        let mut w = World {
            idms,
            delayed,
            accts: vec![],
            toks: vec![],
            pending: vec![],
            sids: BTreeMap::new(),
            kids: BTreeMap::new(),
            creds: BTreeMap::new(),
            next_cred: 50,
            revoked_kids: BTreeSet::new(),
            now: T0,
            foreign,
        };
        w.accts.push(Acct { nat: 0, uuid: UUID_ANONYMOUS, name: "anonymous".into(), exists: true, cred_nat: None, vf: None, ex: None });
        let mut pw = w.idms.proxy_write(dur(T0 - DAY)).await.unwrap();
        for n in 1..=2u64 {
            let name = format!("c32person{n}");
            let uuid = nat_uuid(0xC32_0000 + n);
            w.next_cred += 1;
            let e = person_entry(&name, uuid, Some(cred_password(PW, false).unwrap()));
            pw.qs_write.internal_create(vec![e]).expect("create person");
            w.accts.push(Acct { nat: n, uuid, name, exists: true, cred_nat: Some(w.next_cred), vf: None, ex: None });
        }
        let uuid = nat_uuid(0xC32_0003);
        pw.qs_write.internal_create(vec![service_entry("c32service", uuid)]).expect("create service account");
        w.accts.push(Acct { nat: 3, uuid, name: "c32service".into(), exists: true, cred_nat: None, vf: None, ex: None });
        pw.commit().expect("commit accounts");
        w
    }

    fn acct_nat(&self, u: Uuid) -> u64 {
        self.accts.iter().find(|a| a.uuid == u).map(|a| a.nat).unwrap_or(9)
    }
    fn sid_nat(&mut self, u: Uuid) -> u64 {
        let n = self.sids.len() as u64 + 100;
        *self.sids.entry(u).or_insert(n)
    }

    /// Held-back delayed actions: only session records matter here; anything else is dropped.
    async fn drain(&mut self) -> Vec<AuthSessionRecord> {
        let mut out = vec![];
        loop {
            let mut buf: Vec<DelayedAction> = Vec::with_capacity(8);
            let n = tokio::select! {
                biased;
                n = self.delayed.recv_many(&mut buf) => n,
                _ = std::future::ready(()) => 0,
            };
            if n == 0 {
                break;
            }
            for da in buf {
                if let DelayedAction::AuthSessionRecord(asr) = da {
                    out.push(asr);
                }
            }
        }
        out
    }

    async fn login(&mut self, who: usize, t: u128) -> Option<String> {
        let ct = dur(t);
        let name = self.accts[who].name.clone();
        let cai = || ClientAuthInfo::new(Source::Internal, None, None, None);
        let mut a = self.idms.auth().await.unwrap();
        a.expire_auth_sessions(ct).await;
        let init = AuthEvent {
            ident: None,
            step: AuthEventStep::Init(AuthEventStepInit { username: name, issue: AuthIssueSession::Token, privileged: false }),
        };
        let r = match a.auth(&init, ct, cai()).await {
            Ok(r) => r,
            Err(_) => return None,
        };
        let sid = r.sessionid;
        let (mech, cred) = if who == 0 {
            (AuthMech::Anonymous, AuthCredential::Anonymous)
        } else {
            (AuthMech::Password, AuthCredential::Password(PW.into()))
        };
        let begin = AuthEvent { ident: None, step: AuthEventStep::Begin(AuthEventStepMech { sessionid: sid, mech }) };
        let r = match a.auth(&begin, ct, cai()).await {
            Ok(r) => r,
            Err(_) => return None,
        };
        let out = match r.state {
            AuthState::Continue(_) => {
                let ev = AuthEvent { ident: None, step: AuthEventStep::Cred(AuthEventStepCred { sessionid: sid, cred }) };
                match a.auth(&ev, ct, cai()).await {
                    Ok(r) => match r.state {
                        AuthState::Success(tok, _) => Some(tok.to_string()),
                        _ => None,
                    },
                    Err(_) => None,
                }
            }
            _ => None,
        };
        let _ = a.commit();
        out
    }

    /// Decode a compact JWS into (kid, model payload text, parsed fields).
    fn decode(&mut self, jws: &str) -> (String, Json) {
        let parts: Vec<&str> = jws.split('.').collect();
        let hdr: Json = serde_json::from_slice(&b64_dec(parts[0]).expect("b64 header")).expect("header json");
        let kid = hdr["kid"].as_str().unwrap_or("").to_string();
        let payload = b64_dec(parts[1]).expect("b64 payload");
        // same order as the server: UAT, legacy api token, 16 raw bytes
        if let Ok(u) = serde_json::from_slice::<UserAuthToken>(&payload) {
            return (kid, json!({"k": "uat", "uuid": u.uuid.to_string(), "sid": u.session_id.to_string(),
                "iat": odt_ns(u.issued_at).to_string(), "exp": u.expiry.map(|e| odt_ns(e).to_string())}));
        }
        if let Ok(a) = serde_json::from_slice::<ProtoApiToken>(&payload) {
            return (kid, json!({"k": "apit", "uuid": a.account_id.to_string(), "sid": a.token_id.to_string(),
                "iat": odt_ns(a.issued_at).to_string(), "exp": a.expiry.map(|e| odt_ns(e).to_string())}));
        }
        if let Ok(u) = Uuid::from_slice(&payload) {
            return (kid, json!({"k": "apic", "sid": u.to_string()}));
        }
        (kid, json!({"k": "other"}))
    }

    /// The model's view of a presented JWS string.
    fn model_token(&mut self, jws: &str, sigok: bool) -> String {
        let (kid, p) = self.decode(jws);
        let n = self.kids.len() as u64 + 1;
        // a kid never seen on a token issued by this server gets a number the model never `key`s
        let kid_nat = *self.kids.get(&kid).unwrap_or(&(900 + n));
        let s = sigok as u8;
        let u = |key: &str| -> Uuid { Uuid::from_str(p[key].as_str().unwrap()).unwrap() };
        let e = |key: &str| -> String { p[key].as_str().map(|x| x.to_string()).unwrap_or_else(|| "-".into()) };
        match p["k"].as_str().unwrap() {
            "uat" => {
                let a = self.acct_nat(u("uuid"));
                let sid = u("sid");
                let sn = self.sid_nat(sid);
                format!("uat:{kid_nat}:{s}:{a}:{sn}:{}:{}", e("iat"), e("exp"))
            }
            "apit" => {
                let a = self.acct_nat(u("uuid"));
                let sid = u("sid");
                let sn = self.sid_nat(sid);
                format!("apit:{kid_nat}:{s}:{a}:{sn}:{}:{}", e("iat"), e("exp"))
            }
            "apic" => {
                let sid = u("sid");
                let sn = self.sid_nat(sid);
                format!("apic:{kid_nat}:{s}:{sn}")
            }
            _ => format!("other:{kid_nat}:{s}"),
        }
    }

    async fn present_real(&mut self, jws: &str, ct: u128, pre: bool) -> (String, Option<(Uuid, Uuid)>) {
        let Ok(j) = JwsCompact::from_str(jws) else {
            return ("unparsable".into(), None);
        };
        let mut r = self.idms.proxy_read().await.unwrap();
        let mut cai = ClientAuthInfo::new(Source::Internal, None, Some(j), None);
        if pre {
            if let Err(e) = r.pre_validate_client_auth_info(&mut cai, dur(ct)) {
                return (format!("pre-err:{e:?}"), None);
            }
        }
        let res = r.validate_client_auth_info_to_ident(cai, dur(ct));
        drop(r);
        match res {
            Ok(id) => {
                let (u, s) = (id.get_uuid(), id.get_session_id());
                let a = self.acct_nat(u);
                let sn = self.sid_nat(s);
                (format!("ident {a} {sn}"), Some((u, s)))
            }
            Err(OperationError::NotAuthenticated) => ("notauth".into(), None),
            Err(OperationError::SessionExpired) => ("expired".into(), None),
            Err(e) => (format!("err:{e:?}"), None),
        }
    }

    /// Canonical text of the real UserAuthTokenSession map (same format as the driver's `sess`).
    async fn real_sessions(&mut self, a: usize) -> String {
        let uuid = self.accts[a].uuid;
        let mut r = self.idms.proxy_read().await.unwrap();
        let e = r.qs_read.internal_search_uuid(uuid);
        drop(r);
        let Ok(e) = e else { return "absent".into() };
        let mut items: Vec<(u64, String)> = vec![];
        if let Some(m) = e.get_ava_as_session_map(Attribute::UserAuthTokenSession) {
            for (sid, s) in m {
                let sn = *self.sids.get(sid).unwrap_or(&0);
                let st = match &s.state {
                    SessionState::ExpiresAt(t) => format!("E{}", odt_ns(*t)),
                    SessionState::NeverExpires => "N".to_string(),
                    SessionState::RevokedAt(_) => "R".to_string(),
                };
                let c = *self.creds.get(&s.cred_id).unwrap_or(&0);
                items.push((sn, format!("{sn}:{st}:{c}")));
            }
        }
        items.sort();
        if items.is_empty() { "-".into() } else { items.into_iter().map(|x| x.1).collect::<Vec<_>>().join(",") }
    }

    async fn real_api(&mut self, a: usize) -> String {
        let uuid = self.accts[a].uuid;
        let mut r = self.idms.proxy_read().await.unwrap();
        let e = r.qs_read.internal_search_uuid(uuid);
        drop(r);
        let Ok(e) = e else { return "absent".into() };
        let mut items: Vec<u64> = vec![];
        if let Some(m) = e.get_ava_as_apitoken_map(Attribute::ApiTokenSession) {
            for sid in m.keys() {
                items.push(*self.sids.get(sid).unwrap_or(&0));
            }
        }
        items.sort();
        if items.is_empty() { "-".into() } else { items.iter().map(|x| x.to_string()).collect::<Vec<_>>().join(",") }
    }

    /// Independent reading of the real entry for the oracle: is the token's session recorded and live?
    async fn real_session_live(&mut self, tk: &Tok) -> bool {
        let uuid = self.accts[tk.acct as usize].uuid;
        let mut r = self.idms.proxy_read().await.unwrap();
        let e = r.qs_read.internal_search_uuid(uuid);
        drop(r);
        let Ok(e) = e else { return false };
        match tk.kind {
            Kind::Uat => match e.get_ava_as_session_map(Attribute::UserAuthTokenSession).and_then(|m| m.get(&tk.sid)) {
                Some(s) => match (&s.state, tk.exp) {
                    (SessionState::ExpiresAt(t), Some(x)) => odt_ns(*t) == x,
                    (SessionState::NeverExpires, None) => true,
                    _ => false,
                },
                None => false,
            },
            _ => e.get_ava_as_apitoken_map(Attribute::ApiTokenSession).map(|m| m.contains_key(&tk.sid)).unwrap_or(false),
        }
    }
}

fn tamper_sig(jws: &str) -> String {
    let parts: Vec<&str> = jws.split('.').collect();
    let mut sig: Vec<u8> = parts[2].bytes().collect();
    sig[0] = if sig[0] == b'A' { b'B' } else { b'A' };
    format!("{}.{}.{}", parts[0], parts[1], String::from_utf8(sig).unwrap())
}

/// Same header and signature, payload with the expiry pushed 10 days out (UAT / legacy api token).
fn tamper_exp(jws: &str) -> Option<String> {
    let parts: Vec<&str> = jws.split('.').collect();
    let payload = b64_dec(parts[1])?;
    let mut v: Json = serde_json::from_slice(&payload).ok()?;
    let e = v.get("expiry")?.as_i64()?;
    v["expiry"] = json!(e + 10 * 86_400);
    Some(format!("{}.{}.{}", parts[0], b64_enc(&serde_json::to_vec(&v).ok()?), parts[2]))
}

fn classify(what: &str) -> String {
    match what {
        "anonymous" => "C32:anonymous-session-never-recorded".into(),
        _ => "unclassified".into(),
    }
}

struct Run<'a> {
    w: World,
    drv: &'a mut Driver,
    out: Outcome,
    ops: Vec<String>,
    at: usize,
}

impl<'a> Run<'a> {
    fn fail(&mut self, kind: &str, class: &str, expected: String, observed: String) {
        // one failure per (kind, class) per history keeps the report readable
        if self.out.failures.iter().any(|f| f.kind == kind && f.class == class) {
            return;
        }
        self.out.failures.push(Failure {
            kind: kind.into(),
            class: class.into(),
            input: json!({"ops": self.ops, "at": self.at}),
            expected,
            observed,
        });
    }

    fn model(&mut self, line: &str) -> String {
        self.drv.ask(line)
    }

    /// Present token `k` (or a derived form of it) at `ct`: real code, model, oracle.
    async fn present(&mut self, k: usize, ct: u128, form: &str) {
        let tk = self.w.toks[k].clone();
        let (jws, sigok, pre, altered) = match form {
            "plain" => (tk.jws.clone(), true, false, false),
            "pre" => (tk.jws.clone(), true, true, false),
            "badsig" => (tamper_sig(&tk.jws), false, false, true),
            "extexp" => match tamper_exp(&tk.jws) {
                Some(j) => (j, false, false, true),
                None => return,
            },
            "foreign" => match self.w.foreign.clone() {
                Some(j) => (j, true, false, true),
                None => return,
            },
            _ => return,
        };
        let mt = self.w.model_token(&jws, sigok);
        let (real, ident) = self.w.present_real(&jws, ct, pre).await;
        let m = self.model(&format!("{} {mt} {ct}", if pre { "valpre" } else { "val" }));
        self.out.presentations += 1;
        self.out.count(&format!("present:{form}:{}", real.split(' ').next().unwrap()));
        if real != m {
            self.fail("impl-vs-model", "unclassified", format!("{m}  (model, token {mt} at {ct}, form {form})"), real.clone());
        }
        if self.out.sample.is_none() && ident.is_some() && ct >= tk.iat + ORACLE_GRACE {
            self.out.sample = Some(json!({"token": mt, "at": ct.to_string(), "form": form, "impl": real, "model": m}));
        }
        // ---- oracle: the property's "accepted only if" on the real reply -----------------------
        let Some((u, s)) = ident else {
            self.out.rejected_kinds.insert(format!("{form}:{real}"));
            return;
        };
        self.out.accepted += 1;
        let desc = format!("token {k} ({mt}) form {form} accepted at {ct}: {real}");
        if altered {
            self.fail("impl-vs-oracle", "unclassified", "a tampered or foreign token is rejected".into(), desc.clone());
            return;
        }
        if self.w.revoked_kids.contains(&tk.kid_nat) {
            self.fail("impl-vs-oracle", "unclassified", "a token signed by a revoked key is rejected".into(), desc.clone());
        }
        let acct = self.w.accts[tk.acct as usize].clone();
        if u != acct.uuid || s != tk.sid {
            self.fail("impl-vs-oracle", "unclassified", "the identity returned is the token's own account and session".into(), desc.clone());
        }
        if let Some(e) = tk.exp {
            if ct >= e {
                // D30 (fixed): a UAT presented at exactly its expiry instant used to be accepted
                self.fail("impl-vs-oracle", "unclassified", format!("expired tokens are rejected (expiry {e})"), desc.clone());
            }
        }
        let in_window = acct.exists && acct.vf.map(|v| v <= ct).unwrap_or(true) && acct.ex.map(|x| ct <= x).unwrap_or(true);
        if !in_window {
            self.fail("impl-vs-oracle", "unclassified",
                format!("account exists and is inside its validity window (exists={}, valid_from={:?}, expire={:?})", acct.exists, acct.vf, acct.ex), desc.clone());
        }
        if ct >= tk.iat + ORACLE_GRACE {
            self.out.accepted_past_grace += 1;
            let live = self.w.real_session_live(&tk).await;
            if !live {
                let class = if tk.acct == 0 { classify("anonymous") } else { classify("") };
                self.fail("impl-vs-oracle", &class,
                    "past the grace window the session is recorded on the account (matching expiry, not revoked)".into(), desc.clone());
            }
            let hist_live = match tk.kind {
                Kind::Uat => tk.recorded && !tk.revoked_after_record && !tk.cred_removed,
                _ => !tk.destroyed,
            };
            if !hist_live && tk.acct != 0 {
                self.fail("impl-vs-oracle", "unclassified",
                    format!("past the grace window the history holds a recording with no later revocation / credential removal / destroy (recorded={}, revoked={}, cred_removed={}, destroyed={})",
                        tk.recorded, tk.revoked_after_record, tk.cred_removed, tk.destroyed), desc);
            }
        }
    }

    /// State correspondence after a write.
    async fn compare_state(&mut self) {
        for a in 0..4usize {
            let real = self.w.real_sessions(a).await;
            let m = self.model(&format!("sess {a}"));
            if real != m {
                self.fail("impl-vs-model", "unclassified", format!("{m}  (model sessions of account {a})"), real);
            }
        }
        let real = self.w.real_api(3).await;
        let m = self.model("api 3");
        if real != m {
            self.fail("impl-vs-model", "unclassified", format!("{m}  (model api tokens of account 3)"), real);
        }
    }

    async fn present_all(&mut self, ct: u128) {
        for k in 0..self.w.toks.len() {
            self.present(k, ct, "plain").await;
            self.present(k, ct, "pre").await;
        }
    }

    fn new_token(&mut self, jws: String, cred_nat: Option<u64>, issue_t: u128) -> usize {
        let (kid, p) = self.w.decode(&jws);
        let n = self.w.kids.len() as u64 + 1;
        let kid_nat = *self.w.kids.entry(kid).or_insert(n);
        self.model(&format!("key {kid_nat}"));
        let kind = match p["k"].as_str().unwrap() {
            "uat" => Kind::Uat,
            "apit" => Kind::Apit,
            _ => Kind::Apic,
        };
        let sid = Uuid::from_str(p["sid"].as_str().unwrap()).unwrap();
        let sid_nat = self.w.sid_nat(sid);
        let acct = match kind {
            Kind::Apic => 3,
            _ => self.w.acct_nat(Uuid::from_str(p["uuid"].as_str().unwrap()).unwrap()),
        };
        let iat = p["iat"].as_str().map(|x| x.parse().unwrap()).unwrap_or(issue_t);
        let exp = p["exp"].as_str().map(|x| x.parse().unwrap());
        self.w.toks.push(Tok {
            jws, kind, acct, sid, sid_nat, iat, exp, kid_nat, cred_nat,
            recorded: false, revoked_after_record: false, cred_removed: false, destroyed: false,
        });
        self.w.toks.len() - 1
    }

    fn resolve_when(&self, k: usize, when: &str) -> Option<u128> {
        let (anchor, d) = when.split_once(':')?;
        let d: i128 = d.parse().ok()?;
        let tk = &self.w.toks[k];
        let acct = &self.w.accts[tk.acct as usize];
        let base: u128 = match anchor {
            "abs" => 0,
            "now" => self.w.now,
            "grace" => tk.iat + ORACLE_GRACE,
            "exp" => tk.exp?,
            "vf" => acct.vf?,
            "ex" => acct.ex?,
            _ => return None,
        };
        let v = base as i128 + d;
        if v < 0 { None } else { Some(v as u128) }
    }

    async fn modify(&mut self, t: u128, uuid: Uuid, ml: ModifyList<ModifyInvalid>) -> bool {
        let mut pw = self.w.idms.proxy_write(dur(t)).await.unwrap();
        let r = pw.qs_write.internal_modify(&Filter::new_ignore_hidden(FC::Eq(Attribute::Uuid, PartialValue::Uuid(uuid))), &ml);
        match r {
            Ok(()) => pw.commit().is_ok(),
            Err(_) => false,
        }
    }

    /// Execute one op string. Returns false when it did not apply (skipped).
    async fn exec(&mut self, op: &str) -> bool {
        let f: Vec<&str> = op.split(' ').collect();
        let num = |i: usize| -> u128 { f[i].parse().unwrap() };
        let onum = |i: usize| -> Option<u128> { if f[i] == "-" { None } else { Some(f[i].parse().unwrap()) } };
        match f[0] {
            "login" => {
                let (who, t) = (num(1) as usize, num(2));
                self.w.now = t;
                let cred_nat = self.w.accts[who].cred_nat;
                match self.w.login(who, t).await {
                    Some(jws) => {
                        let k = self.new_token(jws, cred_nat, t);
                        for asr in self.w.drain().await {
                            if let Some(c) = cred_nat {
                                let prev = self.w.creds.insert(asr.cred_id, c);
                                assert!(prev.is_none() || prev == Some(c), "credential uuid bound to two model atoms");
                            }
                            self.w.pending.push((k, asr));
                        }
                        self.out.count("op:login-ok");
                    }
                    None => {
                        let _ = self.w.drain().await;
                        self.out.count("op:login-denied");
                    }
                }
                true
            }
            "record" => {
                if self.w.pending.is_empty() {
                    return false;
                }
                let j = num(1) as usize % self.w.pending.len();
                let t = num(2);
                self.w.now = t;
                let (k, asr) = self.w.pending.remove(j);
                let ok = {
                    let mut pw = self.w.idms.proxy_write(dur(t)).await.unwrap();
                    pw.process_delayedaction(&DelayedAction::AuthSessionRecord(clone_asr(&asr)), dur(t)).is_ok() && pw.commit().is_ok()
                };
                let tk = self.w.toks[k].clone();
                let c = *self.w.creds.get(&asr.cred_id).unwrap_or(&0);
                let e = asr.expiry.map(odt_ns);
                self.model(&format!("rec {} {} {c} {} {t}", tk.acct, tk.sid_nat, opt(e)));
                if ok {
                    self.w.toks[k].recorded = true;
                    // a recording after the credential went away is revoked on the spot by the plugin;
                    // the ledger keeps `cred_removed` from the removal op
                }
                self.out.count(if ok { "op:record" } else { "op:record-noentry" });
                true
            }
            "revoke" => {
                let uats: Vec<usize> = (0..self.w.toks.len()).filter(|k| self.w.toks[*k].kind == Kind::Uat && self.w.toks[*k].acct != 0).collect();
                if uats.is_empty() {
                    return false;
                }
                let k = uats[num(1) as usize % uats.len()];
                let t = num(2);
                self.w.now = t;
                let tk = self.w.toks[k].clone();
                let uuid = self.w.accts[tk.acct as usize].uuid;
                let ml = ModifyList::new_list(vec![Modify::Removed(Attribute::UserAuthTokenSession, PartialValue::Refer(tk.sid))]);
                let ok = self.modify(t, uuid, ml).await;
                self.model(&format!("rev {} {} {t}", tk.acct, tk.sid_nat));
                if ok && tk.recorded {
                    self.w.toks[k].revoked_after_record = true;
                }
                self.out.count(if tk.recorded { "op:revoke-recorded" } else { "op:revoke-unrecorded" });
                true
            }
            "delcred" | "setcred" => {
                let (who, t) = (num(1) as usize, num(2));
                self.w.now = t;
                let uuid = self.w.accts[who].uuid;
                let (ml, newc) = if f[0] == "delcred" {
                    (ModifyList::new_purge(Attribute::PrimaryCredential), None)
                } else {
                    self.w.next_cred += 1;
                    (ModifyList::new_purge_and_set(Attribute::PrimaryCredential, Value::new_credential("primary", cred_password(PW, false).unwrap())), Some(self.w.next_cred))
                };
                let ok = self.modify(t, uuid, ml).await;
                self.model(&format!("cred {who} {} {t}", newc.map(|c| c.to_string()).unwrap_or_else(|| "-".into())));
                if ok {
                    self.w.accts[who].cred_nat = newc;
                    for tk in self.w.toks.iter_mut() {
                        if tk.acct == who as u64 && tk.kind == Kind::Uat {
                            tk.cred_removed = true;
                        }
                    }
                }
                self.out.count(&format!("op:{}", f[0]));
                true
            }
            "valid" => {
                let (a, vf, ex, t) = (num(1) as usize, onum(2), onum(3), num(4));
                self.w.now = t;
                let uuid = self.w.accts[a].uuid;
                let mut mods = vec![Modify::Purged(Attribute::AccountValidFrom), Modify::Purged(Attribute::AccountExpire)];
                if let Some(v) = vf {
                    mods.push(Modify::Present(Attribute::AccountValidFrom, Value::new_datetime_epoch(dur(v))));
                }
                if let Some(x) = ex {
                    mods.push(Modify::Present(Attribute::AccountExpire, Value::new_datetime_epoch(dur(x))));
                }
                let ok = self.modify(t, uuid, ModifyList::new_list(mods)).await;
                self.model(&format!("valid {a} {} {} {t}", opt(vf), opt(ex)));
                if ok {
                    self.w.accts[a].vf = vf;
                    self.w.accts[a].ex = ex;
                }
                self.out.count("op:valid");
                true
            }
            "del" => {
                let (a, t) = (num(1) as usize, num(2));
                if a == 0 || !self.w.accts[a].exists {
                    return false;
                }
                self.w.now = t;
                let uuid = self.w.accts[a].uuid;
                let ok = {
                    let mut pw = self.w.idms.proxy_write(dur(t)).await.unwrap();
                    pw.qs_write.internal_delete_uuid(uuid).is_ok() && pw.commit().is_ok()
                };
                assert!(ok, "delete of an existing account failed");
                self.model(&format!("del {a}"));
                self.w.accts[a].exists = false;
                self.out.count("op:del");
                true
            }
            "apiissue" => {
                let (exp, compact, t) = (onum(1), f[2] == "1", num(3));
                self.w.now = t;
                if !self.w.accts[3].exists {
                    return false;
                }
                let ev = GenerateApiTokenEvent {
                    ident: ident_internal(0).unwrap(),
                    target: self.w.accts[3].uuid,
                    label: format!("tok{}", self.w.toks.len()),
                    expiry: exp.map(odt),
                    read_write: false,
                    compact,
                };
                let r = {
                    let mut pw = self.w.idms.proxy_write(dur(t)).await.unwrap();
                    match pw.service_account_generate_api_token(&ev, dur(t)) {
                        Ok(j) => if pw.commit().is_ok() { Some(j.to_string()) } else { None },
                        Err(_) => None,
                    }
                };
                let Some(jws) = r else {
                    self.out.count("op:apiissue-failed");
                    return true;
                };
                let k = self.new_token(jws, None, t);
                if compact {
                    self.w.toks[k].exp = exp;
                    self.w.toks[k].iat = t;
                }
                let tk = self.w.toks[k].clone();
                // the stored record keeps the full-resolution issue time and the requested expiry
                self.model(&format!("apiissue 3 {} {} {t} {t}", tk.sid_nat, opt(exp)));
                self.out.count(if compact { "op:apiissue-compact" } else { "op:apiissue-legacy" });
                true
            }
            "apidestroy" => {
                let apis: Vec<usize> = (0..self.w.toks.len()).filter(|k| self.w.toks[*k].kind != Kind::Uat).collect();
                if apis.is_empty() {
                    return false;
                }
                let k = apis[num(1) as usize % apis.len()];
                let t = num(2);
                self.w.now = t;
                let tk = self.w.toks[k].clone();
                let ev = DestroyApiTokenEvent { ident: ident_internal(0).unwrap(), target: self.w.accts[3].uuid, token_id: tk.sid };
                let ok = {
                    let mut pw = self.w.idms.proxy_write(dur(t)).await.unwrap();
                    pw.service_account_destroy_api_token(&ev).is_ok() && pw.commit().is_ok()
                };
                self.model(&format!("apidestroy 3 {} {t}", tk.sid_nat));
                if ok {
                    self.w.toks[k].destroyed = true;
                }
                self.out.count("op:apidestroy");
                true
            }
            "keyrevoke" => {
                if self.w.toks.is_empty() {
                    return false;
                }
                let k = num(1) as usize % self.w.toks.len();
                let t = num(2);
                self.w.now = t;
                let kid_nat = self.w.toks[k].kid_nat;
                let kid = self.w.kids.iter().find(|(_, n)| **n == kid_nat).map(|(s, _)| s.clone()).unwrap();
                let ml = ModifyList::new_append(Attribute::KeyActionRevoke, Value::HexString(kid));
                let ok = self.modify(t, UUID_DOMAIN_INFO, ml).await;
                if ok {
                    self.model(&format!("keyrevoke {kid_nat}"));
                    self.w.revoked_kids.insert(kid_nat);
                }
                self.out.count(if ok { "op:keyrevoke" } else { "op:keyrevoke-failed" });
                true
            }
            "keyrotate" => {
                let t = num(1);
                self.w.now = t;
                let ml = ModifyList::new_append(Attribute::KeyActionRotate, Value::new_datetime_epoch(dur(t)));
                let ok = self.modify(t, UUID_DOMAIN_INFO, ml).await;
                self.out.count(if ok { "op:keyrotate" } else { "op:keyrotate-failed" });
                true
            }
            "present" => {
                if self.w.toks.is_empty() {
                    return false;
                }
                let k = num(1) as usize % self.w.toks.len();
                let Some(ct) = self.resolve_when(k, f[2]) else { return false };
                self.present(k, ct, f[3]).await;
                return false; // not a state op: no blanket presentation afterwards
            }
            _ => panic!("unknown op {op}"),
        }
    }
}

fn clone_asr(a: &AuthSessionRecord) -> AuthSessionRecord {
    AuthSessionRecord {
        target_uuid: a.target_uuid,
        session_id: a.session_id,
        cred_id: a.cred_id,
        label: a.label.clone(),
        expiry: a.expiry,
        issued_at: a.issued_at,
        issued_by: a.issued_by.clone(),
        scope: a.scope,
        type_: a.type_,
        ext_metadata: a.ext_metadata.clone(),
    }
}

async fn run_history(drv: &mut Driver, ops: &[String], foreign: Option<String>) -> Outcome {
    let w = World::new(foreign).await;
    let mut run = Run { w, drv, out: Outcome::default(), ops: ops.to_vec(), at: 0 };
    run.model("reset");
    run.model("acct 0 -");
    let (c1, c2) = (run.w.accts[1].cred_nat.unwrap(), run.w.accts[2].cred_nat.unwrap());
    run.model(&format!("acct 1 {c1}"));
    run.model(&format!("acct 2 {c2}"));
    run.model("acct 3 -");
    for (i, op) in ops.iter().enumerate() {
        run.at = i;
        let state_op = run.exec(op).await;
        if state_op {
            run.compare_state().await;
            let now = run.w.now;
            run.present_all(now).await;
        }
    }
    run.out
}

/// Random history: mostly meaningful sequences (login → record → …) with times that cross the
/// grace window, the token expiry and the account window, ±1 ns around each.
fn gen_history(r: &mut Rng, len: usize) -> Vec<String> {
    let mut ops = vec![];
    let mut t = T0 + r.below(1000) as u128 * NS + if r.chance(1, 2) { r.below(NS as u64) as u128 } else { 0 };
    let step = |r: &mut Rng, t: &mut u128| {
        *t += match r.below(12) {
            0 => 0,
            1 => 1,
            2 => NS,
            3 => 30 * NS + r.below(NS as u64) as u128,
            4 => 299 * NS,
            5 => 300 * NS,
            6 => 301 * NS,
            7 => 3600 * NS,
            8 => 20 * 3600 * NS,
            9 => 86_400 * NS - 300 * NS,
            10 => r.below(600) as u128 * NS,
            _ => r.below(5) as u128 * NS,
        };
    };
    let d1: &[i128] = &[-1, 0, 1];
    // start with something to present
    ops.push(format!("login {} {t}", r.range(1, 2)));
    if r.chance(2, 3) {
        ops.push(format!("apiissue {} {} {t}", if r.chance(1, 2) { "-".to_string() } else { (t + r.range(1, 3) as u128 * 3600 * NS).to_string() }, r.below(2)));
    }
    while ops.len() < len {
        step(r, &mut t);
        let op = match r.below(100) {
            0..=13 => format!("login {} {t}", r.range(1, 2)),
            14..=17 => format!("login 0 {t}"),
            18..=33 => format!("record {} {t}", r.below(8)),
            34..=43 => format!("revoke {} {t}", r.below(8)),
            44..=47 => format!("delcred {} {t}", r.range(1, 2)),
            48..=52 => format!("setcred {} {t}", r.range(1, 2)),
            53..=62 => {
                let a = r.below(4);
                let around = |r: &mut Rng| -> String {
                    match r.below(5) {
                        0 => "-".to_string(),
                        1 => (t - r.below(4000) as u128 * NS).to_string(),
                        2 => (t + r.below(4000) as u128 * NS).to_string(),
                        3 => (t + 300 * NS).to_string(),
                        _ => t.to_string(),
                    }
                };
                format!("valid {a} {} {} {t}", around(r), around(r))
            }
            63..=65 => format!("del {} {t}", r.range(1, 3)),
            66..=75 => {
                let exp = match r.below(4) {
                    0 => "-".to_string(),
                    1 => (t + 300 * NS).to_string(),
                    2 => (t + r.range(1, 5000) as u128 * NS).to_string(),
                    _ => (t + 86_400 * NS).to_string(),
                };
                format!("apiissue {exp} {} {t}", r.below(2))
            }
            76..=80 => format!("apidestroy {} {t}", r.below(8)),
            81..=84 => format!("keyrevoke {} {t}", r.below(8)),
            85..=87 => format!("keyrotate {t}"),
            _ => {
                let k = r.below(8);
                let form = *r.pick(&["plain", "pre", "badsig", "extexp", "foreign", "plain", "pre"]);
                let when = match r.below(6) {
                    0 => format!("grace:{}", r.pick(d1)),
                    1 => format!("exp:{}", r.pick(d1)),
                    2 => format!("vf:{}", r.pick(d1)),
                    3 => format!("ex:{}", r.pick(d1)),
                    4 => format!("now:{}", r.below(400 * NS as u64)),
                    _ => format!("now:{}", -(r.below(400 * NS as u64) as i128)),
                };
                format!("present {k} {when} {form}")
            }
        };
        let is_state = !op.starts_with("present");
        ops.push(op);
        if is_state {
            // boundary presentations right after most events
            for _ in 0..r.below(3) {
                let k = r.below(8);
                let when = match r.below(4) {
                    0 => format!("grace:{}", r.pick(d1)),
                    1 => format!("exp:{}", r.pick(d1)),
                    2 => format!("ex:{}", r.pick(d1)),
                    _ => format!("vf:{}", r.pick(d1)),
                };
                ops.push(format!("present {k} {when} {}", r.pick(&["plain", "pre"])));
            }
        }
    }
    ops
}

/// Scripted histories: every event kind once, with every token presented around every boundary.
fn scripted() -> Vec<(String, Vec<String>)> {
    let s = |v: &[String]| v.to_vec();
    let t = T0 + 7;
    let g = 300 * NS;
    let mut out = vec![];
    // never recorded: valid inside the grace window only
    out.push(("grace-only".to_string(), s(&[
        format!("login 1 {t}"),
        "present 0 grace:-1 plain".into(), "present 0 grace:0 plain".into(), "present 0 grace:1 plain".into(),
        "present 0 grace:-1 pre".into(), "present 0 grace:0 pre".into(),
    ])));
    // recorded: valid until the expiry instant
    out.push(("recorded-until-expiry".to_string(), s(&[
        format!("login 1 {t}"), format!("record 0 {}", t + NS),
        "present 0 grace:0 plain".into(), "present 0 exp:-1 plain".into(), "present 0 exp:0 plain".into(), "present 0 exp:1 plain".into(),
        "present 0 exp:0 pre".into(), "present 0 exp:1 pre".into(),
        "present 0 grace:5 badsig".into(), "present 0 grace:5 extexp".into(), "present 0 grace:5 foreign".into(),
    ])));
    // revoked inside and outside the grace window
    out.push(("revoked".to_string(), s(&[
        format!("login 1 {t}"), format!("record 0 {}", t + NS), format!("revoke 0 {}", t + 2 * NS),
        "present 0 grace:-1 plain".into(), "present 0 grace:1 plain".into(),
        format!("record 0 {}", t + 3 * NS),
    ])));
    // revoke before the record arrives, then the record
    out.push(("revoke-then-record".to_string(), s(&[
        format!("login 2 {t}"), format!("revoke 0 {}", t + NS), format!("record 0 {}", t + 2 * NS),
        "present 0 grace:1 plain".into(),
    ])));
    // credential removal / replacement
    out.push(("credential-removed".to_string(), s(&[
        format!("login 1 {t}"), format!("login 2 {t}"), format!("record 0 {}", t + NS), format!("record 0 {}", t + NS),
        format!("delcred 1 {}", t + g + NS), format!("setcred 2 {}", t + g + 2 * NS),
        format!("login 2 {}", t + g + 3 * NS), format!("record 0 {}", t + g + 4 * NS),
        "present 2 grace:1 plain".into(),
    ])));
    // credential removed before the record arrives
    out.push(("credential-removed-before-record".to_string(), s(&[
        format!("login 1 {t}"), format!("delcred 1 {}", t + NS), format!("record 0 {}", t + 2 * NS),
        "present 0 grace:-1 plain".into(), "present 0 grace:0 plain".into(),
    ])));
    // account validity window
    out.push(("validity-window".to_string(), s(&[
        format!("login 1 {t}"), format!("record 0 {}", t + NS),
        format!("valid 1 {} {} {}", t + 10 * NS, t + 20 * NS, t + 2 * NS),
        "present 0 vf:-1 plain".into(), "present 0 vf:0 plain".into(), "present 0 ex:0 plain".into(), "present 0 ex:1 plain".into(),
        "present 0 vf:-1 pre".into(), "present 0 ex:1 pre".into(),
        format!("valid 1 - - {}", t + 30 * NS),
    ])));
    // account deleted
    out.push(("account-deleted".to_string(), s(&[
        format!("login 1 {t}"), format!("record 0 {}", t + NS), format!("apiissue - 0 {}", t + NS), format!("apiissue - 1 {}", t + NS),
        format!("del 1 {}", t + 2 * NS), format!("del 3 {}", t + 3 * NS),
    ])));
    // key revoked / rotated
    out.push(("key-revoked".to_string(), s(&[
        format!("login 1 {t}"), format!("record 0 {}", t + NS), format!("apiissue - 0 {}", t + NS), format!("apiissue - 1 {}", t + NS),
        format!("keyrotate {}", t + 2 * NS), format!("login 2 {}", t + 5 * NS),
        format!("keyrevoke 0 {}", t + 6 * NS), format!("keyrevoke 1 {}", t + 7 * NS),
        format!("login 2 {}", t + 8 * NS), format!("apiissue - 1 {}", t + 9 * NS),
    ])));
    // api tokens: expiry boundary, destroy, grace after destroy
    out.push(("api-tokens".to_string(), s(&[
        format!("apiissue {} 0 {t}", t + 1000 * NS), format!("apiissue {} 1 {t}", t + 1000 * NS),
        "present 0 exp:-1 plain".into(), "present 0 exp:0 plain".into(), "present 1 exp:-1 plain".into(), "present 1 exp:0 plain".into(),
        format!("apidestroy 0 {}", t + NS), format!("apidestroy 1 {}", t + 2 * NS),
        "present 0 grace:-1 plain".into(), "present 0 grace:0 plain".into(), "present 1 grace:-1 plain".into(),
        format!("valid 3 {} {} {}", t + 10 * NS, t + 20 * NS, t + 3 * NS),
        format!("apiissue - 1 {}", t + 4 * NS),
        "present 2 vf:-1 plain".into(), "present 2 vf:0 plain".into(), "present 2 ex:0 plain".into(), "present 2 ex:1 plain".into(),
    ])));
    // anonymous: never recorded
    out.push(("anonymous".to_string(), s(&[
        format!("login 0 {t}"),
        "present 0 grace:-1 plain".into(), "present 0 grace:0 plain".into(), "present 0 exp:0 plain".into(), "present 0 exp:1 plain".into(),
        format!("valid 0 - {} {}", t + 50 * NS, t + NS),
        "present 0 ex:0 plain".into(), "present 0 ex:1 plain".into(),
    ])));
    // session expiry swept by the plugin at a later write
    out.push(("expired-swept".to_string(), s(&[
        format!("login 1 {t}"), format!("record 0 {}", t + NS),
        format!("login 1 {}", t + 86_000 * NS), format!("record 0 {}", t + 86_001 * NS),
        format!("valid 1 - - {}", t + 86_400 * NS - 7),
        format!("valid 1 - - {}", t + 86_401 * NS),
    ])));
    out
}

fn main() {
    if std::env::var_os("RUST_LOG").is_none() {
        std::env::set_var("RUST_LOG", "off");
    }
    let args = Args::parse();
    let rt = tokio::runtime::Builder::new_current_thread().enable_all().build().unwrap();
    let mut rep = Report::new(
        "tokens",
        "scripted and random histories (login, session record, revoke, credential removal/replacement, validity edits, delete, api token issue/destroy, \
         key revoke/rotate) on a fresh real IdmServer each, every issued token presented after every event (direct and pre-validated path) and at the \
         grace/expiry/window boundaries ±1 ns, plus tampered and foreign forms; non-trivial = the history saw a token accepted past its grace window \
         and at least two different rejections; distinct = distinct op list",
    );
    let mut drv = Driver::spawn(&args.driver);
    // a token of another domain (different key object): an anonymous login on a throw-away server
    let foreign = rt.block_on(async {
        let mut w = World::new(None).await;
        w.login(0, T0).await
    });
    assert!(foreign.is_some(), "foreign anonymous login failed");

    let mut histories: Vec<(String, Vec<String>)> = vec![];
    if let Some(path) = &args.replay {
        let v: Json = serde_json::from_str(&std::fs::read_to_string(path).unwrap()).unwrap();
        let ops: Vec<String> = v["input"]["ops"].as_array().expect("replay input.ops").iter().map(|x| x.as_str().unwrap().to_string()).collect();
        histories.push(("replay".into(), ops));
    } else {
        histories.extend(scripted());
        let n = args.cases(16, 170);
        for i in 0..n {
            let mut r = Rng::for_case(args.seed, i);
            let len = if args.thorough() { r.range(8, 60) } else { r.range(8, 36) } as usize;
            histories.push(("random".into(), gen_history(&mut r, len)));
        }
    }
    let mut seen: BTreeSet<(String, String)> = BTreeSet::new();
    for (kind, ops) in &histories {
        let out = rt.block_on(run_history(&mut drv, ops, foreign.clone()));
        rep.count(&format!("history:{kind}"));
        rep.count_n("presentations", out.presentations);
        rep.count_n("accepted", out.accepted);
        rep.count_n("accepted-past-grace", out.accepted_past_grace);
        for (k, v) in &out.hist {
            rep.count_n(k, *v);
        }
        let nontrivial = out.accepted_past_grace >= 1 && out.rejected_kinds.len() >= 2;
        rep.case(if nontrivial { Some(ops.join(";")) } else { None });
        if let Some(s) = out.sample {
            if rep.evaluations % 7 == 1 {
                rep.sample(s);
            }
        }
        for f in out.failures {
            // the first failure of each (kind, class) of the run is minimised and reported; repeats are counted
            let (kind_, class_) = (f.kind.clone(), f.class.clone());
            rep.count(&format!("failure:{kind_}:{class_}"));
            if !seen.insert((kind_.clone(), class_.clone())) {
                continue;
            }
            let small = if args.replay.is_some() {
                ops.clone()
            } else {
                shrink_list(ops.clone(), |cand| {
                    let o = rt.block_on(run_history(&mut drv, cand, foreign.clone()));
                    o.failures.iter().any(|g| g.kind == kind_ && g.class == class_)
                })
            };
            let o = rt.block_on(run_history(&mut drv, &small, foreign.clone()));
            match o.failures.into_iter().find(|g| g.kind == kind_ && g.class == class_) {
                Some(g) => rep.fail(g),
                None => rep.fail(f),
            }
        }
    }
    rep.model_requests = drv.requests;
    rep.write(&args.out);
    println!("c32: {} histories, {} failures", rep.evaluations, rep.failures.len());
}
