//! C33 — write privilege is bounded in time and by login type: real `IdmServer` login /
//! re-authentication / token use vs the Lean model (`km_c33`) vs an oracle written from the
//! property text.
//!
//! Streams (one binary; worker threads each with their own in-memory server + driver):
//!  * `flow`: a case = (account kind, privileged flag, resolved policy (session, privilege
//!    expiry), start instant with a sub-second part, op list). Ops: login again, re-authenticate
//!    with a held token (grant read-write / verify only), revoke a session, let time pass — to
//!    an instant chosen around a token's privilege expiry or session expiry (−1 s, −1 ns, 0,
//!    +1 ns, +1 s) or at random — and present a held token. Every token goes through the real
//!    JWS: `auth` → `AuthState::Success(token)` → `validate_client_auth_info_to_ident`.
//!    Each reply (token fields / identity scope / error) is compared with the model's
//!    (`impl-vs-model`), and the oracle checks the property on the implementation's replies
//!    alone (`impl-vs-oracle`).
//!  * `forge`: hand-made `UserAuthToken`s (every purpose shape, expiries at ns granularity, with
//!    and without a stored session, revoked sessions, grace window edges) handed directly to
//!    `process_uat_to_identity`, compared with the model's `process` (correspondence only).
//!  * `fixed`: API tokens (read_write flag × compact), client-certificate identity and token,
//!    LDAP bind identity — constant scopes.
use hlib::*;
use kanidm_proto::internal::{UatPurpose, UserAuthToken};
use kanidm_proto::v1::{AuthAllowed, AuthIssueSession, AuthMech};
use kanidmd_lib::credential::totp::{Totp, TotpAlgo, TotpDigits};
use kanidmd_lib::credential::Credential;
use kanidmd_lib::entry::{Entry, EntryInit, EntryNew};
use kanidmd_lib::idm::account::DestroySessionTokenEvent;
use kanidmd_lib::idm::authentication::{AuthCredential, AuthState, ReauthRequest};
use kanidmd_lib::idm::delayed::DelayedAction;
use kanidmd_lib::idm::event::{
    AuthEvent, AuthEventStep, AuthEventStepCred, AuthEventStepInit, AuthEventStepMech, AuthResult,
};
use kanidmd_lib::idm::ldap::LdapSession;
use kanidmd_lib::idm::server::{IdmServerDelayed, IdmServerTransaction};
use kanidmd_lib::idm::serviceaccount::GenerateApiTokenEvent;
use kanidmd_lib::prelude::*;
use kanidmd_lib::testkit::{setup_idm_test, TestConfiguration};
use kanidmd_lib::valueset::ValueSetT;
use kanidmd_lib::verif_hooks::c12 as hook12;
use kanidmd_lib::verif_hooks::c23 as hook23;
use kanidmd_lib::verif_hooks::c27 as hook27;
use serde_json::{json, Value as Json};
use std::time::Duration;

const PW_OK: &str = "eicieY7ahchaoCh0eeTa-c33";
const T0: u64 = 2_000_000_000;
const NS: u128 = 1_000_000_000;
/// Every case gets its own slice of the clock (seconds): corpus 1.., fixed 50, forge 60, generated 100+i.
const SLOT_S: u128 = 1_000_000;
/// The hour the property's "bounded" means on this tree (oracle constant, from the statement's
/// reading in DESIGN §7: privilege windows never exceed one hour).
const ORACLE_MAX_WINDOW_S: u128 = 3600;

const TEST_CERT: &str = r#"-----BEGIN CERTIFICATE-----
MIICeDCCAh6gAwIBAgIBAjAKBggqhkjOPQQDAjCBhDELMAkGA1UEBhMCQVUxDDAK
BgNVBAgMA1FMRDEPMA0GA1UECgwGS2FuaWRtMRwwGgYDVQQDDBNLYW5pZG0gR2Vu
ZXJhdGVkIENBMTgwNgYDVQQLDC9EZXZlbG9wbWVudCBhbmQgRXZhbHVhdGlvbiAt
IE5PVCBGT1IgUFJPRFVDVElPTjAeFw0yNTA3MjkwMzMxMDNaFw0yNTA4MDMwMzMx
MDNaMHoxCzAJBgNVBAYTAkFVMQwwCgYDVQQIDANRTEQxDzANBgNVBAoMBkthbmlk
bTESMBAGA1UEAwwJbG9jYWxob3N0MTgwNgYDVQQLDC9EZXZlbG9wbWVudCBhbmQg
RXZhbHVhdGlvbiAtIE5PVCBGT1IgUFJPRFVDVElPTjBZMBMGByqGSM49AgEGCCqG
SM49AwEHA0IABPFkpVzFH+feItm9JFFm/noge+BlZLpdGWOuSUvfoivAzCgPr7Kr
nGd8kUzIyJermePzu2SVQLaEt/7GY8Ha+2ujgYkwgYYwCQYDVR0TBAIwADAOBgNV
HQ8BAf8EBAMCBaAwEwYDVR0lBAwwCgYIKwYBBQUHAwEwHQYDVR0OBBYEFOjucEtX
mj/wQ7npVaMOyDtLU6dUMB8GA1UdIwQYMBaAFNo5o+5ea0sNMlW/75VgGJCv2AcJ
MBQGA1UdEQQNMAuCCWxvY2FsaG9zdDAKBggqhkjOPQQDAgNIADBFAiEA1TACf4eS
g07LRiKhlMgA+6xxztxiZCuV6LakRp7FZdECIFp0rFSiFJdkLEO9IyqYc+zPW770
ta41VMU3u9UQfHxF
-----END CERTIFICATE-----
"#;

/// Account kinds = the login types the harness can perform end to end.
#[derive(Clone, Copy, Debug, PartialEq, Eq, PartialOrd, Ord)]
enum Kind {
    Anon,
    Pw,
    Gpw,
    Totp,
    Bc,
}

const KINDS: [Kind; 5] = [Kind::Anon, Kind::Pw, Kind::Gpw, Kind::Totp, Kind::Bc];

impl Kind {
    fn name(self) -> &'static str {
        match self {
            Kind::Anon => "anon",
            Kind::Pw => "pw",
            Kind::Gpw => "gpw",
            Kind::Totp => "totp",
            Kind::Bc => "bc",
        }
    }
    fn parse(s: &str) -> Kind {
        *KINDS.iter().find(|k| k.name() == s).unwrap_or_else(|| panic!("bad kind {s}"))
    }
    /// The auth type a login of this kind ends with (by construction of the account).
    fn auth_type(self) -> &'static str {
        match self {
            Kind::Anon => "anonymous",
            Kind::Pw => "password",
            Kind::Gpw => "generatedpassword",
            Kind::Totp => "passwordtotp",
            Kind::Bc => "passwordbackupcode",
        }
    }
    /// Property text: "Anonymous, OAuth2-trust, … sessions … are always read-only".
    fn listed_readonly(self) -> bool {
        self == Kind::Anon
    }
    /// Property text: "an ordinary (non-privileged) login": every interactive credential; the
    /// generated password of a service/break-glass account is privileged by itself.
    fn always_privileged(self) -> bool {
        self == Kind::Gpw
    }
}

#[derive(Clone, Debug, PartialEq)]
enum OpK {
    /// log in again on the same account (privileged?, session record lost before it is written?)
    Login(bool, bool),
    /// re-authenticate with token #i; true = GrantReadWrite
    Reauth(usize, bool),
    /// revoke the session of token #i
    Revoke(usize),
    /// let `dt` ns pass
    Advance(u128),
    /// present token #i
    Use(usize),
}

impl OpK {
    fn to_json(&self) -> Json {
        match self {
            OpK::Login(p, lost) => json!(["login", p, lost]),
            OpK::Reauth(i, rw) => json!(["reauth", i, rw]),
            OpK::Revoke(i) => json!(["revoke", i]),
            OpK::Advance(dt) => json!(["advance", dt.to_string()]),
            OpK::Use(i) => json!(["use", i]),
        }
    }
    fn from_json(v: &Json) -> OpK {
        let a = v.as_array().expect("op");
        match a[0].as_str().unwrap() {
            "login" => OpK::Login(a[1].as_bool().unwrap(), a.get(2).and_then(|x| x.as_bool()).unwrap_or(false)),
            "reauth" => OpK::Reauth(a[1].as_u64().unwrap() as usize, a[2].as_bool().unwrap()),
            "revoke" => OpK::Revoke(a[1].as_u64().unwrap() as usize),
            "advance" => OpK::Advance(a[1].as_str().unwrap().parse().unwrap()),
            "use" => OpK::Use(a[1].as_u64().unwrap() as usize),
            o => panic!("bad op {o}"),
        }
    }
    fn shape(&self) -> String {
        match self {
            OpK::Login(p, lost) => format!("L{}{}", *p as u8, if *lost { "x" } else { "" }),
            OpK::Reauth(i, rw) => format!("R{i}{}", if *rw { "w" } else { "v" }),
            OpK::Revoke(i) => format!("X{i}"),
            OpK::Advance(dt) => format!("A{dt}"),
            OpK::Use(i) => format!("U{i}"),
        }
    }
}

#[derive(Clone, Debug)]
struct Case {
    kind: Kind,
    privileged: bool,
    /// the first login's session record is lost
    lost: bool,
    /// configured on the two builtin policy groups (seconds)
    sess: u32,
    priv_: u32,
    /// start instant (ns since epoch)
    start: u128,
    ops: Vec<OpK>,
}

impl Case {
    fn to_json(&self) -> Json {
        json!({
            "stream": "flow", "kind": self.kind.name(), "privileged": self.privileged, "lost": self.lost,
            "sess": self.sess, "priv": self.priv_, "start": self.start.to_string(),
            "ops": self.ops.iter().map(|o| o.to_json()).collect::<Vec<_>>(),
        })
    }
    fn from_json(v: &Json) -> Case {
        Case {
            kind: Kind::parse(v["kind"].as_str().unwrap()),
            privileged: v["privileged"].as_bool().unwrap(),
            lost: v["lost"].as_bool().unwrap_or(false),
            sess: v["sess"].as_u64().unwrap() as u32,
            priv_: v["priv"].as_u64().unwrap() as u32,
            start: v["start"].as_str().unwrap().parse().unwrap(),
            ops: v["ops"].as_array().unwrap().iter().map(OpK::from_json).collect(),
        }
    }
}

/// A token the client holds, with what the harness knows about it by construction.
#[derive(Clone)]
struct Held {
    jws: compact_jwt::JwsCompact,
    uat: UserAuthToken,
    /// index of the login that opened the session
    login: usize,
}

/// What the oracle knows about the history (from the ops the harness performed, never from
/// the model).
#[derive(Clone, Debug)]
struct Ev {
    at: u128,
    login: usize,
    /// None = initial login (with its privileged flag); Some(rw) = re-authentication
    reauth: Option<bool>,
    privileged: bool,
    sess_s: u128,
    priv_s: u128,
}

fn dur(ns: u128) -> Duration {
    Duration::new((ns / NS) as u64, (ns % NS) as u32)
}

fn odt_ns(t: time::OffsetDateTime) -> u128 {
    t.unix_timestamp_nanos() as u128
}

fn show_purpose(p: &UatPurpose) -> String {
    match p {
        UatPurpose::ReadOnly => "ro".into(),
        UatPurpose::ReadWrite { expiry: None } => "rwnone".into(),
        UatPurpose::ReadWrite { expiry: Some(e) } => format!("rw:{}", odt_ns(*e)),
    }
}

fn show_scope(s: AccessScope) -> &'static str {
    match s {
        AccessScope::ReadOnly => "scope ro",
        AccessScope::ReadWrite => "scope rw",
        AccessScope::Synchronise => "scope sync",
    }
}

fn show_err(e: &OperationError) -> String {
    match e {
        OperationError::SessionExpired => "err sessionexpired".into(),
        OperationError::InvalidState => "err invalidstate".into(),
        OperationError::SessionMayNotReauth => "err sessionmaynotreauth".into(),
        OperationError::AU0004UserAuthTokenInvalid => "err au0004".into(),
        OperationError::AU0006CredentialMayNotReauthenticate => "err au0006".into(),
        OperationError::AU0007UserAuthTokenInvalid => "err au0007".into(),
        o => format!("err ?{o:?}"),
    }
}

struct Worker {
    idms: IdmServer,
    delayed: IdmServerDelayed,
    _audit: IdmServerAudit,
    drv: Driver,
    rep: Report,
    totp: Totp,
    next_acct: u64,
    cur_policy: (u32, u32),
    shrinks_left: u32,
    /// one reusable account per kind: a case starts ~12 days after the previous one of this
    /// worker, so every older session of the account has expired (and is pruned by the server at
    /// the next write); session ids are fresh, nothing of an older case can be named by a newer one
    pool: Vec<Acct>,
}

#[derive(Clone)]
struct Acct {
    name: String,
    uuid: Uuid,
    kind: Kind,
    bc_next: usize,
}

const BC_CODES: [&str; 6] = ["c33-bc-0", "c33-bc-1", "c33-bc-2", "c33-bc-3", "c33-bc-4", "c33-bc-5"];

impl Worker {
    async fn new(driver: &str) -> Worker {
        let (idms, delayed, audit) = setup_idm_test(TestConfiguration::default()).await;
        Worker {
            idms,
            delayed,
            _audit: audit,
            drv: Driver::spawn(driver),
            rep: Report::new("privilege", ""),
            totp: Totp::new(vec![9u8; 32], 30, TotpAlgo::Sha256, TotpDigits::Six),
            next_acct: 1,
            cur_policy: (0, 0),
            shrinks_left: 3,
            pool: vec![],
        }
    }

    /// Primary credential of an account kind. The password hash uses the library's test-minimum
    /// argon2id parameters (the default ones cost ~30 ms per verification and dominate the run);
    /// such a hash does not ask for an upgrade, so no rehash is queued at login.
    fn credential(&self, kind: Kind) -> Option<Credential> {
        let pw = |generated: bool| {
            let p = kanidm_lib_crypto::Password::new_argon2id(&kanidm_lib_crypto::CryptoPolicy::danger_test_minimum(), PW_OK)
                .expect("password hash");
            hook12::cred_from_password(p, generated, time::OffsetDateTime::UNIX_EPOCH)
        };
        match kind {
            Kind::Anon => None,
            Kind::Pw => Some(pw(false)),
            Kind::Gpw => Some(pw(true)),
            Kind::Totp => Some(hook27::cred_append_totp(&pw(false), "totp", self.totp.clone())),
            Kind::Bc => {
                let c = hook27::cred_append_totp(&pw(false), "totp", self.totp.clone());
                Some(hook27::cred_set_backup_codes(&c, &BC_CODES).unwrap())
            }
        }
    }

    /// Configure the two builtin policy groups every person is a member of.
    async fn set_policy(&mut self, sess: u32, priv_: u32, ct: Duration) {
        if self.cur_policy == (sess, priv_) {
            return;
        }
        let mut w = self.idms.proxy_write(ct).await.unwrap();
        for g in [UUID_IDM_ALL_PERSONS, UUID_IDM_ALL_ACCOUNTS] {
            let ml = ModifyList::new_list(vec![
                Modify::Purged(Attribute::AuthSessionExpiry),
                Modify::Present(Attribute::AuthSessionExpiry, Value::Uint32(sess)),
                Modify::Purged(Attribute::PrivilegeExpiry),
                Modify::Present(Attribute::PrivilegeExpiry, Value::Uint32(priv_)),
            ]);
            w.qs_write.internal_modify_uuid(g, &ml).expect("set policy");
        }
        w.commit().expect("commit policy");
        self.cur_policy = (sess, priv_);
    }

    /// An account of the kind: the pooled one, unless it is running out of backup codes.
    async fn account(&mut self, kind: Kind, ct: Duration) -> Acct {
        if let Some(k) = self.pool.iter().position(|a| a.kind == kind) {
            if self.pool[k].bc_next + 3 <= BC_CODES.len() {
                return self.pool.remove(k);
            }
            self.pool.remove(k);
        }
        self.new_account(kind, ct).await
    }

    fn release(&mut self, acct: Acct) {
        self.pool.retain(|a| a.kind != acct.kind);
        self.pool.push(acct);
    }

    async fn new_account(&mut self, kind: Kind, ct: Duration) -> Acct {
        if kind == Kind::Anon {
            return Acct { name: "anonymous".into(), uuid: UUID_ANONYMOUS, kind, bc_next: 0 };
        }
        let n = self.next_acct;
        self.next_acct += 1;
        let name = format!("c33{}{}", kind.name(), n);
        let uuid = nat_uuid(0xC33_0000 + n);
        let mut e: Entry<EntryInit, EntryNew> = Entry::new();
        e.add_ava(Attribute::Class, EntryClass::Object.to_value());
        e.add_ava(Attribute::Class, EntryClass::Account.to_value());
        e.add_ava(Attribute::Class, EntryClass::Person.to_value());
        e.add_ava(Attribute::Name, Value::new_iname(&name));
        e.add_ava(Attribute::Uuid, Value::Uuid(uuid));
        e.add_ava(Attribute::Description, Value::new_utf8s(&name));
        e.add_ava(Attribute::DisplayName, Value::new_utf8s(&name));
        if let Some(cred) = self.credential(kind) {
            e.add_ava(Attribute::PrimaryCredential, Value::new_credential("primary", cred));
        }
        let mut w = self.idms.proxy_write(ct).await.unwrap();
        w.qs_write.internal_create(vec![e]).expect("create account");
        w.commit().expect("commit account");
        Acct { name, uuid, kind, bc_next: 0 }
    }

    /// Apply every queued delayed action (session records, backup code removal, …); with
    /// `lose_sessions` the `AuthSessionRecord`s are dropped instead (the asynchronous write never
    /// happens).
    async fn drain(&mut self, ct: Duration, lose_sessions: bool) -> Vec<String> {
        let mut types = vec![];
        loop {
            let mut buf: Vec<DelayedAction> = Vec::with_capacity(8);
            let n = tokio::select! {
                biased;
                n = self.delayed.recv_many(&mut buf) => n,
                _ = std::future::ready(()) => 0,
            };
            if n == 0 {
                break;
            }
            let mut w = self.idms.proxy_write(ct).await.unwrap();
            for da in buf {
                if let DelayedAction::AuthSessionRecord(asr) = &da {
                    types.push(format!("{:?}", asr.type_).to_lowercase());
                    if lose_sessions {
                        continue;
                    }
                }
                w.process_delayedaction(&da, ct).expect("delayed action");
            }
            w.commit().expect("commit delayed");
        }
        types
    }

    fn cai() -> ClientAuthInfo {
        ClientAuthInfo::new(Source::Internal, None, None, None)
    }

    /// Answer the credential prompts of an auth/re-auth session until it ends.
    async fn finish(
        totp: &Totp,
        a: &mut kanidmd_lib::idm::server::IdmServerAuthTransaction<'_>,
        sid: Uuid,
        mut state: AuthState,
        acct: &mut Acct,
        use_bc: bool,
        ct: Duration,
    ) -> Result<compact_jwt::JwsCompact, String> {
        for _ in 0..4 {
            let cred = match state {
                AuthState::Success(tok, _) => return Ok(*tok),
                AuthState::Denied(m) => return Err(format!("denied {m}")),
                AuthState::Continue(ref allowed) => match allowed.last() {
                    Some(AuthAllowed::Anonymous) => AuthCredential::Anonymous,
                    Some(AuthAllowed::Password) => AuthCredential::Password(PW_OK.into()),
                    Some(AuthAllowed::Totp) => {
                        AuthCredential::Totp(totp.do_totp_duration_from_epoch(&ct).unwrap())
                    }
                    Some(AuthAllowed::BackupCode) if use_bc => {
                        let c = BC_CODES[acct.bc_next];
                        acct.bc_next += 1;
                        AuthCredential::BackupCode(c.into())
                    }
                    other => return Err(format!("unexpected prompt {other:?}")),
                },
                other => return Err(format!("unexpected state {other:?}")),
            };
            let ev = AuthEvent { ident: None, step: AuthEventStep::Cred(AuthEventStepCred { sessionid: sid, cred }) };
            match a.auth(&ev, ct, Self::cai()).await {
                Ok(AuthResult { state: s, .. }) => state = s,
                Err(e) => return Err(show_err(&e)),
            }
        }
        Err("auth session did not end".into())
    }

    /// A complete login through `IdmServer::auth`.
    async fn login(&mut self, acct: &mut Acct, privileged: bool, ct: Duration) -> Result<compact_jwt::JwsCompact, String> {
        if acct.kind == Kind::Bc && acct.bc_next >= BC_CODES.len() {
            return Err("out of backup codes".into());
        }
        let mut a = self.idms.auth().await.unwrap();
        a.expire_auth_sessions(ct).await;
        let init = AuthEvent {
            ident: None,
            step: AuthEventStep::Init(AuthEventStepInit {
                username: acct.name.clone(),
                issue: AuthIssueSession::Token,
                privileged,
            }),
        };
        let sid = match a.auth(&init, ct, Self::cai()).await {
            Ok(r) => r.sessionid,
            Err(e) => return Err(show_err(&e)),
        };
        let mech = match acct.kind {
            Kind::Anon => AuthMech::Anonymous,
            Kind::Pw | Kind::Gpw => AuthMech::Password,
            Kind::Totp => AuthMech::PasswordTotp,
            Kind::Bc => AuthMech::PasswordBackupCode,
        };
        let begin = AuthEvent { ident: None, step: AuthEventStep::Begin(AuthEventStepMech { sessionid: sid, mech }) };
        let state = match a.auth(&begin, ct, Self::cai()).await {
            Ok(r) => r.state,
            Err(e) => return Err(show_err(&e)),
        };
        let use_bc = acct.kind == Kind::Bc;
        let r = Self::finish(&self.totp, &mut a, sid, state, acct, use_bc, ct).await;
        a.commit().expect("auth commit");
        r
    }

    /// The UAT inside a token (the server verifies its own signature).
    async fn parse(&mut self, jws: &compact_jwt::JwsCompact, ct: Duration) -> Result<UserAuthToken, OperationError> {
        let mut r = self.idms.proxy_read().await.unwrap();
        r.validate_client_auth_info_to_uat(&ClientAuthInfo::new(Source::Internal, None, Some(jws.clone()), None), ct)
    }

    async fn ident(&mut self, jws: &compact_jwt::JwsCompact, ct: Duration) -> Result<Identity, OperationError> {
        let mut r = self.idms.proxy_read().await.unwrap();
        r.validate_client_auth_info_to_ident(ClientAuthInfo::new(Source::Internal, None, Some(jws.clone()), None), ct)
    }

    /// `reauth_init` + credential exchange. Ok(token) | Err(reply string).
    async fn reauth(&mut self, acct: &mut Acct, jws: &compact_jwt::JwsCompact, rw: bool, ct: Duration) -> Result<compact_jwt::JwsCompact, String> {
        let ident = match self.ident(jws, ct).await {
            Ok(i) => i,
            Err(e) => return Err(show_err(&e)),
        };
        let mut a = self.idms.auth().await.unwrap();
        let req = if rw { ReauthRequest::GrantReadWrite } else { ReauthRequest::VerifyCredentials };
        let r = a.reauth_init(ident, AuthIssueSession::Token, ct, Self::cai(), req).await;
        let out = match r {
            Err(e) => Err(show_err(&e)),
            Ok(AuthResult { sessionid, state }) => Self::finish(&self.totp, &mut a, sessionid, state, acct, false, ct).await,
        };
        a.commit().expect("reauth commit");
        out
    }

    async fn revoke(&mut self, acct: &Acct, session_id: Uuid, ct: Duration) {
        let mut w = self.idms.proxy_write(ct).await.unwrap();
        let dte = DestroySessionTokenEvent {
            ident: hook23::ident_internal(0).expect("internal identity"),
            target: acct.uuid,
            token_id: session_id,
        };
        // an anonymous "session" is not stored: nothing to revoke (model: no-op as well)
        let _ = w.account_destroy_session_token(&dte);
        w.commit().expect("commit revoke");
    }

    fn token_line(h: &Held) -> String {
        format!(
            "token {} {} {} {}",
            h.login,
            odt_ns(h.uat.issued_at),
            h.uat.expiry.map(|e| odt_ns(e).to_string()).unwrap_or("-".into()),
            show_purpose(&h.uat.purpose)
        )
    }

    /// Run one flow case on the implementation and the model; compare; apply the oracle.
    /// Returns (failure description, kind) of the first failure, if any.
    async fn run_case(&mut self, c: &Case) -> Option<(String, String, String, String)> {
        let mut now = c.start;
        self.set_policy(c.sess, c.priv_, dur(now)).await;
        // resolved policy as the property's bound reads it: the strictest of the configured value
        // and the one-hour ceiling for privilege (C35 proves the fold; the oracle below does not
        // rely on it: it uses the configured values and the one-hour bound from the statement)
        let res_sess = c.sess as u128;
        let res_priv = (c.priv_ as u128).min(3600);
        let mut acct = self.account(c.kind, dur(now)).await;
        let anon = (c.kind == Kind::Anon) as u8;
        let mut held: Vec<Held> = vec![];
        let mut logins: Vec<(Uuid, bool)> = vec![]; // (session uuid, privileged)
        let mut evs: Vec<Ev> = vec![];
        let mut lines: Vec<String> = vec![format!("reset {now}")];
        let mut imp: Vec<String> = vec!["ok".into()];
        let mut oracle_fail: Option<(String, String)> = None;
        let mut used_ok = false;
        let mut saw_rw = false;

        let mut ops: Vec<OpK> = vec![OpK::Login(c.privileged, c.lost)];
        ops.extend(c.ops.iter().cloned());
        for op in &ops {
            match op {
                OpK::Login(p, lost) => {
                    lines.push(format!("auth {} {} {anon} {} {res_sess} {res_priv}", c.kind.auth_type(), *p as u8, !*lost as u8));
                    if *lost {
                        self.rep.count("login:session-record-lost");
                    }
                    match self.login(&mut acct, *p, dur(now)).await {
                        Ok(jws) => {
                            let rec = self.drain(dur(now), *lost).await;
                            if c.kind != Kind::Anon && rec != vec![c.kind.auth_type().to_string()] {
                                imp.push(format!("err ?session-record-types {rec:?}"));
                                continue;
                            }
                            match self.parse(&jws, dur(now)).await {
                                Ok(uat) => {
                                    let login = logins.len();
                                    logins.push((uat.session_id, *p));
                                    evs.push(Ev { at: now, login, reauth: None, privileged: *p, sess_s: c.sess as u128, priv_s: c.priv_ as u128 });
                                    let h = Held { jws, uat, login };
                                    imp.push(Self::token_line(&h));
                                    held.push(h);
                                }
                                Err(e) => imp.push(format!("err ?parse {e:?}")),
                            }
                        }
                        Err(e) => imp.push(format!("err ?login {e}")),
                    }
                }
                OpK::Reauth(i, rw) => {
                    let Some(h) = held.get(*i).cloned() else {
                        continue;
                    };
                    let r = self.reauth(&mut acct, &h.jws, *rw, dur(now)).await;
                    self.drain(dur(now), false).await;
                    // the credential the re-auth exchange ends with, by construction
                    let t = match c.kind {
                        Kind::Totp => "passwordtotp",
                        Kind::Gpw => "generatedpassword",
                        _ => "password",
                    };
                    if let Err(e) = &r {
                        if e == "denied invalid credential message" && c.kind == Kind::Bc {
                            // new_reauth: a backup-code session falls back to a password-only
                            // handler, which a password+TOTP credential cannot build: the exchange
                            // never starts. Not an op of the model (its `reauth` = an exchange that
                            // succeeded); the session/scope gates before it were passed.
                            self.rep.count("reauth:backup-code-session-has-no-handler");
                            continue;
                        }
                    }
                    lines.push(format!("reauth {i} {} {t} {res_sess} {res_priv}", if *rw { "rw" } else { "verify" }));
                    match r {
                        Ok(jws) => match self.parse(&jws, dur(now)).await {
                            Ok(uat) => {
                                // oracle: re-authentication never extends the session expiry,
                                // and stays on the same session
                                if uat.expiry != h.uat.expiry {
                                    oracle_fail.get_or_insert((
                                        "reauth-changed-session-expiry".into(),
                                        format!("re-issued token expiry {:?} differs from the session's {:?}", uat.expiry, h.uat.expiry),
                                    ));
                                }
                                if uat.session_id != h.uat.session_id {
                                    oracle_fail.get_or_insert(("reauth-changed-session".into(), "re-issued token has another session id".into()));
                                }
                                // oracle: only an ordinary login's session may re-authenticate
                                let (_, lp) = logins[h.login];
                                if c.kind.listed_readonly() || c.kind.always_privileged() || lp {
                                    oracle_fail.get_or_insert((
                                        "reauth-on-non-privilege-capable-session".into(),
                                        format!("re-authentication succeeded on a {} session (privileged={lp})", c.kind.name()),
                                    ));
                                }
                                evs.push(Ev { at: now, login: h.login, reauth: Some(*rw), privileged: false, sess_s: c.sess as u128, priv_s: c.priv_ as u128 });
                                let nh = Held { jws, uat, login: h.login };
                                imp.push(Self::token_line(&nh));
                                held.push(nh);
                                self.rep.count("reauth:ok");
                            }
                            Err(e) => imp.push(format!("err ?parse {e:?}")),
                        },
                        Err(e) => {
                            self.rep.count(&format!("reauth:{e}"));
                            imp.push(e);
                        }
                    }
                }
                OpK::Revoke(i) => {
                    let Some(h) = held.get(*i).cloned() else {
                        continue;
                    };
                    lines.push(format!("revoke {}", h.login));
                    self.revoke(&acct, h.uat.session_id, dur(now)).await;
                    imp.push("ok".into());
                }
                OpK::Advance(dt) => {
                    now += dt;
                    lines.push(format!("advance {dt}"));
                    imp.push("ok".into());
                }
                OpK::Use(i) => {
                    let Some(h) = held.get(*i).cloned() else {
                        continue;
                    };
                    lines.push(format!("use {i}"));
                    match self.ident(&h.jws, dur(now)).await {
                        Ok(ident) => {
                            used_ok = true;
                            let scope = ident.access_scope();
                            imp.push(show_scope(scope).into());
                            self.rep.count(&format!("use:{}", show_scope(scope)));
                            // ---- oracle (property text; implementation's observations only) ----
                            if let Some(exp) = h.uat.expiry {
                                if now > odt_ns(exp) {
                                    oracle_fail.get_or_insert(("token-accepted-after-session-expiry".into(), format!("accepted at {now} > expiry {}", odt_ns(exp))));
                                }
                            }
                            match scope {
                                AccessScope::Synchronise => {
                                    oracle_fail.get_or_insert(("uat-synchronise-scope".into(), "a user token mapped to Synchronise".into()));
                                }
                                AccessScope::ReadOnly => {}
                                AccessScope::ReadWrite => {
                                    saw_rw = true;
                                    if c.kind.listed_readonly() {
                                        oracle_fail.get_or_insert(("listed-type-read-write".into(), format!("{} session read-write", c.kind.name())));
                                    }
                                    // ∃ login/re-auth of this session that grants privilege with
                                    // t0 ≤ now < t0 + window, window ≤ configured bound ≤ 1 h
                                    let ok = evs.iter().any(|e| {
                                        if e.login != h.login || e.at > now {
                                            return false;
                                        }
                                        let w = match e.reauth {
                                            None => {
                                                if !(e.privileged || c.kind.always_privileged()) {
                                                    return false;
                                                }
                                                e.sess_s.min(ORACLE_MAX_WINDOW_S)
                                            }
                                            Some(rw) => {
                                                if !rw {
                                                    return false;
                                                }
                                                e.priv_s.min(ORACLE_MAX_WINDOW_S)
                                            }
                                        };
                                        now < e.at + w * NS
                                    });
                                    if !ok {
                                        oracle_fail.get_or_insert((
                                            "read-write-outside-privilege-window".into(),
                                            format!("token #{i} read-write at {now}; events {evs:?}"),
                                        ));
                                    }
                                }
                            }
                        }
                        Err(e) => {
                            let s = show_err(&e);
                            self.rep.count(&format!("use:{s}"));
                            imp.push(s);
                        }
                    }
                }
            }
        }
        self.release(acct);
        let model = self.drv.ask_batch(&lines);
        // ---- verdict ----
        let key = format!(
            "{}|{}|{}|{}|{}|{}",
            c.kind.name(), c.privileged as u8, c.sess, c.priv_, c.start % NS,
            c.ops.iter().map(|o| o.shape()).collect::<Vec<_>>().join(",")
        );
        let nontrivial = used_ok && !held.is_empty();
        self.rep.case(if nontrivial { Some(key) } else { None });
        self.rep.count(&format!("kind:{}", c.kind.name()));
        if saw_rw {
            self.rep.count("case:saw-read-write");
        }
        if held.len() > logins.len() {
            self.rep.count("case:with-reissued-token");
        }
        self.rep.sample(json!({"case": c.to_json(), "impl": imp, "model": model}));
        if let Some((class, why)) = oracle_fail {
            return Some(("impl-vs-oracle".into(), class, "the property statement".into(), why));
        }
        if imp != model {
            let k = imp.iter().zip(model.iter()).position(|(a, b)| a != b).unwrap_or(imp.len().min(model.len()));
            return Some((
                "impl-vs-model".into(),
                "model-mismatch".into(),
                format!("model: {:?} (request `{}`)", model.get(k), lines.get(k).cloned().unwrap_or_default()),
                format!("impl: {:?}", imp.get(k)),
            ));
        }
        None
    }

    async fn check_case(&mut self, c: &Case, shrink: bool) {
        if let Some((kind, class, expected, observed)) = self.run_case(c).await {
            let mut min = c.clone();
            if shrink && self.shrinks_left > 0 {
                self.shrinks_left -= 1;
                // greedy: drop ops one at a time while some failure of the same kind remains
                let mut i = 0;
                while i < min.ops.len() {
                    let mut cand = min.clone();
                    cand.ops.remove(i);
                    // indices of later tokens may shift; only accept when still failing
                    match self.run_case(&cand).await {
                        Some((k2, _, _, _)) if k2 == kind => min = cand,
                        _ => i += 1,
                    }
                }
            }
            self.rep.fail(Failure { kind, class, input: min.to_json(), expected, observed });
        }
    }

    // -----------------------------------------------------------------------------------------
    // forge stream: arbitrary UATs into process_uat_to_identity
    // -----------------------------------------------------------------------------------------
    async fn run_forge(&mut self, seed: u64, n: u64) {
        let base = (T0 as u128 + 60 * SLOT_S) * NS;
        self.set_policy(86400, 600, dur(base)).await;
        let mut acct = self.account(Kind::Pw, dur(base)).await;
        // two real sessions: one live, one revoked
        let live = self.login(&mut acct, false, dur(base)).await.expect("forge login");
        self.drain(dur(base), false).await;
        let live = self.parse(&live, dur(base)).await.expect("parse");
        let dead = self.login(&mut acct, false, dur(base)).await.expect("forge login 2");
        self.drain(dur(base), false).await;
        let dead = self.parse(&dead, dur(base)).await.expect("parse");
        self.revoke(&acct, dead.session_id, dur(base)).await;
        let anon_tok = {
            let mut an = self.account(Kind::Anon, dur(base)).await;
            let j = self.login(&mut an, false, dur(base)).await.expect("anon login");
            self.parse(&j, dur(base)).await.expect("parse")
        };
        let sess_exp = odt_ns(live.expiry.unwrap());
        // model world: same three logins
        let mut lines = vec![
            format!("reset {base}"),
            "auth password 0 0 1 86400 600".to_string(),
            "auth password 0 0 1 86400 600".to_string(),
            "revoke 1".to_string(),
            "auth anonymous 0 1 1 86400 600".to_string(),
        ];
        let mut imp: Vec<String> = vec![];
        let mut inputs: Vec<Json> = vec![];
        let n_setup = lines.len();
        let mut ntok = 3usize;
        for i in 0..n {
            let mut rng = Rng::for_case(seed ^ 0xF0_0033, i);
            // which session the forged token names
            let (sid_idx, template, stored_exp): (u64, &UserAuthToken, Option<u128>) = match rng.below(10) {
                0..=4 => (0, &live, Some(sess_exp)),
                5..=6 => (1, &dead, Some(odt_ns(dead.expiry.unwrap()))),
                7 => (2, &anon_tok, None),
                _ => (7, &live, None), // a session id the account does not have
            };
            let ct = base + rng.below(7200) as u128 * NS + *rng.pick(&[0u128, 1, 999_999_999, 500_000_000]);
            // purpose
            let deltas: [i128; 9] = [-(NS as i128), -1, 0, 1, NS as i128, -3600 * NS as i128, 3600 * NS as i128, 86400 * NS as i128, -5];
            let purpose = match rng.below(5) {
                0 => UatPurpose::ReadOnly,
                1 => UatPurpose::ReadWrite { expiry: None },
                _ => {
                    let e = (ct as i128 + *rng.pick(&deltas)) as u128;
                    UatPurpose::ReadWrite { expiry: Some(time::OffsetDateTime::UNIX_EPOCH + dur(e)) }
                }
            };
            // token expiry: the stored one, a different one, or none
            let expiry: Option<u128> = match (stored_exp, rng.below(6)) {
                (Some(e), 0..=3) => Some(e),
                (Some(e), 4) => Some(e + NS),
                (None, 0..=3) => Some(ct + 1000 * NS),
                _ => None,
            };
            // issued_at: around the grace window edge relative to ct for unknown sessions
            let grace = 300u128 * NS;
            let issued_at: u128 = match rng.below(6) {
                0 => ct - grace,
                1 => ct - grace + 1,
                2 => ct - grace - 1,
                3 => ct - 10 * NS,
                4 => ct.saturating_sub(grace + 3 * NS),
                _ => base,
            };
            let mut uat = template.clone();
            uat.session_id = if sid_idx == 7 { nat_uuid(0xC33_F000 + i) } else { template.session_id };
            uat.purpose = purpose;
            uat.expiry = expiry.map(|e| time::OffsetDateTime::UNIX_EPOCH + dur(e));
            uat.issued_at = time::OffsetDateTime::UNIX_EPOCH + dur(issued_at);
            let is_anon = sid_idx == 2;
            lines.push(format!(
                "forge {sid_idx} {issued_at} {} {} {}",
                expiry.map(|e| e.to_string()).unwrap_or("-".into()),
                show_purpose(&uat.purpose),
                is_anon as u8
            ));
            lines.push(format!("process {ntok} {ct}"));
            ntok += 1;
            let r = {
                let mut rd = self.idms.proxy_read().await.unwrap();
                rd.process_uat_to_identity(&uat, dur(ct), Source::Internal)
            };
            let reply = match r {
                Ok(id) => show_scope(id.access_scope()).to_string(),
                Err(e) => show_err(&e),
            };
            self.rep.count(&format!("forge:{reply}"));
            imp.push(reply);
            inputs.push(json!({"stream": "forge", "seed": seed.to_string(), "index": i}));
        }
        let model = self.drv.ask_batch(&lines);
        for (k, reply) in imp.iter().enumerate() {
            let m = &model[n_setup + 2 * k + 1];
            let nontrivial = reply.starts_with("scope");
            self.rep.case(if nontrivial { Some(format!("forge|{}", lines[n_setup + 2 * k])) } else { None });
            if m != reply {
                self.rep.fail(Failure {
                    kind: "impl-vs-model".into(),
                    class: "model-mismatch-forge".into(),
                    input: json!({"stream": "forge", "seed": seed.to_string(), "index": k, "forge": lines[n_setup + 2 * k], "process": lines[n_setup + 2 * k + 1]}),
                    expected: format!("model: {m}"),
                    observed: format!("impl: {reply}"),
                });
            }
        }
    }

    // -----------------------------------------------------------------------------------------
    // fixed stream: API tokens, certificate, LDAP
    // -----------------------------------------------------------------------------------------
    async fn run_fixed(&mut self) {
        let ct_ns = (T0 as u128 + 50 * SLOT_S) * NS;
        let ct = dur(ct_ns);
        // service account
        let sa_uuid = nat_uuid(0xC33_A000);
        let person_uuid = nat_uuid(0xC33_A001);
        let cert_uuid = nat_uuid(0xC33_A002);
        {
            let mut sa: Entry<EntryInit, EntryNew> = Entry::new();
            sa.add_ava(Attribute::Class, EntryClass::Object.to_value());
            sa.add_ava(Attribute::Class, EntryClass::Account.to_value());
            sa.add_ava(Attribute::Class, EntryClass::ServiceAccount.to_value());
            sa.add_ava(Attribute::Name, Value::new_iname("c33sa"));
            sa.add_ava(Attribute::Uuid, Value::Uuid(sa_uuid));
            sa.add_ava(Attribute::Description, Value::new_utf8s("c33sa"));
            sa.add_ava(Attribute::DisplayName, Value::new_utf8s("c33sa"));
            let mut p: Entry<EntryInit, EntryNew> = Entry::new();
            p.add_ava(Attribute::Class, EntryClass::Object.to_value());
            p.add_ava(Attribute::Class, EntryClass::Account.to_value());
            p.add_ava(Attribute::Class, EntryClass::Person.to_value());
            p.add_ava(Attribute::Name, Value::new_iname("c33certperson"));
            p.add_ava(Attribute::Uuid, Value::Uuid(person_uuid));
            p.add_ava(Attribute::Description, Value::new_utf8s("c33certperson"));
            p.add_ava(Attribute::DisplayName, Value::new_utf8s("c33certperson"));
            let mut ce: Entry<EntryInit, EntryNew> = Entry::new();
            ce.add_ava(Attribute::Class, EntryClass::Object.to_value());
            ce.add_ava(Attribute::Class, EntryClass::ClientCertificate.to_value());
            ce.add_ava(Attribute::Uuid, Value::Uuid(cert_uuid));
            ce.add_ava(Attribute::Refers, Value::Refer(person_uuid));
            ce.add_ava(Attribute::Certificate, Value::new_certificate_s(TEST_CERT).expect("test certificate"));
            let mut w = self.idms.proxy_write(ct).await.unwrap();
            w.qs_write.internal_create(vec![sa, p, ce]).expect("create fixed entries");
            w.commit().expect("commit fixed entries");
        }
        // API tokens
        for rw in [false, true] {
            for compact in [false, true] {
                for expiring in [false, true] {
                    let tok = {
                        let mut w = self.idms.proxy_write(ct).await.unwrap();
                        let gte = GenerateApiTokenEvent {
                            ident: hook23::ident_internal(0).expect("internal identity"),
                            target: sa_uuid,
                            label: format!("c33-{rw}-{compact}-{expiring}"),
                            expiry: expiring.then(|| time::OffsetDateTime::UNIX_EPOCH + ct + Duration::from_secs(100)),
                            read_write: rw,
                            compact,
                        };
                        let t = w.service_account_generate_api_token(&gte, ct).expect("api token");
                        w.commit().expect("commit api token");
                        t
                    };
                    for dt in [0u64, 99, 100, 101, 90_000] {
                        let at = ct + Duration::from_secs(dt);
                        let r = {
                            let mut rd = self.idms.proxy_read().await.unwrap();
                            rd.validate_client_auth_info_to_ident(ClientAuthInfo::new(Source::Internal, None, Some(tok.clone()), None), at)
                        };
                        let input = json!({"stream": "fixed", "what": "api", "rw": rw, "compact": compact, "expiring": expiring, "dt": dt});
                        match r {
                            Ok(id) => {
                                let reply = show_scope(id.access_scope()).to_string();
                                self.rep.case(Some(format!("api|{rw}|{compact}|{expiring}|{dt}")));
                                self.rep.count(&format!("api:{reply}"));
                                // oracle: read-write exactly when issued so; never past its expiry
                                let want = if rw { "scope rw" } else { "scope ro" };
                                if reply != want || (expiring && dt >= 100) {
                                    self.rep.fail(Failure {
                                        kind: "impl-vs-oracle".into(),
                                        class: "api-token-scope".into(),
                                        input: input.clone(),
                                        expected: format!("{want} while unexpired"),
                                        observed: reply.clone(),
                                    });
                                }
                                let m = self.drv.ask(&format!("api {}", rw as u8));
                                if m != reply {
                                    self.rep.fail(Failure { kind: "impl-vs-model".into(), class: "model-mismatch-api".into(), input, expected: m, observed: reply });
                                }
                            }
                            Err(e) => {
                                self.rep.case(None);
                                self.rep.count(&format!("api:{}", show_err(&e)));
                                if !(expiring && dt >= 100) {
                                    self.rep.fail(Failure {
                                        kind: "impl-vs-oracle".into(),
                                        class: "api-token-refused".into(),
                                        input,
                                        expected: "accepted while unexpired".into(),
                                        observed: show_err(&e),
                                    });
                                }
                            }
                        }
                    }
                }
            }
        }
        // client certificate: identity and reflected token
        let cci = {
            let mut rd = self.idms.proxy_read().await.unwrap();
            let e = rd.qs_read.internal_search_uuid(cert_uuid).expect("cert entry");
            let vs = e.get_ava_set(Attribute::Certificate).expect("certificate attribute");
            let map = vs.as_certificate_set().expect("certificate set");
            let (k, c) = map.iter().next().expect("one certificate");
            ClientCertInfo { public_key_s256: *k, certificate: (**c).clone() }
        };
        for dt in [0u64, 1, 3599, 3600, 86_400, 400_000_000] {
            let at = ct + Duration::from_secs(dt);
            let mk = || ClientAuthInfo::new(Source::Internal, Some(cci.clone()), None, None);
            let (ri, ru) = {
                let mut rd = self.idms.proxy_read().await.unwrap();
                let ri = rd.validate_client_auth_info_to_ident(mk(), at);
                let ru = rd.validate_client_auth_info_to_uat(&mk(), at);
                (ri, ru)
            };
            let input = json!({"stream": "fixed", "what": "cert", "dt": dt});
            match ri {
                Ok(id) => {
                    let reply = show_scope(id.access_scope()).to_string();
                    self.rep.case(Some(format!("cert|{dt}")));
                    self.rep.count(&format!("cert:{reply}"));
                    if reply != "scope ro" {
                        self.rep.fail(Failure { kind: "impl-vs-oracle".into(), class: "certificate-not-read-only".into(), input: input.clone(), expected: "scope ro".into(), observed: reply.clone() });
                    }
                    let m = self.drv.ask("cert");
                    if m != reply {
                        self.rep.fail(Failure { kind: "impl-vs-model".into(), class: "model-mismatch-cert".into(), input: input.clone(), expected: m, observed: reply });
                    }
                }
                Err(e) => {
                    self.rep.case(None);
                    self.rep.fail(Failure { kind: "impl-vs-model".into(), class: "certificate-identity-refused".into(), input: input.clone(), expected: "scope ro".into(), observed: show_err(&e) });
                }
            }
            match ru {
                Ok(uat) => {
                    // the reflected token, presented as a pre-validated one would be
                    let r = {
                        let mut rd = self.idms.proxy_read().await.unwrap();
                        rd.process_uat_to_identity(&uat, at, Source::Internal)
                    };
                    let reply = match r {
                        Ok(id) => show_scope(id.access_scope()).to_string(),
                        Err(e) => show_err(&e),
                    };
                    self.rep.count(&format!("certuat:{} {}", show_purpose(&uat.purpose), reply));
                    if !matches!(uat.purpose, UatPurpose::ReadOnly) || reply == "scope rw" {
                        self.rep.fail(Failure { kind: "impl-vs-oracle".into(), class: "certificate-token-not-read-only".into(), input: input.clone(), expected: "purpose ro".into(), observed: format!("{} / {reply}", show_purpose(&uat.purpose)) });
                    }
                    let m = self.drv.ask(&format!("certuat {}", at.as_nanos()));
                    if reply.starts_with("scope") && m != reply {
                        self.rep.fail(Failure { kind: "impl-vs-model".into(), class: "model-mismatch-certuat".into(), input, expected: m, observed: reply });
                    }
                }
                Err(e) => {
                    self.rep.fail(Failure { kind: "impl-vs-model".into(), class: "certificate-token-refused".into(), input, expected: "a token".into(), observed: show_err(&e) });
                }
            }
        }
        // LDAP binds (unix password bind / application password bind resolve through the same function)
        let app_uuid = nat_uuid(0xC33_A003);
        for (what, sess) in [
            ("unixbind", LdapSession::UnixBind(person_uuid)),
            ("apppwbind", LdapSession::ApplicationPasswordBind(app_uuid, person_uuid)),
            ("unixbind-anonymous", LdapSession::UnixBind(UUID_ANONYMOUS)),
        ] {
            for dt in [0u64, 3600, 400_000_000] {
                let at = ct + Duration::from_secs(dt);
                let r = {
                    let mut rd = self.idms.proxy_read().await.unwrap();
                    rd.validate_ldap_session(&sess, Source::Internal, at)
                };
                let input = json!({"stream": "fixed", "what": what, "dt": dt});
                match r {
                    Ok(id) => {
                        let reply = show_scope(id.access_scope()).to_string();
                        self.rep.case(Some(format!("ldap|{what}|{dt}")));
                        self.rep.count(&format!("ldap:{reply}"));
                        if reply != "scope ro" {
                            self.rep.fail(Failure { kind: "impl-vs-oracle".into(), class: "ldap-bind-not-read-only".into(), input: input.clone(), expected: "scope ro".into(), observed: reply.clone() });
                        }
                        let m = self.drv.ask("ldap");
                        if m != reply {
                            self.rep.fail(Failure { kind: "impl-vs-model".into(), class: "model-mismatch-ldap".into(), input, expected: m, observed: reply });
                        }
                    }
                    Err(e) => {
                        self.rep.case(None);
                        self.rep.fail(Failure { kind: "impl-vs-model".into(), class: "ldap-identity-refused".into(), input, expected: "scope ro".into(), observed: show_err(&e) });
                    }
                }
            }
        }
    }
}

// ---------------------------------------------------------------------------------------------
// generator
// ---------------------------------------------------------------------------------------------

const SESS_VALUES: [u32; 9] = [60, 600, 3599, 3600, 3601, 7200, 86400, 86400, 86400];
const PRIV_VALUES: [u32; 9] = [1, 5, 60, 600, 3599, 3600, 3601, 7200, 86400];
const SUBSEC: [u128; 5] = [0, 1, 499_999_999, 500_000_000, 999_999_999];
const DELTAS: [i128; 7] = [-1_000_000_000, -1, 0, 1, 1_000_000_000, -999_999_999, 999_999_999];

/// Symbolic state the generator tracks to aim at boundaries (what a client could compute from
/// its own clock and the configured policy — not read from the model or the implementation).
struct GenTok {
    /// instants worth probing: privilege expiry, session expiry (ns)
    marks: Vec<u128>,
}

fn gen_case(seed: u64, i: u64, slot: u64, slot_s: u128) -> Case {
    let mut rng = Rng::for_case(seed, i);
    let kind = *rng.pick(&[Kind::Anon, Kind::Pw, Kind::Pw, Kind::Pw, Kind::Gpw, Kind::Totp, Kind::Totp, Kind::Bc]);
    let privileged = rng.chance(1, 3);
    let lost = rng.chance(1, 12);
    // the policy changes every 48 cases (two group writes + dyngroup recomputation are the most
    // expensive part of a case); a replay carries its policy explicitly
    let mut prng = Rng::for_case(seed ^ 0x9011_c7, i / 48);
    let sess = *prng.pick(&SESS_VALUES);
    let priv_ = *prng.pick(&PRIV_VALUES);
    // every case gets its own 12-day slot of the clock, so nothing of an earlier case (TOTP
    // window reuse, soft locks, auth session ids) is live
    let start = (T0 as u128 + 100 * SLOT_S + (slot as u128 - 100) * slot_s) * NS + *rng.pick(&SUBSEC);
    let mut now = start;
    let floor = |t: u128| t / NS * NS;
    let res_priv = (priv_ as u128).min(3600);
    let mut toks: Vec<GenTok> = vec![];
    let first_marks = |t: u128| vec![floor(t) + (sess as u128).min(3600) * NS, floor(t) + sess as u128 * NS];
    toks.push(GenTok { marks: first_marks(now) });
    let mut ops = vec![];
    let nops = 3 + rng.below(9);
    let mut bc_left = 2;
    for _ in 0..nops {
        let r = rng.below(100);
        if r < 8 && (kind != Kind::Bc || bc_left > 0) {
            if kind == Kind::Bc {
                bc_left -= 1;
            }
            let p = rng.chance(1, 3);
            ops.push(OpK::Login(p, rng.chance(1, 6)));
            toks.push(GenTok { marks: first_marks(now) });
        } else if r < 30 {
            let t = rng.below(toks.len() as u64) as usize;
            let rw = rng.chance(3, 4);
            ops.push(OpK::Reauth(t, rw));
            // a re-issued token may or may not exist afterwards; the generator assumes it does
            // when the source session could re-authenticate — indices are only used when present
            // (ops naming a token that does not exist are skipped on both sides)
            let sess_mark = toks[t].marks[1];
            toks.push(GenTok { marks: vec![floor(now) + res_priv * NS, sess_mark] });
        } else if r < 34 {
            ops.push(OpK::Revoke(rng.below(toks.len() as u64) as usize));
        } else if r < 62 {
            // move to a boundary of some token
            let t = rng.below(toks.len() as u64) as usize;
            // privilege edge twice as often as the session edge (after which everything is refused)
            let m = if rng.chance(2, 3) { toks[t].marks[0] } else { toks[t].marks[1] };
            let target = (m as i128 + *rng.pick(&DELTAS)) as u128;
            if target > now {
                ops.push(OpK::Advance(target - now));
                now = target;
            } else {
                ops.push(OpK::Advance(1));
                now += 1;
            }
            ops.push(OpK::Use(t));
        } else if r < 72 {
            let dt = match rng.below(10) {
                0..=2 => rng.below(5) as u128,
                3..=6 => rng.below(120) as u128 * NS + rng.below(NS as u64) as u128,
                7..=8 => rng.below(4000) as u128 * NS,
                _ => rng.below(100_000) as u128 * NS,
            };
            ops.push(OpK::Advance(dt));
            now += dt;
        } else {
            ops.push(OpK::Use(rng.below(toks.len() as u64) as usize));
        }
    }
    // always end by presenting every token once
    for t in 0..toks.len().min(6) {
        ops.push(OpK::Use(t));
    }
    // a lost record matters inside / just after the 5-minute grace window
    if lost {
        let mut g = vec![OpK::Use(0), OpK::Reauth(0, true)];
        let edge = floor(start) + 300 * NS;
        let target = (edge as i128 + *rng.pick(&DELTAS)) as u128;
        g.push(OpK::Advance(target - start));
        g.push(OpK::Use(0));
        // everything generated above happens after it, shifted by that much time
        g.extend(ops);
        ops = g;
    }
    Case { kind, privileged, lost, sess, priv_, start, ops }
}

/// Hand-written cases: the D-style witnesses a reader would try first.
fn corpus() -> Vec<Case> {
    let s = (T0 as u128) * NS + 500_000_000;
    let sec = |x: u128| x * NS;
    vec![
        // ordinary login, re-auth, window edge ±1 ns
        Case { lost: false, kind: Kind::Pw, privileged: false, sess: 86400, priv_: 600, start: s, ops: vec![
            OpK::Use(0), OpK::Advance(sec(10)), OpK::Reauth(0, true), OpK::Use(1), OpK::Use(0),
            OpK::Advance(sec(600) - 500_000_001), OpK::Use(1), OpK::Advance(1), OpK::Use(1), OpK::Advance(sec(1)), OpK::Use(1)] },
        // privileged login: capped at one hour although the session policy says a day
        Case { lost: false, kind: Kind::Pw, privileged: true, sess: 86400, priv_: 600, start: s, ops: vec![
            OpK::Use(0), OpK::Advance(sec(3600) - 500_000_001), OpK::Use(0), OpK::Advance(1), OpK::Use(0), OpK::Advance(2), OpK::Use(0), OpK::Reauth(0, true)] },
        // privileged login on a short session policy: min(session, limited)
        Case { lost: false, kind: Kind::Totp, privileged: true, sess: 60, priv_: 600, start: s, ops: vec![
            OpK::Advance(sec(60) - 500_000_001), OpK::Use(0), OpK::Advance(1), OpK::Use(0), OpK::Advance(1), OpK::Use(0)] },
        // generated password: always privileged, never re-authenticates
        Case { lost: false, kind: Kind::Gpw, privileged: false, sess: 86400, priv_: 600, start: s, ops: vec![
            OpK::Use(0), OpK::Reauth(0, true), OpK::Advance(sec(3599)), OpK::Use(0), OpK::Advance(sec(1)), OpK::Use(0)] },
        // anonymous: read-only, cannot re-authenticate, privileged flag ignored
        Case { lost: false, kind: Kind::Anon, privileged: true, sess: 86400, priv_: 600, start: s, ops: vec![
            OpK::Use(0), OpK::Reauth(0, true), OpK::Use(0), OpK::Advance(sec(86399)), OpK::Use(0), OpK::Advance(sec(2)), OpK::Use(0)] },
        // re-auth near the end of the session: expiry not extended, privilege clipped by it
        Case { lost: false, kind: Kind::Pw, privileged: false, sess: 600, priv_: 3600, start: s, ops: vec![
            OpK::Advance(sec(590)), OpK::Reauth(0, true), OpK::Use(1), OpK::Advance(sec(10) - 500_000_000), OpK::Use(1), OpK::Advance(1), OpK::Use(1), OpK::Use(0)] },
        // policy above the ceiling: privilege expiry 86400 configured, one hour granted
        Case { lost: false, kind: Kind::Pw, privileged: false, sess: 86400, priv_: 86400, start: s, ops: vec![
            OpK::Reauth(0, true), OpK::Advance(sec(3600) - 500_000_001), OpK::Use(1), OpK::Advance(1), OpK::Use(1)] },
        // verify-only re-auth grants nothing; a second re-auth from the re-issued token works
        Case { lost: false, kind: Kind::Totp, privileged: false, sess: 86400, priv_: 60, start: s, ops: vec![
            OpK::Reauth(0, false), OpK::Use(1), OpK::Advance(sec(31)), OpK::Reauth(1, true), OpK::Use(2), OpK::Advance(sec(60)), OpK::Use(2), OpK::Use(1)] },
        // revoked session: tokens refused, re-auth refused
        Case { lost: false, kind: Kind::Pw, privileged: false, sess: 86400, priv_: 600, start: s, ops: vec![
            OpK::Reauth(0, true), OpK::Use(1), OpK::Revoke(0), OpK::Use(1), OpK::Use(0), OpK::Reauth(0, true)] },
        // backup-code login
        Case { lost: false, kind: Kind::Bc, privileged: false, sess: 86400, priv_: 600, start: s, ops: vec![
            OpK::Use(0), OpK::Reauth(0, true), OpK::Use(0), OpK::Login(true, false), OpK::Use(1), OpK::Advance(sec(3600)), OpK::Use(1)] },
        // the session record never reaches the database: grace window only, no re-auth
        Case { lost: true, kind: Kind::Pw, privileged: true, sess: 86400, priv_: 600, start: s, ops: vec![
            OpK::Use(0), OpK::Reauth(0, true), OpK::Advance(sec(300) - 500_000_001), OpK::Use(0), OpK::Advance(1), OpK::Use(0), OpK::Login(false, false), OpK::Use(1), OpK::Use(0)] },
    ]
}

fn merge(into: &mut Report, from: Report) {
    into.evaluations += from.evaluations;
    into.nontrivial_keys.extend(from.nontrivial_keys);
    for (k, v) in from.histogram {
        *into.histogram.entry(k).or_insert(0) += v;
    }
    for s in from.samples {
        into.sample(s);
    }
    for f in from.failures {
        into.fail(f);
    }
    into.notes.extend(from.notes);
    into.model_requests += from.model_requests;
}

fn worker_thread(driver: String, seed: u64, shard: u64, nshards: u64, total: u64, forge_n: u64, replay: Option<Json>) -> Report {
    // `OffsetDateTime` ends at year 9999 (~2.5e11 s): with a raised budget the per-case slice of
    // the clock shrinks (never below ~2 days; consecutive cases of one worker are `nshards` slots apart)
    let slot_s: u128 = (200_000_000_000u128 / (total as u128 + 200)).min(SLOT_S);
    let rt = tokio::runtime::Builder::new_current_thread().enable_all().build().unwrap();
    rt.block_on(async move {
        let mut w = Worker::new(&driver).await;
        if let Some(inp) = replay {
            match inp["stream"].as_str().unwrap_or("flow") {
                "flow" => {
                    let c = Case::from_json(&inp);
                    w.check_case(&c, false).await;
                }
                "forge" => {
                    let seed: u64 = inp["seed"].as_str().unwrap().parse().unwrap();
                    let idx = inp["index"].as_u64().unwrap();
                    w.run_forge(seed, idx + 1).await;
                }
                _ => w.run_fixed().await,
            }
        } else {
            let t0 = std::time::Instant::now();
            if shard == 0 {
                for (k, mut c) in corpus().into_iter().enumerate() {
                    c.start += (k as u128 + 1) * SLOT_S * NS;
                    w.rep.count("corpus");
                    w.check_case(&c, true).await;
                }
                w.run_fixed().await;
            }
            let t1 = t0.elapsed();
            if shard == 1 % nshards {
                w.run_forge(seed, forge_n).await;
            }
            let t2 = t0.elapsed();
            let mut i = shard;
            while i < total {
                let c = gen_case(seed, i, i + 100, slot_s);
                w.check_case(&c, true).await;
                i += nshards;
            }
            w.rep.note(format!(
                "shard {shard}: corpus+fixed {:.1}s, forge {:.1}s, flow {:.1}s",
                t1.as_secs_f64(),
                (t2 - t1).as_secs_f64(),
                (t0.elapsed() - t2).as_secs_f64()
            ));
        }
        w.rep.model_requests = w.drv.requests;
        w.rep
    })
}

fn main() {
    if std::env::var("RUST_LOG").is_err() {
        std::env::set_var("RUST_LOG", "off");
    }
    let args = Args::parse();
    let mut rep = Report::new(
        "privilege",
        "flow case = (login kind, privileged, policy, start instant, op list) through IdmServer::auth / reauth_init / \
         validate_client_auth_info_to_ident; non-trivial = at least one token was issued and at least one presentation \
         was accepted; distinct = distinct (kind, privileged, policy, sub-second start, op shapes). forge/fixed cases: \
         non-trivial = the identity was built",
    );
    let replay: Option<Json> = args.replay.as_ref().map(|p| {
        let v: Json = serde_json::from_str(&std::fs::read_to_string(p).unwrap()).unwrap();
        v["input"].clone()
    });
    // capped: every case adds an account to the worker's server (dynamic-group upkeep grows with it)
    let total = args.cases(2000, 60_000).min(if args.thorough() { 120_000 } else { 20_000 });
    let forge_n = args.cases(4000, 100_000).min(150_000);
    let nshards: u64 = if replay.is_some() { 1 } else if args.thorough() { 12 } else { 6 };
    let mut handles = vec![];
    for shard in 0..nshards {
        let driver = args.driver.clone();
        let replay = replay.clone();
        let seed = args.seed;
        handles.push(std::thread::spawn(move || worker_thread(driver, seed, shard, nshards, total, forge_n, replay)));
    }
    for h in handles {
        merge(&mut rep, h.join().expect("worker panicked"));
    }
    rep.note(format!(
        "{total} generated flow cases + {} corpus cases, {forge_n} forged tokens, fixed stream (API tokens, certificate, LDAP); seed {}",
        corpus().len(),
        args.seed
    ));
    rep.write(&args.out);
    println!("c33: {} cases, {} non-trivial, {} failures", rep.evaluations, rep.nontrivial_keys.len(), rep.failures.len());
}
