//! C04 harness — failed or abandoned write transactions leave no trace.
//!
//! The real code: an `IdmServer` over a **file-backed** SQLite database (pool 4), booted from a
//! copy of one baseline database file; write transactions through `IdmServer::proxy_write` →
//! `qs_write.internal_{create,modify,delete}` → `commit()` / drop.
//!
//! Fault injection is hook-free: a second SQLite connection (rusqlite, the same bundled library)
//! installs, before the write transaction begins, `BEFORE INSERT/DELETE` triggers on every table that
//! count the storage statements of the transaction and `RAISE(ABORT)` at the K-th one (kanidm only
//! issues `INSERT OR REPLACE` / `DELETE` row statements); K = 0 only logs the table of every
//! statement.  A failing `COMMIT TRANSACTION` is produced by a trigger on `db_op_ts` (written by every
//! commit) that inserts a dangling row into a table with a `DEFERRABLE INITIALLY DEFERRED` foreign
//! key (foreign keys are on by default in the bundled build).
//!
//! Streams (one report):
//!  * `kinds`: for every transaction kind of the quantifier (entry create / modify / delete, schema
//!    attribute creation, access-control profile creation, OAuth2 client creation and deletion,
//!    domain display name change, all of them in one transaction, random mixes): one logging run
//!    (K = 0, commit succeeds: gives the statement sequence, the `after` observation and which
//!    observables the transaction changes), then a sweep over K (quick: the boundaries of every
//!    statement group; thorough: every K) plus the failing COMMIT.  Every run starts from a fresh
//!    copy of the baseline file.
//!  * `drops`: random operation sequences (incl. failing operations) on one shared server, dropped
//!    without commit at every operation boundary.
//!
//! Oracle (property text only, never the model): after the failed / dropped transaction a new
//! read transaction observes exactly what it observed before (all entries incl. recycled, schema
//! attribute and class names, domain display name, what a test person may read of a test group,
//! OAuth2 client lookups + their public key sets, key objects, the reader's trim cid), the raw
//! content of every SQLite table is unchanged, and a fresh server reopened on the file observes what
//! a fresh server over the untouched baseline observes.
//! Correspondence: the Lean model (`km_c04`, generated commit order) is asked which observables
//! carry the new value after a failure at the mapped step; compared with what was observed; the
//! logged statement sequence must follow the generated order.
use hlib::*;
use kanidm_proto::internal::FsType;
use kanidmd_lib::be::{Backend, BackendConfig};
use kanidmd_lib::entry::{Entry, EntryInit, EntryNew};
use kanidmd_lib::filter::{f_eq, f_pres, Filter};
use kanidmd_lib::idm::server::{IdmServer, IdmServerAudit, IdmServerDelayed, IdmServerProxyWriteTransaction};
use kanidmd_lib::prelude::*;
use kanidmd_lib::schema::{Schema, SchemaTransaction};
use kanidmd_lib::value::{PartialValue, Value};
use rusqlite::types::ValueRef;
use rusqlite::Connection;
use serde_json::{json, Value as J};
use std::collections::{BTreeMap, BTreeSet};
use std::path::{Path, PathBuf};
use std::time::{Duration, Instant};
use url::Url;

const BASE: u64 = 1_700_000_000;
const U_PERSON: Uuid = Uuid::from_u128(0xc04c04c0_0000_4000_8000_000000000001);
const U_GROUP: Uuid = Uuid::from_u128(0xc04c04c0_0000_4000_8000_000000000002);
const U_TARGET: Uuid = Uuid::from_u128(0xc04c04c0_0000_4000_8000_000000000003);
const U_VICTIM: Uuid = Uuid::from_u128(0xc04c04c0_0000_4000_8000_000000000004);
const U_BASECLIENT: Uuid = Uuid::from_u128(0xc04c04c0_0000_4000_8000_000000000005);
const U_CLIENT: Uuid = Uuid::from_u128(0xc04c04c0_0000_4000_8000_000000000006);
const U_ATTR: Uuid = Uuid::from_u128(0xc04c04c0_0000_4000_8000_000000000007);
const U_ACP: Uuid = Uuid::from_u128(0xc04c04c0_0000_4000_8000_000000000008);
fn u_new(n: u64) -> Uuid {
    Uuid::from_u128(0xc04c04c0_0000_4000_8000_000000010000 + n as u128)
}

fn ct(k: u64) -> Duration {
    Duration::from_secs(BASE + k)
}

type Obs = BTreeMap<String, String>;

/// Domain level the servers are booted at: 0 = `DOMAIN_TGT_LEVEL`; the `raise` kind uses a second
/// baseline at `DOMAIN_PREVIOUS_TGT_LEVEL` (at the target level the in-memory schema is static, so
/// the domain upgrade is the one transaction that observably changes the schema).
static CUR_LEVEL: std::sync::atomic::AtomicU32 = std::sync::atomic::AtomicU32::new(0);
fn cur_level() -> u32 {
    match CUR_LEVEL.load(std::sync::atomic::Ordering::SeqCst) {
        0 => DOMAIN_TGT_LEVEL,
        l => l,
    }
}

// ------------------------------------------------------------------------------------------------
// operations
// ------------------------------------------------------------------------------------------------

#[derive(Clone, Debug, PartialEq)]
enum Op {
    Create(u64),
    Modify(u64),
    Delete,
    Schema,
    Acp,
    OAuth2,
    OAuth2Del,
    Domain(u64),
    BadCreate,
    /// raise the domain level from the previous to the target level (schema, ACPs, entries migrate)
    Raise,
}

impl Op {
    fn show(&self) -> String {
        match self {
            Op::Create(n) => format!("create:{n}"),
            Op::Modify(n) => format!("modify:{n}"),
            Op::Delete => "delete".into(),
            Op::Schema => "schema".into(),
            Op::Acp => "acp".into(),
            Op::OAuth2 => "oauth2".into(),
            Op::OAuth2Del => "oauth2del".into(),
            Op::Domain(n) => format!("domain:{n}"),
            Op::BadCreate => "badcreate".into(),
            Op::Raise => "raise".into(),
        }
    }
    fn parse(s: &str) -> Op {
        let (h, n) = match s.split_once(':') {
            Some((h, n)) => (h, n.parse::<u64>().unwrap_or(0)),
            None => (s, 0),
        };
        match h {
            "create" => Op::Create(n),
            "modify" => Op::Modify(n),
            "delete" => Op::Delete,
            "schema" => Op::Schema,
            "acp" => Op::Acp,
            "oauth2" => Op::OAuth2,
            "oauth2del" => Op::OAuth2Del,
            "domain" => Op::Domain(n),
            "badcreate" => Op::BadCreate,
            "raise" => Op::Raise,
            o => panic!("unknown op {o}"),
        }
    }
}

fn group(name: &str, uuid: Uuid) -> Entry<EntryInit, EntryNew> {
    let mut e: Entry<EntryInit, EntryNew> = Entry::new();
    e.add_ava(Attribute::Class, EntryClass::Object.to_value());
    e.add_ava(Attribute::Class, EntryClass::Group.to_value());
    e.add_ava(Attribute::Name, Value::new_iname(name));
    e.add_ava(Attribute::Uuid, Value::Uuid(uuid));
    e
}

fn client(name: &str, uuid: Uuid) -> Entry<EntryInit, EntryNew> {
    let mut e: Entry<EntryInit, EntryNew> = Entry::new();
    e.add_ava(Attribute::Class, EntryClass::Object.to_value());
    e.add_ava(Attribute::Class, EntryClass::Account.to_value());
    e.add_ava(Attribute::Class, EntryClass::OAuth2ResourceServer.to_value());
    e.add_ava(Attribute::Class, EntryClass::OAuth2ResourceServerBasic.to_value());
    e.add_ava(Attribute::Uuid, Value::Uuid(uuid));
    e.add_ava(Attribute::Name, Value::new_iname(name));
    e.add_ava(Attribute::DisplayName, Value::new_utf8s(name));
    e.add_ava(Attribute::OAuth2RsOriginLanding, Value::new_url_s(&format!("https://{name}.example.com/")).expect("url"));
    let scopes: BTreeSet<String> = ["openid".to_string()].into_iter().collect();
    e.add_ava(Attribute::OAuth2RsScopeMap, Value::new_oauthscopemap(U_GROUP, scopes).expect("scope map"));
    e
}

fn apply(w: &mut IdmServerProxyWriteTransaction<'_>, op: &Op) -> Result<(), String> {
    let qs = &mut w.qs_write;
    let r = match op {
        Op::Create(n) => {
            let mut e = group(&format!("vp_new{n}"), u_new(*n));
            e.add_ava(Attribute::Description, Value::new_utf8s("created by c04"));
            e.add_ava(Attribute::Member, Value::Refer(U_PERSON));
            qs.internal_create(vec![e])
        }
        Op::Modify(n) => qs.internal_modify_uuid(U_TARGET, &ModifyList::new_purge_and_set(Attribute::Description, Value::new_utf8s(&format!("t{n}")))),
        Op::Delete => qs.internal_delete(&Filter::new(f_eq(Attribute::Uuid, PartialValue::Uuid(U_VICTIM)))),
        Op::Schema => {
            let mut e: Entry<EntryInit, EntryNew> = Entry::new();
            e.add_ava(Attribute::Class, EntryClass::Object.to_value());
            e.add_ava(Attribute::Class, EntryClass::AttributeType.to_value());
            e.add_ava(Attribute::Uuid, Value::Uuid(U_ATTR));
            e.add_ava(Attribute::AttributeName, Value::new_iutf8("vp_attr"));
            e.add_ava(Attribute::Description, Value::new_utf8s("c04 attribute"));
            e.add_ava(Attribute::MultiValue, Value::new_bool(false));
            e.add_ava(Attribute::Unique, Value::new_bool(false));
            e.add_ava(Attribute::Syntax, Value::new_syntaxs("UTF8STRING").expect("syntax"));
            qs.internal_create(vec![e])
        }
        Op::Acp => {
            let mut e: Entry<EntryInit, EntryNew> = Entry::new();
            for c in [EntryClass::Object, EntryClass::AccessControlProfile, EntryClass::AccessControlSearch, EntryClass::AccessControlReceiverGroup, EntryClass::AccessControlTargetScope] {
                e.add_ava(Attribute::Class, c.to_value());
            }
            e.add_ava(Attribute::Name, Value::new_iname("vp_acp"));
            e.add_ava(Attribute::Uuid, Value::Uuid(U_ACP));
            e.add_ava(Attribute::Description, Value::new_utf8s("c04 acp"));
            e.add_ava(Attribute::AcpReceiverGroup, Value::Refer(U_GROUP));
            e.add_ava(
                Attribute::AcpTargetScope,
                Value::JsonFilt(kanidm_proto::internal::Filter::Eq("name".into(), "vp_target".into())),
            );
            for a in ["name", "uuid", "class", "description", "member", "mail", "entry_managed_by", "grant_ui_hint", "last_modified_cid", "created_at_cid"] {
                e.add_ava(Attribute::AcpSearchAttr, Value::new_iutf8(a));
            }
            qs.internal_create(vec![e])
        }
        Op::OAuth2 => qs.internal_create(vec![client("vp_client", U_CLIENT)]),
        Op::OAuth2Del => qs.internal_delete(&Filter::new(f_eq(Attribute::Uuid, PartialValue::Uuid(U_BASECLIENT)))),
        Op::Domain(n) => qs.internal_modify_uuid(UUID_DOMAIN_INFO, &ModifyList::new_purge_and_set(Attribute::DomainDisplayName, Value::new_utf8s(&format!("VP{n}")))),
        Op::Raise => qs.domain_raise(DOMAIN_TGT_LEVEL),
        Op::BadCreate => {
            // a group without a name: refused by schema validation
            let mut e: Entry<EntryInit, EntryNew> = Entry::new();
            e.add_ava(Attribute::Class, EntryClass::Object.to_value());
            e.add_ava(Attribute::Class, EntryClass::Group.to_value());
            e.add_ava(Attribute::Uuid, Value::Uuid(u_new(999_999)));
            qs.internal_create(vec![e])
        }
    };
    r.map_err(|e| format!("{e:?}"))
}

// ------------------------------------------------------------------------------------------------
// the server under test
// ------------------------------------------------------------------------------------------------

struct Srv {
    rt: tokio::runtime::Runtime,
    idms: Box<IdmServer>,
    _d: IdmServerDelayed,
    _a: IdmServerAudit,
}

/// How a transaction ended.
#[derive(Clone, Debug, PartialEq)]
enum End {
    /// dropped without commit after `j` successful operations
    Dropped(usize),
    /// operation `j` returned Err; the transaction was dropped
    OpFailed(usize, String),
    CommitOk,
    CommitErr(String),
}

impl Srv {
    fn boot(path: &Path, now: Duration) -> Result<Srv, String> {
        let rt = tokio::runtime::Builder::new_current_thread().enable_all().build().unwrap();
        let schema = Schema::new().map_err(|e| format!("schema {e:?}"))?;
        let idxmeta = {
            let s = schema.write();
            s.reload_idxmeta()
        };
        let be = Backend::new(BackendConfig::new(Some(path), 4, FsType::Generic, Some(2048)), idxmeta, false).map_err(|e| format!("backend {e:?}"))?;
        let qs = QueryServer::new(be, schema, "example.com".to_string(), now).map_err(|e| format!("qs {e:?}"))?;
        rt.block_on(qs.initialise_helper(now, cur_level())).map_err(|e| format!("init {e:?}"))?;
        let (idms, d, a) = rt
            .block_on(IdmServer::new(qs, &Url::parse("https://idm.example.com").unwrap(), true, now))
            .map_err(|e| format!("idms {e:?}"))?;
        Ok(Srv { rt, idms: Box::new(idms), _d: d, _a: a })
    }

    /// One write transaction: `ops` in order; `drop_after = Some(j)`: drop before operation `j`
    /// (j = ops.len(): drop instead of commit).
    fn txn(&self, ops: &[Op], drop_after: Option<usize>, now: Duration) -> End {
        self.rt.block_on(async {
            let mut w = self.idms.proxy_write(now).await.expect("proxy_write");
            for (j, op) in ops.iter().enumerate() {
                if drop_after == Some(j) {
                    drop(w);
                    return End::Dropped(j);
                }
                if let Err(e) = apply(&mut w, op) {
                    drop(w);
                    return End::OpFailed(j, e);
                }
            }
            if drop_after == Some(ops.len()) {
                drop(w);
                return End::Dropped(ops.len());
            }
            match w.commit() {
                Ok(()) => End::CommitOk,
                Err(e) => End::CommitErr(format!("{e:?}")),
            }
        })
    }

    /// Everything a new read transaction can see that the property names.
    fn observe(&self) -> Obs {
        self.rt.block_on(async {
            let mut o = Obs::new();
            let mut r = self.idms.proxy_read().await.expect("proxy_read");
            // entries, incl. recycled and tombstones
            let all = r.qs_read.internal_search(Filter::new(f_pres(Attribute::Class))).expect("dump");
            let mut lines: Vec<String> = all
                .iter()
                .map(|e| {
                    let mut avas: Vec<String> = e
                        .get_ava_iter()
                        .map(|(a, vs)| {
                            let mut vs: Vec<String> = vs.to_proto_string_clone_iter().collect();
                            vs.sort();
                            format!("{a}={}", vs.join("|"))
                        })
                        .collect();
                    avas.sort();
                    format!("{} {}", e.get_uuid(), avas.join("; "))
                })
                .collect();
            lines.sort();
            o.insert("entries".into(), lines.join("\n"));
            // schema
            let sch = r.qs_read.get_schema();
            let mut attrs: Vec<String> = sch.get_attributes().iter().map(|(k, v)| format!("{k}:{:?}:{}:{}", v.syntax, v.multivalue, v.unique)).collect();
            attrs.sort();
            let mut classes: Vec<String> = sch.get_classes().keys().map(|k| k.to_string()).collect();
            classes.sort();
            o.insert("schema".into(), format!("attrs {}\nclasses {}", attrs.join(","), classes.join(",")));
            // domain settings
            o.insert("domain".into(), r.qs_read.get_domain_display_name().to_string());
            // an effective access decision: what the test person may read of the target group
            let acp = match r.qs_read.internal_search_uuid(U_PERSON) {
                Err(e) => format!("no-person {e:?}"),
                Ok(pe) => {
                    let ident = Identity::from_impersonate_entry_readwrite(pe);
                    let f = Filter::new(f_eq(Attribute::Name, PartialValue::new_iname("vp_target")));
                    match f.validate(r.qs_read.get_schema()) {
                        Err(e) => format!("validate {e:?}"),
                        Ok(fv) => {
                            let se = SearchEvent::new_impersonate(&ident, fv.clone(), fv);
                            match r.qs_read.search_ext(&se) {
                                Err(e) => format!("err {e:?}"),
                                Ok(res) => {
                                    let mut rows: Vec<String> = res
                                        .iter()
                                        .map(|e| {
                                            let mut n: Vec<String> = e.get_ava_names().map(|s| s.to_string()).collect();
                                            n.sort();
                                            format!("{}:{}", e.get_uuid(), n.join(","))
                                        })
                                        .collect();
                                    rows.sort();
                                    rows.join(" ")
                                }
                            }
                        }
                    }
                }
            };
            o.insert("acp".into(), acp);
            // OAuth2 client configuration + key material
            let mut o2 = vec![];
            for c in ["vp_base", "vp_client"] {
                o2.push(match r.oauth2_openid_publickey(c) {
                    Ok(k) => format!("{c}:{}", serde_json::to_string(&k).unwrap_or_default()),
                    Err(e) => format!("{c}:{e:?}"),
                });
            }
            o.insert("oauth2".into(), o2.join(" "));
            let mut keys = vec![];
            for (n, u) in [("base", U_BASECLIENT), ("client", U_CLIENT), ("domain", UUID_DOMAIN_INFO)] {
                keys.push(format!("{n}:{}", kanidmd_lib::verif_hooks::c34::handle(&r.qs_read, u).is_some()));
            }
            o.insert("key".into(), keys.join(" "));
            let (ts, su) = kanidmd_lib::verif_hooks::c04::read_trim_cid(&r.qs_read);
            o.insert("cid".into(), format!("{}.{:09}@{su}", ts.as_secs(), ts.subsec_nanos()));
            o
        })
    }
}

// ------------------------------------------------------------------------------------------------
// the second SQLite connection: fault-injection triggers and raw dumps
// ------------------------------------------------------------------------------------------------

struct Sab {
    conn: Connection,
}

impl Sab {
    fn open(path: &Path) -> Sab {
        let conn = Connection::open(path).expect("second connection");
        conn.busy_timeout(Duration::from_secs(5)).unwrap();
        Sab { conn }
    }
    fn tables(&self) -> Vec<String> {
        let mut st = self
            .conn
            .prepare("SELECT name FROM sqlite_master WHERE type='table' AND name NOT LIKE 'vp\\_%' ESCAPE '\\' AND name NOT LIKE 'sqlite\\_%' ESCAPE '\\' ORDER BY name")
            .unwrap();
        let v: Vec<String> = st.query_map([], |r| r.get(0)).unwrap().map(|x| x.unwrap()).collect();
        v
    }
    /// Count every row statement of the next write transaction; fail the `k`-th (k = 0: none);
    /// `commit_fault`: make `COMMIT TRANSACTION` fail.
    fn install(&self, k: u64, commit_fault: bool) {
        let mut sql = String::from("BEGIN IMMEDIATE;\nCREATE TABLE vp_cnt(n INTEGER, k INTEGER);\n");
        sql += &format!("INSERT INTO vp_cnt VALUES (0, {k});\nCREATE TABLE vp_log(seq INTEGER PRIMARY KEY AUTOINCREMENT, tbl TEXT);\n");
        for t in self.tables() {
            for ev in ["INSERT", "DELETE", "UPDATE"] {
                sql += &format!(
                    "CREATE TRIGGER \"vp_{ev}_{t}\" BEFORE {ev} ON \"{t}\" BEGIN\n  UPDATE vp_cnt SET n = n + 1;\n  INSERT INTO vp_log(tbl) VALUES ('{t}');\n  SELECT RAISE(ABORT, 'vp-fault') WHERE (SELECT n FROM vp_cnt) = (SELECT k FROM vp_cnt);\nEND;\n"
                );
            }
        }
        if commit_fault {
            sql += "CREATE TABLE vp_parent(id INTEGER PRIMARY KEY);\nCREATE TABLE vp_child(p INTEGER REFERENCES vp_parent(id) DEFERRABLE INITIALLY DEFERRED);\n";
            sql += "CREATE TRIGGER vp_fk AFTER INSERT ON db_op_ts BEGIN INSERT INTO vp_child VALUES (12345); END;\n";
        }
        sql += "COMMIT;";
        self.conn.execute_batch(&sql).expect("install triggers");
    }
    /// Statement log of a committed logging run (empty after a rolled back transaction).
    fn log(&self) -> Vec<String> {
        let mut st = self.conn.prepare("SELECT tbl FROM vp_log ORDER BY seq").unwrap();
        let v: Vec<String> = st.query_map([], |r| r.get(0)).unwrap().map(|x| x.unwrap()).collect();
        v
    }
    fn uninstall(&self) {
        let mut st = self.conn.prepare("SELECT type, name FROM sqlite_master WHERE name LIKE 'vp\\_%' ESCAPE '\\' AND type IN ('trigger','table') ORDER BY type DESC").unwrap();
        let objs: Vec<(String, String)> = st.query_map([], |r| Ok((r.get(0)?, r.get(1)?))).unwrap().map(|x| x.unwrap()).collect();
        drop(st);
        let mut sql = String::from("BEGIN IMMEDIATE;\n");
        for (ty, n) in objs {
            sql += &format!("DROP {} IF EXISTS \"{n}\";\n", ty.to_uppercase());
        }
        sql += "COMMIT;";
        self.conn.execute_batch(&sql).expect("uninstall triggers");
    }
    /// Raw content of every table: name → sorted rendered rows.
    fn dump(&self) -> BTreeMap<String, String> {
        let mut out = BTreeMap::new();
        for t in self.tables() {
            let mut st = self.conn.prepare(&format!("SELECT * FROM \"{t}\"")).unwrap();
            let n = st.column_count();
            let mut rows = st.query([]).unwrap();
            let mut rendered = vec![];
            while let Some(r) = rows.next().unwrap() {
                let mut line = String::new();
                for i in 0..n {
                    if i > 0 {
                        line.push('|');
                    }
                    match r.get_ref(i).unwrap() {
                        ValueRef::Null => line.push_str("NULL"),
                        ValueRef::Integer(v) => line.push_str(&v.to_string()),
                        ValueRef::Real(v) => line.push_str(&v.to_string()),
                        ValueRef::Text(t) => line.push_str(&String::from_utf8_lossy(t)),
                        ValueRef::Blob(b) => line.push_str(&b.iter().map(|x| format!("{x:02x}")).collect::<String>()),
                    }
                }
                rendered.push(line);
            }
            rendered.sort();
            out.insert(t, rendered.join("\n"));
        }
        out
    }
}

// ------------------------------------------------------------------------------------------------
// baseline database
// ------------------------------------------------------------------------------------------------

fn workdir() -> PathBuf {
    let d = PathBuf::from(format!("/tmp/c04/{}", std::process::id()));
    std::fs::create_dir_all(&d).unwrap();
    d
}

fn rm_db(p: &Path) {
    for suf in ["", "-wal", "-shm", "-journal"] {
        let _ = std::fs::remove_file(format!("{}{suf}", p.display()));
    }
}

/// Build the baseline file: a migrated server plus the fixture entries, fully checkpointed.
fn build_baseline(path: &Path) {
    rm_db(path);
    {
        let srv = Srv::boot(path, ct(0)).expect("boot baseline");
        let end = srv.rt.block_on(async {
            let mut w = srv.idms.proxy_write(ct(1)).await.expect("write");
            let mut p: Entry<EntryInit, EntryNew> = Entry::new();
            for c in [EntryClass::Object, EntryClass::Account, EntryClass::Person] {
                p.add_ava(Attribute::Class, c.to_value());
            }
            p.add_ava(Attribute::Name, Value::new_iname("vp_person"));
            p.add_ava(Attribute::Uuid, Value::Uuid(U_PERSON));
            p.add_ava(Attribute::DisplayName, Value::new_utf8s("VP Person"));
            let mut g = group("vp_group", U_GROUP);
            g.add_ava(Attribute::Member, Value::Refer(U_PERSON));
            let mut t = group("vp_target", U_TARGET);
            t.add_ava(Attribute::Description, Value::new_utf8s("t0"));
            t.add_ava(Attribute::Member, Value::Refer(U_PERSON));
            let mut v = group("vp_victim", U_VICTIM);
            v.add_ava(Attribute::Description, Value::new_utf8s("to be deleted"));
            w.qs_write.internal_create(vec![p, g, t, v, client("vp_base", U_BASECLIENT)]).expect("fixture");
            w.commit()
        });
        end.expect("fixture commit");
    }
    let c = Connection::open(path).unwrap();
    let _ = c.execute_batch("PRAGMA wal_checkpoint(TRUNCATE);");
    drop(c);
}

fn copy_db(base: &Path, to: &Path) {
    rm_db(to);
    std::fs::copy(base, to).expect("copy baseline");
    let wal = format!("{}-wal", base.display());
    if Path::new(&wal).exists() {
        std::fs::copy(&wal, format!("{}-wal", to.display())).expect("copy wal");
    }
}

// ------------------------------------------------------------------------------------------------
// model
// ------------------------------------------------------------------------------------------------

/// observable → the model cell it reads
const OBS_CELLS: [(&str, &str); 6] = [("schema", "schema"), ("domain", "dInfo"), ("acp", "accesscontrols"), ("oauth2", "oauth2rs"), ("key", "keyProviders"), ("cid", "cid")];

struct Model {
    drv: Driver,
    /// flattened step names in order
    steps: Vec<String>,
    asked: u64,
    disagreements: u64,
}

impl Model {
    fn new(path: &str) -> Model {
        let mut drv = Driver::spawn(path);
        let reply = drv.ask("steps");
        let steps: Vec<String> = reply.split(',').map(|s| s.splitn(2, ':').nth(1).unwrap_or("").rsplitn(3, ':').nth(2).unwrap_or("").to_string()).collect();
        Model { drv, steps, asked: 0, disagreements: 0 }
    }
    fn idx(&self, name: &str) -> Option<usize> {
        self.steps.iter().position(|s| s == name)
    }
    /// Which observables carry the transaction's value afterwards: (tag, set of obs keys, db new?)
    fn txn(&mut self, staged: &BTreeSet<String>, db: bool, finish: &str) -> (String, BTreeSet<String>, bool) {
        self.asked += 1;
        self.drv.ask("reset");
        let cells: Vec<&str> = OBS_CELLS.iter().filter(|(o, _)| staged.contains(*o)).map(|(_, c)| *c).collect();
        let line = format!("txn {} {} 1 {finish}", if cells.is_empty() { "-".to_string() } else { cells.join(",") }, if db { 1 } else { 0 });
        let reply = self.drv.ask(&line);
        let t: Vec<&str> = reply.split(' ').collect();
        if t.len() != 3 {
            panic!("model reply `{reply}` to `{line}`");
        }
        let mut newc = BTreeSet::new();
        if t[1] != "-" {
            for kv in t[1].split(',') {
                let (c, v) = kv.split_once('=').unwrap();
                if v == "1" {
                    let o = OBS_CELLS.iter().find(|(_, cc)| *cc == c).unwrap().0;
                    newc.insert(o.to_string());
                }
            }
        }
        (t[0].to_string(), newc, t[2] == "db=1")
    }
}

/// The generated step a storage statement on `table` belongs to (inside `commit()`).
fn table_step(table: &str) -> Option<&'static str> {
    Some(match table {
        "db_op_ts" => "qs:dbWrite:set_db_ts_max",
        "ruv" => "be:dbWrite:write_db_ruv",
        "id2entry" => "idl:dbWrite:entryCache",
        "idx_name2uuid" | "idx_externalid2uuid" | "idx_uuid2spn" | "idx_uuid2rdn" => "idl:dbWrite:nameCache",
        t if t.starts_with("idx_") => "idl:dbWrite:idlCache",
        _ => return None,
    })
}

// ------------------------------------------------------------------------------------------------
// one fault case
// ------------------------------------------------------------------------------------------------

struct Ctx {
    base: PathBuf,
    work: PathBuf,
    /// what a fresh server over the untouched baseline observes
    fresh_ref: Obs,
    /// the baseline is at the previous domain level
    prev: bool,
    model: Option<Model>,
    oracle_failed: bool,
    known_recorded: BTreeSet<String>,
    t_boot: Duration,
    boots: u64,
}

struct KindInfo {
    ops: Vec<Op>,
    before: Obs,
    after_ok: Obs,
    /// tables of the storage statements of the successful run, in order
    log: Vec<String>,
    /// observables the successful transaction changes
    staged: BTreeSet<String>,
    db_changes: bool,
}

fn diff_keys(a: &Obs, b: &Obs) -> BTreeSet<String> {
    let mut d = BTreeSet::new();
    for k in a.keys().chain(b.keys()) {
        if a.get(k) != b.get(k) {
            d.insert(k.clone());
        }
    }
    d
}

/// An observation with the per-run random parts masked (the key pair generated for a new OAuth2
/// client differs between the logging run and the fault run): `"x":"…"`, `"y":"…"`, `"kid":"…"`.
fn shape(v: &str) -> String {
    let mut out = String::new();
    let mut rest = v;
    loop {
        let next = ["\"x\":\"", "\"y\":\"", "\"kid\":\""].iter().filter_map(|p| rest.find(p).map(|i| (i, p.len()))).min();
        match next {
            None => {
                out.push_str(rest);
                return out;
            }
            Some((i, l)) => {
                out.push_str(&rest[..i + l]);
                let tail = &rest[i + l..];
                let end = tail.find('"').unwrap_or(tail.len());
                out.push('#');
                rest = &tail[end..];
            }
        }
    }
}

fn first_diff(a: &str, b: &str) -> String {
    let la: BTreeSet<&str> = a.lines().collect();
    let lb: BTreeSet<&str> = b.lines().collect();
    let only_a: Vec<&&str> = la.difference(&lb).take(2).collect();
    let only_b: Vec<&&str> = lb.difference(&la).take(2).collect();
    let cut = |s: &&&str| s.chars().take(300).collect::<String>();
    format!("-{:?} +{:?}", only_a.iter().map(cut).collect::<Vec<_>>(), only_b.iter().map(cut).collect::<Vec<_>>())
}

impl Ctx {
    fn boot_work(&mut self, now: Duration) -> Srv {
        let t = Instant::now();
        let s = Srv::boot(&self.work, now).expect("boot");
        self.t_boot += t.elapsed();
        self.boots += 1;
        s
    }

    /// Logging run of `ops` from the baseline: statement sequence and the `after` observation.
    fn learn(&mut self, ops: &[Op], rep: &mut Report) -> Option<KindInfo> {
        copy_db(&self.base, &self.work);
        let srv = self.boot_work(ct(1000));
        let before = srv.observe();
        let sab = Sab::open(&self.work);
        let raw_before = sab.dump();
        sab.install(0, false);
        let end = srv.txn(ops, None, ct(2000));
        let log = sab.log();
        sab.uninstall();
        if end != End::CommitOk {
            rep.note(format!("kind {:?}: logging run did not commit: {end:?}", ops.iter().map(|o| o.show()).collect::<Vec<_>>()));
            return None;
        }
        let after_ok = srv.observe();
        let raw_after = sab.dump();
        let staged: BTreeSet<String> = diff_keys(&before, &after_ok).into_iter().filter(|k| k != "entries").collect();
        let db_changes = raw_before != raw_after;
        // "only a transaction whose commit reports success becomes visible": the positive half
        if !db_changes || before.get("entries") == after_ok.get("entries") {
            rep.fail(Failure {
                kind: "impl-vs-oracle".into(),
                class: "successful-commit-not-visible".into(),
                input: json!({"stream": "kinds", "ops": ops.iter().map(|o| o.show()).collect::<Vec<_>>(), "k": 0, "commit_fault": false, "prev": self.prev}),
                expected: "a committed transaction changes the stored data and what readers see".into(),
                observed: format!("db changed: {db_changes}"),
            });
            self.oracle_failed = true;
        }
        // the logged statement order must follow the generated commit order
        if let Some(m) = &self.model {
            let mut last = 0usize;
            let mut seen_ts = false;
            for t in &log {
                if t == "db_op_ts" {
                    seen_ts = true;
                }
                if !seen_ts {
                    continue;
                }
                match table_step(t).and_then(|s| m.idx(s)) {
                    Some(i) => {
                        if i < last {
                            rep.fail(Failure {
                                kind: "impl-vs-model".into(),
                                class: "statement-order-differs-from-generated-order".into(),
                                input: json!({"stream": "kinds", "ops": ops.iter().map(|o| o.show()).collect::<Vec<_>>(), "k": 0, "commit_fault": false, "prev": self.prev}),
                                expected: format!("statements in generated step order {:?}", m.steps),
                                observed: format!("{log:?}"),
                            });
                            break;
                        }
                        last = i;
                    }
                    None => rep.count(&format!("unmapped-table:{t}")),
                }
            }
        }
        drop(srv);
        Some(KindInfo { ops: ops.to_vec(), before, after_ok, log, staged, db_changes })
    }

    /// One fault run: statement `k` fails (or COMMIT).  Returns whether the property held.
    fn fault(&mut self, ki: &KindInfo, k: u64, commit_fault: bool, rep: &mut Report, with_fresh: bool) {
        let input = json!({"stream": "kinds", "ops": ki.ops.iter().map(|o| o.show()).collect::<Vec<_>>(), "k": k, "commit_fault": commit_fault, "prev": self.prev});
        copy_db(&self.base, &self.work);
        let srv = self.boot_work(ct(1000));
        let before = srv.observe();
        let sab = Sab::open(&self.work);
        let raw_before = sab.dump();
        sab.install(k, commit_fault);
        let end = srv.txn(&ki.ops, None, ct(2000));
        sab.uninstall();
        let after = srv.observe();
        let raw_after = sab.dump();
        drop(sab);
        drop(srv);
        let fresh = if with_fresh {
            let s2 = self.boot_work(ct(1000));
            let o = s2.observe();
            drop(s2);
            Some(o)
        } else {
            None
        };
        let table = if commit_fault { "COMMIT".to_string() } else { ki.log.get(k as usize - 1).cloned().unwrap_or_default() };
        rep.count(&format!("fault-at:{}", if table.starts_with("idx_") && table_step(&table) == Some("idl:dbWrite:idlCache") { "idx_*".to_string() } else { table.clone() }));
        let end_tag = match &end {
            End::CommitOk => "commit-ok",
            End::CommitErr(_) => "commit-err",
            End::OpFailed(..) => "op-failed",
            End::Dropped(_) => "dropped",
        };
        rep.count(&format!("end:{end_tag}"));
        if before != ki.before {
            rep.note(format!("baseline observation not reproducible: {:?}", diff_keys(&before, &ki.before)));
        }
        if end == End::CommitOk {
            // the injected fault did not hit (should not happen: k ranges over the logged statements)
            rep.fail(Failure {
                kind: "impl-vs-model".into(),
                class: "fault-not-hit".into(),
                input,
                expected: format!("statement {k} on {table} fails"),
                observed: "commit ok".into(),
            });
            return;
        }
        rep.case(Some(format!("{}#{}{}", ki.ops.iter().map(|o| o.show()).collect::<Vec<_>>().join("+"), k, if commit_fault { "C" } else { "" })));

        // ---------------- oracle: nothing changed ----------------
        let changed = diff_keys(&before, &after);
        let raw_changed: Vec<String> = raw_before.keys().chain(raw_after.keys()).filter(|t| raw_before.get(*t) != raw_after.get(*t)).cloned().collect::<BTreeSet<_>>().into_iter().collect();
        let fresh_changed = fresh.as_ref().map(|f| diff_keys(f, &self.fresh_ref)).unwrap_or_default();
        if !changed.is_empty() || !raw_changed.is_empty() || !fresh_changed.is_empty() {
            let in_commit = matches!(end, End::CommitErr(_));
            let mem_only = ["schema", "domain", "acp", "oauth2", "key", "cid"];
            let is_d5 = in_commit
                && raw_changed.is_empty()
                && fresh_changed.is_empty()
                && changed.iter().all(|k| mem_only.contains(&k.as_str()) && after.get(k).map(|v| shape(v)) == ki.after_ok.get(k).map(|v| shape(v)));
            let class = if is_d5 {
                "D5:commit-publish-before-db".to_string()
            } else if !raw_changed.is_empty() || !fresh_changed.is_empty() || changed.contains("entries") {
                "stored-data-trace-after-failed-txn".to_string()
            } else if !in_commit {
                "trace-after-dropped-txn".to_string()
            } else {
                "torn-publication-after-failed-commit".to_string()
            };
            if is_d5 {
                rep.count("known-D5-witness");
            }
            // record every distinct (class, changed set) once
            let sig = format!("{class}:{changed:?}:{raw_changed:?}:{fresh_changed:?}");
            if !self.known_recorded.contains(&sig) {
                self.known_recorded.insert(sig);
                let k0 = changed.iter().next().cloned().unwrap_or_default();
                rep.fail(Failure {
                    kind: "impl-vs-oracle".into(),
                    class: class.clone(),
                    input: input.clone(),
                    expected: "after the failed transaction: every observation, every table and a reopened server as before".into(),
                    observed: format!(
                        "{end:?}; fault at statement {k} ({table}); changed observations {changed:?} (e.g. {k0}: {}); changed tables {raw_changed:?}; reopened server differs in {fresh_changed:?}",
                        first_diff(before.get(&k0).map(|s| s.as_str()).unwrap_or(""), after.get(&k0).map(|s| s.as_str()).unwrap_or(""))
                    ),
                });
            }
            if !is_d5 {
                self.oracle_failed = true;
            }
        } else {
            rep.count("traceless");
        }

        // ---------------- correspondence ----------------
        if let Some(m) = self.model.as_mut() {
            if m.disagreements >= 4 {
                return;
            }
            let finish = match &end {
                End::OpFailed(..) | End::Dropped(_) => Some("drop".to_string()),
                End::CommitErr(_) => {
                    if commit_fault {
                        m.idx("idl:dbCommit").map(|i| format!("fail:{i}"))
                    } else {
                        let pos = k as usize - 1;
                        let before_ts = !ki.log[..pos].iter().any(|t| t == "db_op_ts") && table != "db_op_ts";
                        if before_ts {
                            // a statement issued by a reload inside commit(): the first IDM step
                            m.idx("idm:stage:qs_write.reload").map(|i| format!("fail:{i}"))
                        } else {
                            table_step(&table).and_then(|s| m.idx(s)).map(|i| format!("fail:{i}"))
                        }
                    }
                }
                End::CommitOk => None,
            };
            let Some(finish) = finish else {
                rep.count("model-skipped-unmapped");
                return;
            };
            let (tag, newc, dbnew) = m.txn(&ki.staged, ki.db_changes, &finish);
            let obs_new: BTreeSet<String> = changed.iter().filter(|k| *k != "entries").cloned().collect();
            let obs_db_new = !raw_changed.is_empty() || changed.contains("entries");
            let exp_tag = if finish == "drop" { "dropped" } else { "err" };
            if tag == exp_tag && newc == obs_new && dbnew == obs_db_new {
                rep.count("model-agree");
            }
            if tag != exp_tag || newc != obs_new || dbnew != obs_db_new {
                m.disagreements += 1;
                rep.fail(Failure {
                    kind: "impl-vs-model".into(),
                    class: "trace-set-differs".into(),
                    input,
                    expected: format!("model ({finish}): {tag}, new = {newc:?}, db new = {dbnew}"),
                    observed: format!("{end:?}: new = {obs_new:?}, db new = {obs_db_new}"),
                });
            }
        }
    }
}

// ------------------------------------------------------------------------------------------------
// drops stream
// ------------------------------------------------------------------------------------------------

fn rand_ops(r: &mut Rng) -> Vec<Op> {
    let n = r.range(1, 5) as usize;
    let mut v = vec![];
    for _ in 0..n {
        v.push(match r.below(12) {
            0 | 1 => Op::Create(r.below(3)),
            2 | 3 => Op::Modify(r.range(1, 9)),
            4 => Op::Delete,
            5 => Op::Schema,
            6 => Op::Acp,
            7 => Op::OAuth2,
            8 => Op::OAuth2Del,
            9 | 10 => Op::Domain(r.range(1, 9)),
            _ => Op::BadCreate,
        });
    }
    v
}

fn drop_case(srv: &Srv, sab: &Sab, ops: &[Op], j: usize, before: &Obs, raw_before: &BTreeMap<String, String>, model: &mut Option<Model>, rep: &mut Report) -> bool {
    let end = srv.txn(ops, Some(j), ct(3000));
    let after = srv.observe();
    let raw_after = sab.dump();
    let input = json!({"stream": "drops", "ops": ops.iter().map(|o| o.show()).collect::<Vec<_>>(), "drop_after": j});
    let tag = match &end {
        End::Dropped(_) => "dropped",
        End::OpFailed(..) => "op-failed",
        _ => "other",
    };
    rep.count(&format!("drop-end:{tag}"));
    let nontrivial = match &end {
        End::Dropped(n) | End::OpFailed(n, _) => *n >= 1,
        _ => false,
    };
    rep.case(if nontrivial { Some(format!("{}@{j}", ops.iter().map(|o| o.show()).collect::<Vec<_>>().join("+"))) } else { None });
    let changed = diff_keys(before, &after);
    let raw_changed: Vec<&String> = raw_before.keys().filter(|t| raw_before.get(*t) != raw_after.get(*t)).collect();
    let mut ok = true;
    if !changed.is_empty() || !raw_changed.is_empty() || raw_before.len() != raw_after.len() {
        ok = false;
        let k0 = changed.iter().next().cloned().unwrap_or_default();
        rep.fail(Failure {
            kind: "impl-vs-oracle".into(),
            class: if raw_changed.is_empty() && !changed.contains("entries") { "trace-after-dropped-txn".into() } else { "stored-data-trace-after-failed-txn".into() },
            input: input.clone(),
            expected: "after the dropped transaction: every observation and every table as before".into(),
            observed: format!(
                "{end:?}; changed observations {changed:?} ({}); changed tables {raw_changed:?}",
                first_diff(before.get(&k0).map(|s| s.as_str()).unwrap_or(""), after.get(&k0).map(|s| s.as_str()).unwrap_or(""))
            ),
        });
    }
    if let Some(m) = model.as_mut() {
        if m.disagreements < 4 {
            // every observable could have been staged: the model must say none is new
            let staged: BTreeSet<String> = OBS_CELLS.iter().map(|(o, _)| o.to_string()).collect();
            let (t, newc, dbnew) = m.txn(&staged, true, "drop");
            let obs_new: BTreeSet<String> = changed.iter().filter(|k| *k != "entries").cloned().collect();
            if t != "dropped" || newc != obs_new || dbnew != (!raw_changed.is_empty() || changed.contains("entries")) {
                m.disagreements += 1;
                rep.fail(Failure {
                    kind: "impl-vs-model".into(),
                    class: "trace-set-differs".into(),
                    input,
                    expected: format!("model (drop): new = {newc:?}, db new = {dbnew}"),
                    observed: format!("{end:?}: new = {obs_new:?}"),
                });
            }
        }
    }
    ok
}

// ------------------------------------------------------------------------------------------------

fn fresh_reference(base: &Path, work: &Path) -> Obs {
    copy_db(base, work);
    let s = Srv::boot(work, ct(1000)).expect("boot");
    let _ = s.observe();
    drop(s);
    let s = Srv::boot(work, ct(1000)).expect("reboot");
    let o = s.observe();
    drop(s);
    o
}

/// At most `max` of the indices, evenly spread, keeping the first and the last.
fn cap(ks: Vec<u64>, max: usize) -> Vec<u64> {
    if ks.len() <= max || max < 2 {
        return ks;
    }
    let n = ks.len();
    let mut out: Vec<u64> = (0..max).map(|i| ks[i * (n - 1) / (max - 1)]).collect();
    out.dedup();
    out
}

fn fixed_kinds() -> Vec<Vec<Op>> {
    vec![
        vec![Op::Create(0)],
        vec![Op::Modify(1)],
        vec![Op::Delete],
        vec![Op::Schema],
        vec![Op::Acp],
        vec![Op::OAuth2],
        vec![Op::OAuth2Del],
        vec![Op::Domain(1)],
        vec![Op::Create(0), Op::Modify(1), Op::Delete, Op::Schema, Op::Acp, Op::OAuth2, Op::Domain(1)],
    ]
}

/// Statement indices to fault: all (thorough) or the first and last of every run of statements on
/// the same step (quick).
fn pick_ks(log: &[String], all: bool) -> Vec<u64> {
    let n = log.len();
    if all {
        return (1..=n as u64).collect();
    }
    let group = |t: &String| table_step(t).unwrap_or("other").to_string();
    let mut ks = BTreeSet::new();
    for i in 0..n {
        let first = i == 0 || group(&log[i - 1]) != group(&log[i]);
        if first {
            ks.insert(i as u64 + 1);
        }
    }
    ks.insert(n as u64);
    ks.into_iter().collect()
}

fn main() {
    let args = Args::parse();
    let t0 = Instant::now();
    let mut rep = Report::new(
        "txn-fault",
        "a write transaction that reached at least one successful operation or commit() and then failed (injected storage fault at statement K / failing COMMIT / failing operation) or was dropped; key = (operations, K or drop point)",
    );
    let dir = workdir();
    let base = dir.join("base.db");
    let work = dir.join("work.db");
    build_baseline(&base);
    // what a fresh server over the untouched baseline observes (two boots: the same procedure as a fault run)
    let fresh_ref = fresh_reference(&base, &work);
    let model = if args.driver.is_empty() { None } else { Some(Model::new(&args.driver)) };
    let mut cx = Ctx { base: base.clone(), work: work.clone(), fresh_ref, prev: false, model, oracle_failed: false, known_recorded: BTreeSet::new(), t_boot: Duration::ZERO, boots: 0 };

    if let Some(path) = &args.replay {
        let v: J = serde_json::from_str(&std::fs::read_to_string(path).expect("replay file")).expect("replay json");
        let input = v.get("input").cloned().unwrap_or(v);
        let ops: Vec<Op> = input["ops"].as_array().expect("ops").iter().map(|o| Op::parse(o.as_str().unwrap())).collect();
        if input["prev"].as_bool().unwrap_or(false) {
            CUR_LEVEL.store(DOMAIN_PREVIOUS_TGT_LEVEL, std::sync::atomic::Ordering::SeqCst);
            let base11 = dir.join("base-prev.db");
            build_baseline(&base11);
            cx.fresh_ref = fresh_reference(&base11, &work);
            cx.base = base11;
            cx.prev = true;
        }
        if input["stream"] == "drops" {
            copy_db(&base, &work);
            let srv = Srv::boot(&work, ct(1000)).expect("boot");
            let sab = Sab::open(&work);
            let before = srv.observe();
            let raw = sab.dump();
            let j = input["drop_after"].as_u64().unwrap() as usize;
            let mut m = cx.model.take();
            drop_case(&srv, &sab, &ops, j, &before, &raw, &mut m, &mut rep);
        } else if let Some(ki) = cx.learn(&ops, &mut rep) {
            let k = input["k"].as_u64().unwrap();
            let cf = input["commit_fault"].as_bool().unwrap_or(false);
            if k > 0 || cf {
                cx.fault(&ki, k, cf, &mut rep, true);
            }
        }
        rep.write(&args.out);
        println!("c04 replay: {} failures", rep.failures.len());
        let _ = std::fs::remove_dir_all(&dir);
        return;
    }

    // ---------------- stream `kinds` ----------------
    let thorough = args.thorough();
    let mut kinds = fixed_kinds();
    let extra = args.cases(if thorough { 0 } else { 0 }, 6);
    for i in 0..extra {
        let mut r = Rng::for_case(args.seed, 1000 + i);
        let mut ops = rand_ops(&mut r);
        ops.retain(|o| *o != Op::BadCreate);
        ops.dedup();
        // a transaction that both deletes and re-creates the same fixture fails in an operation; keep it simple
        let mut seen = std::collections::HashSet::new();
        ops.retain(|o| seen.insert(std::mem::discriminant(o)));
        if !ops.is_empty() {
            kinds.push(ops);
        }
    }
    let mut rng = Rng::for_case(args.seed, 1);
    'kinds: for (ki_idx, ops) in kinds.iter().enumerate() {
        let Some(ki) = cx.learn(ops, &mut rep) else { continue };
        rep.count("kinds");
        rep.count_n("statements-logged", ki.log.len() as u64);
        if rep.samples.len() < 4 {
            let mut runs: Vec<(String, u64)> = vec![];
            for t in &ki.log {
                let g = if t.starts_with("idx_") && table_step(t) == Some("idl:dbWrite:idlCache") { "idx_*".to_string() } else { t.clone() };
                match runs.last_mut() {
                    Some((l, c)) if *l == g => *c += 1,
                    _ => runs.push((g, 1)),
                }
            }
            rep.sample(json!({"ops": ops.iter().map(|o| o.show()).collect::<Vec<_>>(), "statements": runs.iter().map(|(t, c)| format!("{t}x{c}")).collect::<Vec<_>>(), "changes": ki.staged}));
        }
        let mut ks = pick_ks(&ki.log, thorough || args.budget > 1);
        if !thorough && args.budget <= 1 {
            // quick: plus two seed-chosen interior statements
            for _ in 0..2 {
                if !ki.log.is_empty() {
                    ks.push(rng.range(1, ki.log.len() as u64));
                }
            }
            ks.sort();
            ks.dedup();
        }
        for (n, k) in ks.iter().enumerate() {
            // reopen a fresh server after the fault: always in thorough, every 3rd case in quick
            let with_fresh = (n + ki_idx) % (if thorough { 2 } else { 4 }) == 0;
            cx.fault(&ki, *k, false, &mut rep, with_fresh);
            if cx.oracle_failed {
                break 'kinds;
            }
        }
        cx.fault(&ki, 0, true, &mut rep, true);
        if cx.oracle_failed {
            break;
        }
    }

    // ---------------- kind `raise`: domain level upgrade on a baseline at the previous level ----------------
    if !cx.oracle_failed {
        CUR_LEVEL.store(DOMAIN_PREVIOUS_TGT_LEVEL, std::sync::atomic::Ordering::SeqCst);
        let base11 = dir.join("base-prev.db");
        build_baseline(&base11);
        let saved = (cx.base.clone(), cx.fresh_ref.clone());
        cx.fresh_ref = fresh_reference(&base11, &work);
        cx.base = base11;
        cx.prev = true;
        if let Some(ki) = cx.learn(&[Op::Raise], &mut rep) {
            rep.count("kinds");
            rep.count_n("statements-logged", ki.log.len() as u64);
            rep.sample(json!({"ops": ["raise"], "statements": ki.log.len(), "changes": ki.staged}));
            let ks = if thorough { cap((1..=ki.log.len() as u64).collect(), 60 * args.budget as usize) } else { cap(pick_ks(&ki.log, false), 8) };
            for (n, k) in ks.iter().enumerate() {
                cx.fault(&ki, *k, false, &mut rep, thorough || n % 4 == 0);
                if cx.oracle_failed {
                    break;
                }
            }
            if !cx.oracle_failed {
                cx.fault(&ki, 0, true, &mut rep, true);
            }
        }
        cx.base = saved.0;
        cx.fresh_ref = saved.1;
        cx.prev = false;
        CUR_LEVEL.store(0, std::sync::atomic::Ordering::SeqCst);
    }

    // ---------------- stream `drops` ----------------
    if !cx.oracle_failed {
        copy_db(&base, &work);
        let mut srv = Srv::boot(&work, ct(1000)).expect("boot");
        let mut sab = Sab::open(&work);
        let mut before = srv.observe();
        let mut raw = sab.dump();
        let n = args.cases(24, 240);
        let mut model = cx.model.take();
        let mut seqs: Vec<Vec<Op>> = fixed_kinds();
        for i in 0..n {
            let mut r = Rng::for_case(args.seed, 5000 + i);
            seqs.push(rand_ops(&mut r));
        }
        'drops: for ops in &seqs {
            for j in 0..=ops.len() {
                if !drop_case(&srv, &sab, ops, j, &before, &raw, &mut model, &mut rep) {
                    // the shared server is suspect now: shrink nothing, restart from the baseline
                    cx.oracle_failed = true;
                    drop(sab);
                    drop(srv);
                    copy_db(&base, &work);
                    srv = Srv::boot(&work, ct(1000)).expect("boot");
                    sab = Sab::open(&work);
                    before = srv.observe();
                    raw = sab.dump();
                    break 'drops;
                }
            }
        }
        // finally the shared server, reopened, still observes the baseline
        drop(sab);
        drop(srv);
        let s = Srv::boot(&work, ct(1000)).expect("reboot");
        let o = s.observe();
        let d = diff_keys(&o, &cx.fresh_ref);
        if !d.is_empty() && !cx.oracle_failed {
            rep.fail(Failure {
                kind: "impl-vs-oracle".into(),
                class: "stored-data-trace-after-failed-txn".into(),
                input: json!({"stream": "drops", "ops": [], "drop_after": 0, "note": "after the whole drops stream"}),
                expected: "reopened server observes the baseline".into(),
                observed: format!("differs in {d:?}"),
            });
        }
        cx.model = model;
    }

    if let Some(m) = &cx.model {
        rep.model_requests = m.drv.requests;
    }
    rep.note(format!("boots: {} in {:.1}s; total {:.1}s", cx.boots, cx.t_boot.as_secs_f64(), t0.elapsed().as_secs_f64()));
    rep.write(&args.out);
    println!(
        "c04: {} cases, {} distinct non-trivial, {} failures ({} D5 witnesses), {:.1}s",
        rep.evaluations,
        rep.nontrivial_keys.len(),
        rep.failures.len(),
        rep.histogram.get("known-D5-witness").copied().unwrap_or(0),
        t0.elapsed().as_secs_f64()
    );
    let _ = std::fs::remove_dir_all(&dir);
}
